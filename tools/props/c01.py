"""C01 — ABI-mode struct/union layout equals the C compiler's layout.

Three-way tie on the same generated declarations (one gcc translation unit per batch):
  (i)   real cffi (ffi.sizeof/alignof/offsetof, typeof(T).fields)  vs  Coq model  cffi_layout   (ties the model)
  (ii)  gcc probe (sizeof/_Alignof/offsetof, all-ones store + byte dump) vs Coq spec gcc_layout  (ties the spec)
  (iii) real cffi vs gcc directly — the property predicate; violations are decided here.
Every struct/union node of a generated declaration tree gets its own tagged top-level declaration
("view") and is compared separately, so inner layouts are covered too.
"""
import hashlib
import os
import re
import subprocess

from lib import vlib

ID = "C01"

# ------------------------------------------------------------------------------------------ types
# (C spelling, may be the declared type of a bit-field)
BF_INTS = ["signed char", "unsigned char", "short", "unsigned short", "int", "unsigned int",
           "long", "unsigned long", "long long", "unsigned long long",
           "int8_t", "uint8_t", "int16_t", "uint16_t", "int32_t", "uint32_t", "int64_t", "uint64_t",
           "size_t", "ssize_t"]
UNSIGNED = {"unsigned char", "unsigned short", "unsigned int", "unsigned long", "unsigned long long",
            "uint8_t", "uint16_t", "uint32_t", "uint64_t", "size_t", "_Bool"}
OTHER_PRIMS = ["char", "float", "double", "long double", "float _Complex", "double _Complex",
               "wchar_t", "char16_t", "char32_t", "intptr_t", "uintptr_t", "ptrdiff_t",
               "enum ce_u", "enum ce_s"]
POINTERS = ["void *", "char *", "int **", "fnptr_t", "struct fwd *", "double *"]
ALL_PRIMS = BF_INTS + ["_Bool"] + OTHER_PRIMS + POINTERS
BF_TYPES = set(BF_INTS + ["_Bool"])

PRELUDE_CDEF = ("typedef int (*fnptr_t)(int, char *);\n"
                "enum ce_u { CE_A, CE_B };\nenum ce_s { CE_N = -1, CE_P = 1 };\n"
                "struct fwd;\n")
PRELUDE_C = ("#include <stdio.h>\n#include <string.h>\n#include <stddef.h>\n#include <stdint.h>\n"
             "#include <sys/types.h>\n#include <uchar.h>\n#include <wchar.h>\n" + PRELUDE_CDEF +
             "static void dump(const void *p, size_t n) { size_t i; for (i = 0; i < n; i++) "
             "printf(\"%02x\", ((const unsigned char *)p)[i]); printf(\"\\n\"); }\n")


def prim(name):
    return dict(k="prim", c=name)


def arr(item, n):
    return dict(k="arr", item=item, n=n)


def agg(union, pack, fields, inline=False, packed_kw=False):
    return dict(k="agg", u=bool(union), pack=pack, inline=inline, packed_kw=packed_kw, fields=fields)


def fld(name, t, bits=-1):
    return dict(name=name, t=t, bits=bits)


# ------------------------------------------------------------------------------------------ generator

class Namer:
    def __init__(self):
        self.n = 0

    def __call__(self):
        self.n += 1
        return "f%d" % self.n


def rand_prim(rng):
    r = rng.random()
    if r < 0.55:
        return prim(rng.choice(BF_INTS + ["_Bool"]))
    if r < 0.8:
        return prim(rng.choice(OTHER_PRIMS))
    return prim(rng.choice(POINTERS))


def bf_size(name):
    return {"signed char": 1, "unsigned char": 1, "short": 2, "unsigned short": 2, "int": 4, "unsigned int": 4,
            "long": 8, "unsigned long": 8, "long long": 8, "unsigned long long": 8, "int8_t": 1, "uint8_t": 1,
            "int16_t": 2, "uint16_t": 2, "int32_t": 4, "uint32_t": 4, "int64_t": 8, "uint64_t": 8,
            "size_t": 8, "ssize_t": 8, "_Bool": 1}[name]


def rand_bitfield(rng, nm):
    t = rng.choice(BF_INTS + ["_Bool", "_Bool"])
    s = bf_size(t)
    if t == "_Bool":
        w = rng.choice([0, 1, 1, 1])
    else:
        r = rng.random()
        if r < 0.08:
            w = 0
        elif r < 0.2:
            w = 8 * s
        elif r < 0.3:
            w = 8 * s - 1
        elif r < 0.45:
            w = 1
        else:
            w = rng.randint(1, 8 * s)
    named = w > 0 and rng.random() < 0.8
    return fld(nm() if named else "", prim(t), w)


def rand_agg(rng, nm, depth, pack, inline, zero_ok=False, packed_kw=False):
    union = rng.random() < 0.25
    r = rng.random()
    nf = 0 if (zero_ok and r < 0.2) else rng.choice([1, 1, 2, 2, 3, 3, 4, 5, 6, 8, 10, 12])
    fields = []
    for i in range(nf):
        r = rng.random()
        if r < 0.35 and pack == 0:
            fields.append(rand_bitfield(rng, nm))
            # runs of bit-fields are where the interesting interactions are
            while rng.random() < 0.5 and len(fields) < nf:
                fields.append(rand_bitfield(rng, nm))
        elif r < 0.65 or depth >= 4:
            fields.append(fld(nm(), rand_prim(rng)))
        elif r < 0.78:
            it = rand_prim(rng) if rng.random() < 0.7 or depth >= 3 else \
                rand_agg(rng, nm, depth + 1, rng.choice([0, 0, 0, pack]), False)
            if it["k"] == "agg" and has_flex(it):
                it = rand_prim(rng)
            dims = [rng.choice([1, 2, 3, 5]) for _ in range(rng.choice([1, 1, 2]))]
            if zero_ok and rng.random() < 0.4:
                dims[rng.randrange(len(dims))] = 0
            t = it
            for d in reversed(dims):
                t = arr(t, d)
            fields.append(fld(nm(), t))
        else:
            k = rng.random()
            if k < 0.4:       # separately declared (own packing)
                p2 = rng.choice([0, 0, 0, 0, 1, 2, 4, 8])
                fields.append(fld(nm(), rand_agg(rng, nm, depth + 1, p2, False, zero_ok,
                                                 packed_kw=(p2 == 1 and rng.random() < 0.5))))
            elif k < 0.65:    # declared in place, named
                fields.append(fld(nm(), rand_agg(rng, nm, depth + 1, pack, True, zero_ok, packed_kw)))
            else:             # anonymous member
                fields.append(fld("", rand_agg(rng, nm, depth + 1, pack, True, zero_ok, packed_kw)))
    fields = fields[:12]
    # trailing flexible array: structs only, needs a named member before it
    if not union and fields and rng.random() < 0.12 and any(f["name"] for f in fields):
        fields.append(fld(nm(), arr(rand_prim(rng), -1)))
    # gcc refuses a flexible array member anywhere but at the end / inside a union
    for i, f in enumerate(fields):
        if f["t"]["k"] == "agg" and has_flex(f["t"]) and (union or i != len(fields) - 1):
            f["t"] = rand_prim(rng)
            if not f["name"]:
                f["name"] = nm()
    return agg(union, pack, fields, inline, packed_kw)


def ptr(to):
    return dict(k="ptr", to=to)


def opaque_shape(rng, nm, pack, depth):
    """a struct/union with pointer fields to other aggregates (which may point further)"""
    fields = []
    for i in range(rng.choice([1, 2, 3, 4])):
        fields.append(fld(nm(), rand_prim(rng)))
    for i in range(rng.choice([1, 1, 2, 3]) if depth < 3 else 0):
        target = opaque_shape(rng, nm, pack, depth + 1) if rng.random() < 0.6 and depth < 2 else \
            agg(rng.random() < 0.3, pack, [fld(nm(), rand_prim(rng)) for _ in range(rng.choice([1, 2, 3]))])
        t = ptr(target)
        if rng.random() < 0.2:
            t = arr(t, rng.choice([1, 2, 3]))
        fields.insert(rng.randint(0, len(fields)), fld(nm(), t))
    return agg(rng.random() < 0.15, pack, fields)


def has_flex(node):
    if node["k"] != "agg":
        return False
    for f in node["fields"]:
        t = f["t"]
        if t["k"] == "arr" and t["n"] == -1:
            return True
        if t["k"] == "agg" and has_flex(t):
            return True
    return False


def directed_cases(rng):
    """model-directed: one case per branch boundary of the bit-field code"""
    out = []
    ints = [t for t in BF_INTS]
    # bits_already_occupied + w in {8s-1, 8s, 8s+1}
    for t in ints:
        s = bf_size(t)
        for delta in (-1, 0, 1):
            nm = Namer()
            occ = rng.randint(1, 8 * s - 1)
            w = 8 * s + delta - occ
            if not (1 <= w <= 8 * s):
                continue
            pre = []
            if occ >= 8:
                pre.append(fld(nm(), arr(prim("unsigned char"), occ // 8)))
            if occ % 8:
                pre.append(fld(nm(), prim("unsigned char"), occ % 8))
            out.append(agg(False, 0, pre + [fld(nm(), prim(t), w), fld(nm(), prim("char"))]))
            # the same with a differently-typed bit-field before it
            nm = Namer()
            t0 = rng.choice(ints)
            w0 = rng.randint(1, 8 * bf_size(t0))
            out.append(agg(False, 0, [fld(nm(), prim(t0), w0), fld(nm(), prim(t), rng.choice([w, 8 * s, 1])),
                                      fld(nm(), prim(rng.choice(ints)), 1)]))
    # zero-width after a partial unit
    for t in ints[:10] + ["_Bool"]:
        nm = Namer()
        t1, t3 = rng.choice(ints), rng.choice(ints)
        out.append(agg(False, 0, [fld(nm(), prim(t1), rng.randint(1, 8 * bf_size(t1))), fld("", prim(t), 0),
                                  fld(nm(), prim(t3), rng.randint(1, 8 * bf_size(t3)))]))
        nm = Namer()
        out.append(agg(False, 0, [fld(nm(), prim("char")), fld("", prim(t), 0), fld(nm(), prim("char"))]))
    # unnamed bit-field of maximal alignment as (almost) only member
    for w in (1, 3, 33, 63, 64):
        nm = Namer()
        out.append(agg(False, 0, [fld("", prim("long long"), w)]))
        out.append(agg(True, 0, [fld("", prim("long long"), w)]))
        out.append(agg(False, 0, [fld(nm(), prim("char")), fld("", prim("unsigned long long"), w)]))
        out.append(agg(False, 0, [fld(nm(), prim("char")), fld("", prim("long"), w), fld(nm(), prim("short"), 3)]))
        out.append(agg(True, 0, [fld(nm(), prim("char")), fld("", prim("long"), w)]))
    # pack smaller than alignment
    for p, kw in ((1, True), (1, False), (2, False), (4, False), (8, False)):
        nm = Namer()
        out.append(agg(False, p, [fld(nm(), prim("char")), fld(nm(), prim("long double")), fld(nm(), prim("char")),
                                  fld(nm(), prim("double")), fld(nm(), prim("short")), fld(nm(), prim("void *"))],
                       packed_kw=kw))
        nm = Namer()
        inner = agg(False, 0, [fld(nm(), prim("char")), fld(nm(), prim("long"), 5), fld(nm(), prim("double"))])
        out.append(agg(rng.random() < 0.3, p, [fld(nm(), prim("char")), fld(nm(), inner), fld(nm(), arr(prim("int"), 3)),
                                               fld("", agg(True, p, [fld(nm(), prim("int")), fld(nm(), prim("char"))],
                                                           inline=True, packed_kw=kw))], packed_kw=kw))
    return out


def zero_cases(rng):
    """zero-size aggregates (GNU C): the deliberate divergence recorded as finding zero_size_aggregate"""
    out = []
    nm = Namer()
    e = lambda: agg(False, 0, [])
    out.append(e())
    out.append(agg(False, 0, [fld(nm(), arr(prim("int"), 0))]))
    out.append(agg(False, 0, [fld("", prim("long"), 0)]))
    out.append(agg(True, 0, []))
    out.append(agg(False, 0, [fld(nm(), e()), fld(nm(), prim("int")), fld(nm(), arr(e(), 3))]))
    out.append(agg(False, 0, [fld(nm(), prim("char")), fld(nm(), agg(True, 0, [fld("", prim("int"), 0)], inline=True)),
                              fld(nm(), prim("char"))]))
    return out


def generate(ctx):
    rng = ctx.rng
    thorough = ctx.thorough or getattr(ctx, "tier_search", "quick") == "thorough" or fingerprint_changed(ctx)
    n_random = 8000 if thorough and ctx.thorough else (1500 if thorough else 250)
    cases = []
    for node in directed_cases(rng):
        cases.append(dict(stream="directed", top=node))
    for node in zero_cases(rng):
        cases.append(dict(stream="zero", top=node))
    for i in range(n_random):
        nm = Namer()
        zero_ok = rng.random() < 0.03
        p = rng.choice([0, 0, 0, 0, 0, 0, 1, 1, 2, 4, 8])
        cases.append(dict(stream="zero-random" if zero_ok else "random",
                          top=rand_agg(rng, nm, 1, p, False, zero_ok, packed_kw=(p == 1 and rng.random() < 0.5))))
    for c in cases:
        if c["stream"] in ("random", "directed"):
            add_mentions(rng, c["top"], 0.25)
    # a tag declared opaque in one cdef(), USED while opaque, then defined in a later cdef() whose body has pointer
    # fields to structs/unions first declared in that same cdef() (chains of such pointers too): every aggregate
    # must be completed (ffi.sizeof/alignof/offsetof answer, and agree with gcc)
    for i in range(1500 if thorough and ctx.thorough else (120 if thorough else 24)):
        cases.append(dict(stream="opaque", top=opaque_shape(rng, Namer(), rng.choice([0, 0, 0, 1, 2]), 0),
                          opaque=dict(use=rng.choice(["typeof", "prototype", "field"]),
                                      order=rng.choice(["pointees-first", "top-first"]))))
    # the options of the DEFINING cdef() apply, whatever an earlier cdef() that mentioned the tag said
    for kind in ("fwd", "typedef", "ptr"):
        for pdef, pmen, kwd in ((1, 0, True), (0, 1, True), (2, 0, False), (0, 2, False), (4, 1, False), (1, 8, False)):
            nm = Namer()
            n = agg(False, pdef, [fld(nm(), prim("char")), fld(nm(), prim("int")), fld(nm(), prim("short")),
                                  fld(nm(), prim("long"))], packed_kw=(kwd and pdef == 1))
            n["mention"] = dict(kind=kind, pack=pmen, packed_kw=(kwd and pmen == 1))
            cases.append(dict(stream="directed", top=n))
    # other conventions (model tie only): MSVC, ARM, big endian, packed with bit-fields, pack=N with bit-fields
    ALTS = [(0x41, 0), (0x42, 0), (0x14, 0), (0x58, 0), (0x00, 2), (0x01, 4), (0x44, 0), (0x08, 0)]
    for c in cases:
        if c["stream"] in ("directed", "random") and (thorough or rng.random() < 0.5):
            c["alt"] = list(rng.choice(ALTS))
    return cases


# ------------------------------------------------------------------------------------------ emit C text

def agg_nodes(node, acc=None):
    """post-order list of all struct/union nodes below (and including) node"""
    if acc is None:
        acc = []
    if node["k"] == "arr":
        agg_nodes(node["item"], acc)
    elif node["k"] == "ptr":          # pointer to a struct/union: the pointee is declared (and compared) as well
        agg_nodes(node["to"], acc)
    elif node["k"] == "agg":
        for f in node["fields"]:
            agg_nodes(f["t"], acc)
        acc.append(node)
    return acc


def kw(node):
    return "union" if node["u"] else "struct"


def body(node):
    return "{ " + " ".join(decl(f) for f in node["fields"]) + " }"


def decl(f):
    t, dims = f["t"], ""
    while t["k"] == "arr":
        dims += "[]" if t["n"] < 0 else "[%d]" % t["n"]
        t = t["item"]
    if t["k"] == "prim":
        base = t["c"]
    elif t["k"] == "ptr":
        base = "%s %s *" % (kw(t["to"]), t["to"]["tag"])
    elif t["inline"]:
        base = kw(t) + " " + body(t)
    else:
        base = kw(t) + " " + t["tag"]
    s = base + ((" " + f["name"]) if f["name"] else "") + dims
    if f["bits"] >= 0:
        s += " :%d" % f["bits"]
    return s + ";"


def type_string(t):
    dims = ""
    while t["k"] == "arr":
        dims += "[]" if t["n"] < 0 else "[%d]" % t["n"]
        t = t["item"]
    if t["k"] == "ptr":
        return "%s %s *" % (kw(t["to"]), t["to"]["tag"]) + dims
    return (t["c"] if t["k"] == "prim" else kw(t) + " " + t["tag"]) + dims


def mention_src(node):
    """an earlier declaration that only MENTIONS the tag (given to its own cdef() call, with other packing options)"""
    k, T = node["mention"]["kind"], "%s %s" % (kw(node), node["tag"])
    if k == "fwd":
        return T + ";"
    if k == "typedef":
        return "typedef %s %s_t;" % (T, node["tag"])
    return "struct %s_m { %s *p; int q; };" % (node["tag"], T)


def add_mentions(rng, top, prob):
    """spread the declarations of a case over several cdef() calls with different packed=/pack= options: some tags
    are first mentioned (forward declaration / typedef / pointer field) in a call whose options differ from those
    of the call that defines them"""
    for n in agg_nodes(top):
        if rng.random() < prob:
            p = rng.choice([x for x in (0, 1, 1, 2, 4, 8) if x != n["pack"]])
            n["mention"] = dict(kind=rng.choice(["fwd", "typedef", "ptr"]), pack=p,
                                packed_kw=(p == 1 and rng.random() < 0.5))


def assign_tags(case, prefix):
    nodes = agg_nodes(case["top"])
    for i, n in enumerate(nodes):
        n["tag"] = "%s_%d" % (prefix, i)
    return nodes


def flat_fields(node):
    """named members as cffi's typeof(T).fields / C member lookup see them: anonymous members flattened.
    -> list of (name, bits, ctype-name-or-None)"""
    out = []
    for f in node["fields"]:
        if f["name"]:
            out.append((f["name"], f["bits"], f["t"]["c"] if f["t"]["k"] == "prim" else None))
        elif f["t"]["k"] == "agg":
            out += flat_fields(f["t"])
    return out


def coq_type(node, prims):
    """declaration tree -> literal of C01.Model.wtype (monomorphic wire format, see Model.v)"""
    if node["k"] == "prim":
        s, a = prims[node["c"]]
        return "(WPrim %d %d %s)" % (s, a, "true" if node["c"] in BF_TYPES else "false")
    if node["k"] == "arr":
        return "(WArr %s (%d))" % (coq_type(node["item"], prims), node["n"])
    if node["k"] == "ptr":
        s, a = prims["void *"]
        return "(WPrim %d %d false)" % (s, a)
    fs = "WNil"
    for f in reversed(node["fields"]):
        fs = "(WCons %s %s (%d) %s)" % ("true" if f["name"] else "false", coq_type(f["t"], prims), f["bits"], fs)
    mention = node["mention"]["pack"] if node.get("mention") else -1
    return "(WAgg %s %d (%d) %s)" % ("true" if node["u"] else "false", node["pack"], mention, fs)


def coq_obs(size, align, rows):
    fs = "ONil"
    for r in reversed(rows):
        fs = "(OCons (%d) (%d) (%d) (%d) %s)" % (tuple(r) + (fs,))
    return "(WSome (%d) (%d) %s)" % (size, align, fs)


# ------------------------------------------------------------------------------------------ gcc oracle

def gcc_probe(ctx, views, tag):
    """views: list of (view id, node). Returns (facts, prims, rejected ids).
    facts[id] = dict(size, align, off={name: offset}, bits={name: hex dump})"""
    s = ctx.scratch()
    main = ["int main(void) {"]
    for name in ALL_PRIMS:
        main.append('printf("P %d %%zu %%zu\\n", sizeof(%s), _Alignof(%s));' % (ALL_PRIMS.index(name), name, name))
    dead = set()
    for attempt in range(4):
        lines, line_owner = [PRELUDE_C], {}
        mainl = list(main)
        for vid, node in views:
            if node["case_id"] in dead:
                continue
            p = node["pack"]
            text = (mention_src(node) + "\n" if node.get("mention") else "") + \
                ("#pragma pack(push, %d)\n" % p if p else "") + \
                "%s %s %s;" % (kw(node), node["tag"], body(node)) + ("\n#pragma pack(pop)" if p else "")
            start = sum(l.count("\n") + 1 for l in lines) + 1
            lines.append(text)
            for ln in range(start, start + text.count("\n") + 1):
                line_owner[ln] = node["case_id"]
            T = "%s %s" % (kw(node), node["tag"])
            mainl.append('printf("V %d %%zu %%zu\\n", sizeof(%s), _Alignof(%s));' % (vid, T, T))
            for name, bits, cname in flat_fields(node):
                if bits < 0:
                    mainl.append('printf("O %d %s %%zu\\n", offsetof(%s, %s));' % (vid, name, T, name))
                else:
                    mainl.append('{ %s o; memset(&o, 0, sizeof o); o.%s = -1; printf("B %d %s "); dump(&o, sizeof o); }'
                                 % (T, name, vid, name))
        nhead = sum(l.count("\n") + 1 for l in lines)
        src = "\n".join(lines) + "\n" + "\n".join(mainl) + "\nreturn 0; }\n"
        cpath = os.path.join(s.work, "c01_%s.c" % tag)
        exe = os.path.join(s.work, "c01_%s.exe" % tag)
        with open(cpath, "w") as f:
            f.write(src)
        p = subprocess.run(["gcc", "-std=gnu11", "-w", "-O0", "-o", exe, cpath], capture_output=True, text=True)
        if p.returncode == 0:
            break
        # declarations gcc refuses are outside the property's class: drop those cases and retry
        newdead = set()
        for m in re.finditer(r"c01_%s\.c:(\d+):\d+: error" % re.escape(tag), p.stderr):
            ln = int(m.group(1))
            if ln in line_owner:
                newdead.add(line_owner[ln])
        if not newdead:
            # error inside main(): find the view id on that line
            srclines = src.split("\n")
            for m in re.finditer(r"c01_%s\.c:(\d+):\d+: error" % re.escape(tag), p.stderr):
                mm = re.search(r'"[VOB] (\d+)', srclines[int(m.group(1)) - 1])
                if mm:
                    newdead.add(dict(views)[int(mm.group(1))]["case_id"])
        if not newdead:
            raise RuntimeError("gcc probe does not compile:\n" + p.stderr[:3000])
        dead |= newdead
    else:
        raise RuntimeError("gcc probe does not compile after retries:\n" + p.stderr[:3000])
    out = subprocess.run([exe], capture_output=True, text=True, timeout=300).stdout
    facts, prims = {}, {}
    for line in out.splitlines():
        w = line.split()
        if w[0] == "P":
            prims[ALL_PRIMS[int(w[1])]] = (int(w[2]), int(w[3]))
        elif w[0] == "V":
            facts[int(w[1])] = dict(size=int(w[2]), align=int(w[3]), off={}, bits={})
        elif w[0] == "O":
            facts[int(w[1])]["off"][w[2]] = int(w[3])
        elif w[0] == "B":
            facts[int(w[1])]["bits"][w[2]] = w[3] if len(w) > 3 else ""
    os.unlink(cpath)
    os.unlink(exe)
    return facts, prims, dead


def bitset(hexdump):
    b = bytes.fromhex(hexdump)
    return [8 * i + j for i in range(len(b)) for j in range(8) if b[i] >> j & 1]


# ------------------------------------------------------------------------------------------ evaluation

def finding_key(node, facts_by_tag):
    """zero_size_aggregate: some struct/union at or below this node has gcc size 0"""
    for n in agg_nodes(node):
        g = facts_by_tag.get(n["tag"])
        if g is not None and g["size"] == 0:
            return "zero_size_aggregate"
    return None


def zl(n):
    return "(%d)" % n


def evaluate(ctx, cases):
    batch = 300
    acc = dict(model_cases=[], model_owner=[], spec_cases=[], spec_owner=[], alt_cases=[], alt_owner=[])
    for b0 in range(0, len(cases), batch):
        evaluate_batch(ctx, cases[b0:b0 + batch], "b%d" % (b0 // batch), acc)
    # model and spec are evaluated inside Coq once for the whole run (coqc start-up dominates)
    from concurrent.futures import ThreadPoolExecutor
    with ThreadPoolExecutor(3) as ex:
        fm = ex.submit(coq_wire_mismatches, "model_obs", acc["model_cases"])
        fs = ex.submit(coq_wire_mismatches, "spec_obs", acc["spec_cases"])
        fa = ex.submit(coq_wire_mismatches, "alt_obs", acc["alt_cases"])
        bad, outs, err = fm.result()
        sbad, souts, serr = fs.result()
        abad, aouts, aerr = fa.result()
    if aerr:
        ctx.obligation_broken("C01 model evaluation (other conventions)", aerr)
    for i in abad:
        ctx.mismatch(acc["alt_owner"][i], "sflags=0x%x pack=%d: model = %s ; backend complete_struct_or_union = %s" % (
            acc["alt_owner"][i]["alt"][0], acc["alt_owner"][i]["alt"][1], aouts.get(i), acc["alt_cases"][i][1]),
            "C01.Model.complete_struct_or_union (MSVC/ARM/big-endian/packed-bit-field branches) vs _cffi_backend.c")
    if err:
        ctx.obligation_broken("C01 model evaluation", err)
    for i in bad:
        ctx.mismatch(acc["model_owner"][i], "model cffi_layout = %s ; real cffi = %s" % (
            outs.get(i), acc["model_cases"][i][1]),
            "C01.Model.cffi_layout vs _cffi_backend.c b_complete_struct_or_union")
    if serr:
        ctx.obligation_broken("C01 spec evaluation", serr)
    for i in sbad:
        ctx.mismatch(acc["spec_owner"][i], "spec gcc_layout = %s ; gcc = %s" % (souts.get(i), acc["spec_cases"][i][1]),
                     "C01.Spec.gcc_layout vs gcc")


def evaluate_batch(ctx, cases, btag, acc):
    s = ctx.scratch()
    views = []
    for ci, c in enumerate(cases):
        for n in assign_tags(c, "%s_c%d" % (btag, ci)):
            n["case_id"] = ci
            views.append((len(views), n))
    # --- gcc
    gfacts, gprims, dead = gcc_probe(ctx, views, btag)
    for ci in dead:
        ctx.hist("gcc_rejects(outside class)", cases[ci]["stream"])
    views = [(vid, n) for vid, n in views if n["case_id"] not in dead]
    # --- real cffi
    payload = dict(prelude=PRELUDE_CDEF, prims=ALL_PRIMS, cases=[])
    for ci, c in enumerate(cases):
        if ci in dead:
            continue
        decls, vs = [], []
        for n in agg_nodes(c["top"]):
            decls.append(dict(src="%s %s %s;" % (kw(n), n["tag"], body(n)), pack=n["pack"], packed_kw=n["packed_kw"],
                              mention=dict(n["mention"], src=mention_src(n)) if n.get("mention") else None))
            vs.append(dict(T="%s %s" % (kw(n), n["tag"]), tag=n["tag"],
                           fields=[dict(name=nm_, bits=bits, unsigned=(cn in UNSIGNED), bool=(cn == "_Bool"))
                                   for nm_, bits, cn in flat_fields(n)]))
        alt = None
        if c.get("alt"):
            top = c["top"]
            alt = dict(tag=top["tag"], union=top["u"], sflags=c["alt"][0], pack=c["alt"][1],
                       fields=[(f["name"], type_string(f["t"]), f["bits"]) for f in top["fields"]])
        opq = None
        if c.get("opaque"):
            top = c["top"]
            opq = dict(c["opaque"], fwd="%s %s;" % (kw(top), top["tag"]), ptr="%s %s *" % (kw(top), top["tag"]),
                       tag=top["tag"])
        payload["cases"].append(dict(id=ci, decls=decls, views=vs, alt=alt, opaque=opq))
    out, p = s.run_worker("c01_worker.py", payload, timeout=1800)
    if out is None:
        ctx.violation(cases[0], "cffi worker crashed (rc=%s): %s" % (p.returncode, (p.stderr or p.stdout)[-1500:]))
        return
    cprims = {k: tuple(v) for k, v in out["prims"].items()}
    cfacts = out["views"]            # tag -> facts
    for name in ALL_PRIMS:
        if cprims.get(name) != gprims.get(name):
            # primitive sizes are C06's subject; here they are only inputs, but a difference would make
            # every comparison below meaningless, so say so loudly
            ctx.violation(dict(prim=name), "primitive %s: cffi (size, align) = %r, gcc = %r" % (
                name, cprims.get(name), gprims.get(name)))
    gfacts_by_tag = {n["tag"]: gfacts[vid] for vid, n in views if vid in gfacts}
    for ci, c in enumerate(cases):
        if ci in dead or not c.get("alt"):
            continue
        r = out["alts"].get(c["top"]["tag"])
        if r is None:
            continue
        ctx.count()
        ctx.hist("alt_sflags", "0x%02x pack=%d%s" % (c["alt"][0], c["alt"][1], " rejected" if r.get("error") else ""))
        impl = "WNone" if r.get("error") else coq_obs(r["size"], r["align"], [f[1:5] for f in r["fields"]])
        top = dict(c["top"], pack=c["alt"][0] * 65536 + c["alt"][1], mention=None)
        acc["alt_cases"].append((coq_type(top, cprims), impl))
        acc["alt_owner"].append(dict(stream=c["stream"], alt=c["alt"], top=strip(c["top"])))
    for vid, n in views:
        c = cases[n["case_id"]]
        g = gfacts.get(vid)
        r = cfacts.get(n["tag"])
        ctx.count()
        ff = flat_fields(n)
        repl = dict(stream=c["stream"], top=strip(n))
        if c.get("opaque"):     # the rejection depends on the whole cdef() sequence: replay the whole case
            repl = dict(stream=c["stream"], top=strip(c["top"]), opaque=c["opaque"])
        key = finding_key(n, gfacts_by_tag)
        ctx.hist("stream", c["stream"])
        ctx.hist("fields", len(n["fields"]))
        ctx.hist("pack", n["pack"])
        classify(ctx, n)
        # ---- (iii) the property predicate: real cffi vs gcc
        problems = []
        if r.get("error"):
            problems.append("cffi rejects the declaration (%s) but gcc accepts it" % r["error"])
        else:
            if r["size"] != g["size"]:
                problems.append("ffi.sizeof = %d, gcc sizeof = %d" % (r["size"], g["size"]))
            if r["align"] != g["align"]:
                problems.append("ffi.alignof = %d, gcc _Alignof = %d" % (r["align"], g["align"]))
            rf = {f[0]: f for f in r["fields"]}
            if [f[0] for f in r["fields"]] != [f[0] for f in ff]:
                problems.append("typeof(T).fields names %r, declared %r" % ([f[0] for f in r["fields"]],
                                                                              [f[0] for f in ff]))
            else:
                for name, bits, cn in ff:
                    _, off, shift, bsize, flags = rf[name]
                    if bits < 0:
                        if off != g["off"][name] or r["offsetof"].get(name) != g["off"][name] or bsize != -1:
                            problems.append("field %s: cffi offset %r (offsetof %r), gcc offsetof %d" % (
                                name, off, r["offsetof"].get(name), g["off"][name]))
                    else:
                        want = bitset(g["bits"][name])
                        got = list(range(8 * off + shift, 8 * off + shift + bsize))
                        if want != got or bsize != bits:
                            problems.append("bit-field %s:%d: cffi storage bits [%d,%d), gcc bits %s" % (
                                name, bits, 8 * off + shift, 8 * off + shift + bsize,
                                "[%d,%d)" % (want[0], want[-1] + 1) if want else "none"))
                        elif name in r["written"] and r["written"][name] != g["bits"][name]:
                            problems.append("bit-field %s:%d: bytes after an all-ones store through cffi %s, gcc %s"
                                            % (name, bits, r["written"][name], g["bits"][name]))
        for what in problems[:3]:
            ctx.violation(repl, "%s %s: %s" % (kw(n), body(n), what), key=key)
        # ---- (i) model vs cffi
        if r.get("error"):
            impl = "WNone"
        else:
            impl = coq_obs(r["size"], r["align"], [f[1:5] for f in r["fields"]])
        acc["model_cases"].append((coq_type(n, cprims), impl))
        acc["model_owner"].append(repl)
        # ---- (ii) spec vs gcc
        gl = []
        for name, bits, cn in ff:
            if bits < 0:
                gl.append((g["off"][name], -1, 0, 0))
            else:
                bs = bitset(g["bits"][name])
                if bs != list(range(bs[0], bs[0] + len(bs))):
                    ctx.mismatch(repl, "gcc stores bit-field %s into non-contiguous bits %r" % (name, bs),
                                 "C01.Spec.gcc_layout vs gcc")
                gl.append((bs[0], len(bs), 0, 0))
        acc["spec_cases"].append((coq_type(n, gprims), coq_obs(g["size"], g["align"], gl)))
        acc["spec_owner"].append(repl)
        if len(ctx.cov["samples"]) < 4 and len(n["fields"]) >= 4:
            ctx.sample(dict(decl="%s %s" % (kw(n), body(n)), pack=n["pack"], gcc=g, cffi=r))

def coq_wire_mismatches(fname, cases, shard=1500, jobs=4, timeout=900):
    """like vlib.coq_mismatches, but the whole case list is written with the monomorphic constructors of
    C01/Model.v (wcases/wtype/wres): Coq elaborates that ~10x faster than list/pair notations.
    Returns (bad indices, {index: model output text}, error or None)."""
    if not cases:
        return [], {}, None
    d = vlib.mkscratch("coq")
    header = ("From Coq Require Import ZArith List.\nImport ListNotations.\n"
              "From Cffi Require Import C01.Spec C01.Model.\nOpen Scope Z_scope.\n")
    bad, outs, err = [], {}, None
    try:
        paths = []
        for k, j in enumerate(range(0, len(cases), shard)):
            t = "CNil"
            for w, r in reversed(cases[j:j + shard]):
                t = "(CCons %s %s\n %s)" % (w, r, t)
            path = os.path.join(d, "w%d.v" % k)
            with open(path, "w") as f:
                f.write(header + "Definition cs := %s.\nEval vm_compute in wmismatches %s %d cs.\n" % (t, fname, j))
            paths.append(path)

        def run1(path):
            return subprocess.run(["timeout", str(timeout), "coqc"] + vlib.COQ_FLAGS + ["-Q", d, "Scratch", path],
                                  stdout=subprocess.PIPE, stderr=subprocess.STDOUT, text=True, cwd=d)
        from concurrent.futures import ThreadPoolExecutor
        with ThreadPoolExecutor(jobs) as ex:
            results = list(ex.map(run1, paths))
        for p in results:
            m = re.search(r"=\s*\[(.*?)\]\s*:\s*list Z", p.stdout, re.S)
            if p.returncode != 0 or not m:
                err = err or "coqc failed on a shard of %s: %s" % (fname, p.stdout[-1500:])
                continue
            bad += [int(x) for x in m.group(1).replace("\n", " ").split(";") if x.strip()]
        if bad and not err:
            sel = sorted(bad)[:20]
            ok, out = vlib.coq_eval([], header + "".join("Eval vm_compute in %s %s.\n" % (fname, cases[i][0]) for i in sel),
                                    timeout=timeout, workdir=d, name="detail")
            for i, c in zip(sel, re.split(r"^\s*= ", out, flags=re.M)[1:]):
                outs[i] = " ".join(c.split())[:2000]
    finally:
        import shutil
        shutil.rmtree(d, ignore_errors=True)
        if d in vlib._scratch_dirs:
            vlib._scratch_dirs.remove(d)
    return sorted(bad), outs, err


def strip(node):
    """a self-contained replayable copy of a view (tags are reassigned on replay)"""
    if node["k"] == "prim":
        return dict(node)
    if node["k"] == "arr":
        return dict(k="arr", item=strip(node["item"]), n=node["n"])
    if node["k"] == "ptr":
        return dict(k="ptr", to=strip(node["to"]))
    return dict(k="agg", u=node["u"], pack=node["pack"], inline=node["inline"], packed_kw=node["packed_kw"],
                mention=node.get("mention"),
                fields=[dict(name=f["name"], t=strip(f["t"]), bits=f["bits"]) for f in node["fields"]])


def classify(ctx, n):
    """which branches of the model a view exercises (for the evidence) + non-triviality"""
    kinds = set()
    prev_bf = False
    for f in n["fields"]:
        t = f["t"]
        if f["bits"] >= 0:
            kinds.add("bitfield0" if f["bits"] == 0 else ("bitfield" if f["name"] else "bitfield-unnamed"))
            if f["bits"] == 8 * bf_size(t["c"]):
                kinds.add("bitfield-fullwidth")
            if prev_bf:
                kinds.add("bitfield-run")
            prev_bf = True
        else:
            prev_bf = False
            if t["k"] == "agg":
                kinds.add("anonymous-agg" if not f["name"] else "nested-agg")
            elif t["k"] == "arr":
                kinds.add("flex-array" if t["n"] < 0 else "array")
    if n["u"]:
        kinds.add("union")
    if n["pack"]:
        kinds.add("packed")
    for k in kinds:
        ctx.hist("branch", k)
    if kinds & {"bitfield", "bitfield0", "bitfield-unnamed", "anonymous-agg", "nested-agg", "packed", "flex-array"} \
            and len(n["fields"]) >= 2:
        ctx.nontrivial(("view", strip(n)))


# ------------------------------------------------------------------------------------------ fingerprint

FINGERPRINT = "86ba9cb11f615769"   # sha1 of complete_sflags..b_complete_struct_or_union_lock_held, whitespace-normalised


def function_text():
    src = open(os.path.join(vlib.REPO, "src/c/_cffi_backend.c")).read()
    a = src.index("static int complete_sflags(")
    b = src.index("static PyObject *b_complete_struct_or_union(PyObject *self")
    return src[a:b]


def fingerprint_changed(ctx):
    try:
        h = hashlib.sha1(re.sub(r"\s+", " ", function_text()).encode()).hexdigest()[:16]
    except ValueError:
        h = "not-found"
    ctx.extra["source_fingerprint"] = dict(now=h, recorded=FINGERPRINT)
    return h != FINGERPRINT


GEN = "C01/Gen.v"
GEN_TEXT = """(* C01 — REGENERATED on every run by tools/props/c01.py regen() from /repo/src/cffi/cparser.py
   (Parser._get_struct_union_enum_type, via ast; fail closed -> this committed snapshot).
   Fact extracted: where `tp.packed = self._options.get('packed')` stands relative to the parse
   of the `{...}` body (`for decl in type.decls`):
     true  = a top-level statement of the function AFTER that loop: the packed=/pack= options of
             the cdef() call that DEFINES the struct/union apply;
     false = anywhere else (e.g. where the model type object is first created): the options of
             the cdef() that first MENTIONS the tag would apply. *)
Definition packed_from_defining_cdef : bool := %s.

(* Second fact, from /repo/src/cffi/api.py FFI._cdef: the loop that re-completes structs which went
   from opaque to defined is `for tp in finishlist: tp.finish_backend_type(self, finishlist)`, i.e. it
   iterates the very list that finish_backend_type GROWS (it appends every struct/union whose backend
   type it had to create lazily, those reached only through pointer fields), so these get completed
   too.  false = it iterates a copy/other expression: pointer targets first declared in the defining
   cdef() would stay unrealized ("ctype 'struct T' is of unknown size"). *)
Definition completion_loop_iterates_growing_list : bool := %s.
"""


def packed_fact():
    """-> True/False, or raises ValueError when the function no longer has the recorded shape"""
    import ast
    tree = ast.parse(open(os.path.join(vlib.REPO, "src/cffi/cparser.py")).read())
    fns = [f for c in ast.walk(tree) if isinstance(c, ast.ClassDef) and c.name == "Parser"
           for f in c.body if isinstance(f, ast.FunctionDef) and f.name == "_get_struct_union_enum_type"]
    if len(fns) != 1:
        raise ValueError("Parser._get_struct_union_enum_type not found")
    fn = fns[0]

    def is_packed_assign(st):
        return (isinstance(st, ast.Assign) and len(st.targets) == 1 and isinstance(st.targets[0], ast.Attribute)
                and st.targets[0].attr == "packed" and isinstance(st.targets[0].value, ast.Name)
                and st.targets[0].value.id == "tp")
    everywhere = [st for st in ast.walk(fn) if is_packed_assign(st)]
    if len(everywhere) != 1:
        raise ValueError("%d assignments to tp.packed" % len(everywhere))
    if ast.unparse(everywhere[0].value) != "self._options.get('packed')":
        raise ValueError("tp.packed assigned from " + ast.unparse(everywhere[0].value))
    loops = [i for i, st in enumerate(fn.body) if isinstance(st, ast.For) and ast.unparse(st.iter) == "type.decls"]
    if len(loops) != 1:
        raise ValueError("body-parsing loop not found")
    top = [i for i, st in enumerate(fn.body) if is_packed_assign(st)]
    return bool(top) and top[0] > loops[0]


def completion_loop_fact():
    """-> True/False, or raises ValueError when FFI._cdef no longer has the recorded shape"""
    import ast
    tree = ast.parse(open(os.path.join(vlib.REPO, "src/cffi/api.py")).read())
    fns = [f for c in ast.walk(tree) if isinstance(c, ast.ClassDef) and c.name == "FFI"
           for f in c.body if isinstance(f, ast.FunctionDef) and f.name == "_cdef"]
    if len(fns) != 1:
        raise ValueError("FFI._cdef not found")
    loops = []
    for st in ast.walk(fns[0]):
        if isinstance(st, ast.For):
            calls = [c for c in ast.walk(st) if isinstance(c, ast.Call) and isinstance(c.func, ast.Attribute)
                     and c.func.attr == "finish_backend_type"]
            if calls:
                loops.append((st, calls))
    if len(loops) != 1:
        raise ValueError("%d completion loops in FFI._cdef" % len(loops))
    st, calls = loops[0]
    if len(calls) != 1 or len(calls[0].args) != 2 or not isinstance(calls[0].args[1], ast.Name):
        raise ValueError("unexpected finish_backend_type call")
    grown = calls[0].args[1].id
    return isinstance(st.iter, ast.Name) and st.iter.id == grown


def regen(ctx):
    path = os.path.join(vlib.COQ, GEN)
    old = open(path).read() if os.path.exists(path) else None
    try:
        text = GEN_TEXT % ("true" if packed_fact() else "false", "true" if completion_loop_fact() else "false")
    except Exception as e:     # fail closed: keep the committed snapshot, the correspondence carries the run
        ctx.translator(GEN, "fallback: %s" % e)
        return
    if text != old:
        with vlib.CoqLock():
            with open(path, "w") as f:
                f.write(text)
        ctx.translator(GEN, "regenerated")
    else:
        ctx.translator(GEN, "unchanged")


def run(ctx):
    ctx.cov["rule"] = ("every struct/union node of every generated declaration tree is one evaluation (a 'view': "
                       "its own tagged top-level declaration given to gcc and to cdef). Streams: model-directed "
                       "(bit-field boundaries occupied+w in {8s-1,8s,8s+1} for every integer type, zero-width after a "
                       "partial unit, unnamed max-alignment bit-field as only member, pack < alignment), zero-size "
                       "aggregates, random trees (depth <= 4, <= 12(+1) fields, all primitive kinds, pointers, arrays, "
                       "trailing [], named/in-place/anonymous nested struct/union, bit-fields of every integer type and "
                       "_Bool with widths 0..8*size, packed=True / pack=1,2,4,8 without bit-fields). Non-trivial = a "
                       "view with >= 2 fields that has a bit-field, a nested or anonymous aggregate, packing or a "
                       "flexible array; distinct by declaration; cffi, gcc, model and spec all produced a result. Declarations are spread "
                       "over several cdef() calls: tags first mentioned (forward declaration / typedef / pointer field) under "
                       "other packed=/pack= options than their definition; and the 'opaque' stream: a tag declared opaque, used "
                       "(typeof pointer / prototype / pointer field), then defined in a later cdef() with pointer fields to "
                       "aggregates first declared there (chains), every aggregate queried.")
    ctx.assumptions += [
        "hand-written model C01/Model.v of b_complete_struct_or_union_lock_held (GCC x86 branches); tied to the C code "
        "by this run's differential test on every view (sizeof, alignof, every field's offset/bitshift/bitsize/flags)",
        "specification C01/Spec.v of gcc's layout; tied to gcc %s by this run's probe programs" %
        subprocess.run(["gcc", "-dumpversion"], capture_output=True, text=True).stdout.strip(),
        "primitive (size, alignment) pairs are inputs: read from ffi.sizeof/alignof and from gcc and compared",
        "x86-64 System V, little endian; ARM and MSVC bit-field conventions are transcribed but not proved",
        "C integer overflow in the layout arithmetic is not modelled (Z arithmetic)"]
    evaluate(ctx, generate(ctx))


MANIFEST = dict(
    technique="Coq proof (two loop invariants over a transcription of cffi's layout code: pos = 8*byteoffset + bitoffset "
              "against an independent psABI bit-cursor specification, and 'every emitted field lies inside the object / "
              "fields are consecutive'; unbounded field lists and nesting) + two regenerated Python-side facts + "
              "four-way differential correspondence cffi / model / spec / gcc",
    text="Proof: for every declaration tree of the property's class (any field count, order, nesting; bit-fields of "
         "any integer type and width; unions; anonymous members; flexible arrays; packed/pack=N without bit-fields) "
         "in which no struct/union has compiler size 0, the model of b_complete_struct_or_union computes the size, "
         "alignment, every non-bit-field offset and every bit-field's absolute bit range that the gcc specification "
         "gives (C01_agrees; C01_agrees_any_type for arrays and `T x[]`), and rejects nothing (C01_total, zero-size "
         "aggregates included). C01_field_step_invariant / C01_field_step_within are the one-iteration invariants. "
         "C01_fields_within_object: for every tree of the class whose bit-field types have size <= alignment, every "
         "emitted field (anonymous members' fields included) has offset >= 0, its storage (the whole unit for a "
         "bit-field) ends inside ffi.sizeof, and a bit-field has width >= 1, shift >= 0 and all bits inside its unit "
         "(the `placement` / `off + size <= length` premises of C02, C03, C20); C01_fields_within_needs_size_le_align "
         "shows that hypothesis is needed (model-level, not an x86-64 type). C01_fields_disjoint: in a struct without "
         "(anonymous) unions the fields occupy consecutive, pairwise disjoint absolute bit ranges inside the object. "
         "Zero-size aggregates are refuted by witness (C01_zero_size_refuted, C01_zero_size_refuted_offsets; known "
         "finding zero_size_aggregate). Regenerated on every run (coq/C01/Gen.v, Python ast matchers, fail-closed): "
         "cparser assigns tp.packed from the DEFINING cdef's options (C01_defining_cdef_options) and FFI._cdef's "
         "re-completion loop iterates the growing list (C01_completion_loop_reaches_lazy_types) — these two are "
         "source-shape alarms proved by reflexivity, not behavioural theorems. The C layout function itself is "
         "hand-modelled: model and spec are tied to the C code and to gcc by running all four on the same "
         "declarations on every run (a sha1 fingerprint of the C function only switches to the thorough tier).",
    note="Trusted: Coq kernel; hand model C01/Model.v and spec C01/Spec.v (the C function is tied by differential "
         "testing, not by translation; only the two Python-side facts in C01/Gen.v are regenerated); gcc as the "
         "platform compiler; x86-64 SysV only (MSVC/ARM/big-endian branches: correspondence stream 'alt' only); "
         "all arithmetic in Z (no bound on sizes: overflow of Py_ssize_t/int in the C code is not modelled); _Bool "
         "widths 2..8 are in the quantified superset. Value conversion of 64-bit-wide bit-fields is "
         "C02's subject: C01 compares placement (typeof(T).fields) and, for widths < 64, the bytes of an all-ones store.",
    design_ref="DESIGN.md §4 C01")
