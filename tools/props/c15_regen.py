"""C15 / C18: regenerate coq/C15/Gen.v from src/c/wchar_helper_3.h (the wide-character conversion helpers
_my_PyUnicode_FromChar16/32, _my_PyUnicode_AsSingleChar16/32, _my_PyUnicode_SizeAsChar16/32,
_my_PyUnicode_AsChar16/32).

Fail closed.  Each function body is tokenised and must match a recorded token template exactly; the only
free parts are the C *expressions* marked @name@ in the templates (the range tests, the surrogate
arithmetic, the thresholds).  Those are parsed by a small C-expression parser and translated to Gallina,
so an edit of a constant or of a comparison changes Gen.v (and the theorems are re-proved against it),
while an edit of the control structure, of a called function or of anything else makes the extraction
fail: the committed snapshot stays in place and the check records a broken obligation.

C semantics kept by the translation: values assigned to a cffi_char32_t variable are wrapped with u32,
values stored through a cffi_char16_t* with u16; inside one expression only +, -, <<, |, & are applied to
compound operands (these commute with the final wrap), while the operands of comparisons and of >> must be
atoms (a variable, an array read, a literal), otherwise the extraction fails.
"""
import re


class RegenError(Exception):
    pass


# ------------------------------------------------------------------------------------------ tokens
_TOK = re.compile(r"""\s*(?:
    (?P<id>[A-Za-z_]\w*) | (?P<num>0[xX][0-9a-fA-F]+|\d+) | (?P<str>"(?:[^"\\]|\\.)*") |
    (?P<op><<=|>>=|<<|>>|<=|>=|==|!=|&&|\|\||\+\+|--|->|\+=|-=|[-+*/%&|^~!<>=?:;,.(){}\[\]])
)""", re.X)


def strip_comments(s):
    return re.sub(r"/\*.*?\*/", " ", s, flags=re.S)


def tokens(text):
    text = strip_comments(text)
    out, pos = [], 0
    while True:
        m = _TOK.match(text, pos)
        if not m or m.end() == pos:
            if text[pos:].strip() == "":
                return out
            raise RegenError("cannot tokenise %r" % text[pos:pos + 40])
        out.append(m.group(m.lastgroup))
        pos = m.end()


def tokstr(text):
    return " ".join(tokens(text))


# ------------------------------------------------------------------------------------------ C expressions
class Expr:
    """precedence-climbing parser for the C expressions found in the helpers -> (gallina, type)"""
    LEVELS = [["||"], ["&&"], ["|"], ["&"], ["==", "!="], ["<", "<=", ">", ">="], ["<<", ">>"], ["+", "-"]]

    def __init__(self, toks, variables, what):
        self.t, self.i, self.vars, self.what = toks, 0, variables, what

    def fail(self, msg):
        raise RegenError("%s: %s in expression %r" % (self.what, msg, " ".join(self.t)))

    def peek(self):
        return self.t[self.i] if self.i < len(self.t) else None

    def parse(self):
        r = self.level(0)
        if self.peek() is not None:
            self.fail("unexpected token %r" % self.peek())
        return r

    def level(self, n):
        if n == len(self.LEVELS):
            return self.primary()
        left = self.level(n + 1)
        while self.peek() in self.LEVELS[n]:
            op = self.t[self.i]
            self.i += 1
            right = self.level(n + 1)
            left = self.combine(op, left, right)
        return left

    def primary(self):
        tok = self.peek()
        if tok is None:
            self.fail("unexpected end")
        self.i += 1
        if tok == "(":
            r = self.level(0)
            if self.peek() != ")":
                self.fail("missing )")
            self.i += 1
            return (r[0], r[1], False)          # parenthesised: no longer an atom
        if re.fullmatch(r"0[xX][0-9a-fA-F]+|\d+", tok):
            if re.fullmatch(r"0\d+", tok):
                self.fail("octal literal %s" % tok)
            return (tok.replace("0X", "0x"), "Z", True)
        if tok in self.vars:
            return (tok, "Z", True)
        self.fail("unknown identifier or token %r" % tok)

    def combine(self, op, a, b):
        (ga, ta, aa), (gb, tb, ab) = a, b
        if op in ("&&", "||"):
            if ta != "bool" or tb != "bool":
                self.fail("operand of %s is not a comparison" % op)
            return ("(%s %s %s)" % (ga, op, gb), "bool", False)
        if ta != "Z" or tb != "Z":
            self.fail("operand of %s is not an integer" % op)
        if op in ("<", "<=", ">", ">=", "==", "!="):
            if not (aa and ab):
                self.fail("operand of %s is not an atom" % op)
            g = {"<": "(%s <? %s)" % (ga, gb), "<=": "(%s <=? %s)" % (ga, gb), ">": "(%s <? %s)" % (gb, ga),
                 ">=": "(%s <=? %s)" % (gb, ga), "==": "(%s =? %s)" % (ga, gb),
                 "!=": "negb (%s =? %s)" % (ga, gb)}[op]
            return (g, "bool", False)
        if op == ">>":
            if not (aa and ab):
                self.fail("operand of >> is not an atom")
            return ("Z.shiftr %s %s" % (ga, gb), "Z", False)
        if op == "<<":
            if not ab or not re.fullmatch(r"\d+", gb):
                self.fail("shift count of << is not a decimal literal")
            return ("Z.shiftl %s %s" % (par(ga), gb), "Z", False)
        if op == "|":
            return ("Z.lor %s %s" % (par(ga), par(gb)), "Z", False)
        if op == "&":
            return ("Z.land %s %s" % (par(ga), par(gb)), "Z", False)
        return ("%s %s %s" % (par(ga), op, par(gb)), "Z", False)


def par(g):
    return g if re.fullmatch(r"\w+", g) else "(" + g + ")"


def cexpr(text, variables, what, want, subst=()):
    """translate the token string `text` (after the token-level substitutions `subst`) to Gallina of type `want`"""
    for a, b in subst:
        text = (" " + text + " ").replace(" " + tokstr(a) + " ", " " + b + " ").strip()
    g, t, _ = Expr(text.split(), variables, what).parse()
    if t != want:
        raise RegenError("%s: expression %r is %s, expected %s" % (what, text, t, want))
    return g


# ------------------------------------------------------------------------------------------ templates
def template(text):
    """token template -> compiled regex; @name@ = a C expression without ; { }"""
    parts = re.split(r"@(\w+)@", text)
    rx = ""
    for i, p in enumerate(parts):
        if i % 2 == 0:
            rx += re.escape(tokstr(p)) if p.strip() else ""
        else:
            rx += r" (?P<%s>[^;{}]+?) " % p
    return re.compile("^" + rx.replace(r"\ ", " ").replace("  ", " ").strip() + "$")


FUNCS = {
    "_my_PyUnicode_FromChar32": (
        r"static PyObject \*\n_my_PyUnicode_FromChar32\(const cffi_char32_t \*w, Py_ssize_t size\)\n",
        "return PyUnicode_FromKindAndData(PyUnicode_4BYTE_KIND, w, size);"),
    "_my_PyUnicode_FromChar16": (
        r"static PyObject \*\n_my_PyUnicode_FromChar16\(const cffi_char16_t \*w, Py_ssize_t size\)\n",
        """Py_ssize_t i, count_surrogates = 0;
           for (i = 0; i < size - 1; i++) { if (@pair@) count_surrogates++; }
           if (count_surrogates == 0) { return PyUnicode_FromKindAndData(PyUnicode_2BYTE_KIND, w, size); }
           else {
               PyObject *result = PyUnicode_New(size - count_surrogates, @maxchar@);
               Py_UCS4 *data;
               assert(PyUnicode_KIND(result) == PyUnicode_4BYTE_KIND);
               data = PyUnicode_4BYTE_DATA(result);
               for (i = 0; i < size; i++) {
                   cffi_char32_t ch = w[i];
                   if (@hi@ && i < size - 1) {
                       cffi_char32_t ch2 = w[i + 1];
                       if (@lo@) { ch = @join@; i++; }
                   }
                   *data++ = ch;
               }
               return result;
           }"""),
    "_my_PyUnicode_AsSingleChar16": (
        r"static int\n_my_PyUnicode_AsSingleChar16\(PyObject \*unicode, cffi_char16_t \*result,\n\s*char \*err_got\)\n",
        """cffi_char32_t ch;
           if (PyUnicode_GET_LENGTH(unicode) != 1) {
               sprintf(err_got, "unicode string of length %zd", PyUnicode_GET_LENGTH(unicode));
               return -1;
           }
           ch = PyUnicode_READ_CHAR(unicode, 0);
           if (@toobig@) { sprintf(err_got, "larger-than-0xFFFF character"); return -1; }
           *result = (cffi_char16_t)ch;
           return 0;"""),
    "_my_PyUnicode_AsSingleChar32": (
        r"static int\n_my_PyUnicode_AsSingleChar32\(PyObject \*unicode, cffi_char32_t \*result,\n\s*char \*err_got\)\n",
        """if (PyUnicode_GET_LENGTH(unicode) != 1) {
               sprintf(err_got, "unicode string of length %zd", PyUnicode_GET_LENGTH(unicode));
               return -1;
           }
           *result = PyUnicode_READ_CHAR(unicode, 0);
           return 0;"""),
    "_my_PyUnicode_SizeAsChar16": (
        r"static Py_ssize_t _my_PyUnicode_SizeAsChar16\(PyObject \*unicode\)\n",
        """Py_ssize_t length = PyUnicode_GET_LENGTH(unicode);
           Py_ssize_t result = length;
           unsigned int kind = PyUnicode_KIND(unicode);
           if (kind == PyUnicode_4BYTE_KIND) {
               Py_UCS4 *data = PyUnicode_4BYTE_DATA(unicode);
               Py_ssize_t i;
               for (i = 0; i < length; i++) { if (@astral@) result++; }
           }
           return result;"""),
    "_my_PyUnicode_SizeAsChar32": (
        r"static Py_ssize_t _my_PyUnicode_SizeAsChar32\(PyObject \*unicode\)\n",
        "return PyUnicode_GET_LENGTH(unicode);"),
    "_my_PyUnicode_AsChar16": (
        r"static int _my_PyUnicode_AsChar16\(PyObject \*unicode,\n\s*cffi_char16_t \*result,\n\s*Py_ssize_t resultlen\)\n",
        """Py_ssize_t len = PyUnicode_GET_LENGTH(unicode);
           unsigned int kind = PyUnicode_KIND(unicode);
           void *data = PyUnicode_DATA(unicode);
           cffi_char16_t *result_end = result + resultlen;
           Py_ssize_t i;
           for (i = 0; i < len; i++) {
               cffi_char32_t ordinal = PyUnicode_READ(kind, data, i);
               if (@astral@) {
                   if (@range@) {
                       PyErr_Format(@exn@, "unicode character out of range for "
                                    "conversion to char16_t: 0x%x", (int)ordinal);
                       return -1;
                   }
                   ordinal -= @sub@;
                   *result++ = @hi@;
                   *result++ = @lo@;
               }
               else *result++ = @bmp@;
           }
           if (result < result_end) *result = 0;
           return 0;"""),
    "_my_PyUnicode_AsChar32": (
        r"static int _my_PyUnicode_AsChar32\(PyObject \*unicode,\n\s*cffi_char32_t \*result,\n\s*Py_ssize_t resultlen\)\n",
        """int copy_null = @copynull@;
           if (PyUnicode_AsUCS4(unicode, (Py_UCS4 *)result, resultlen, copy_null) == NULL) return -1;
           return 0;"""),
}
TYPEDEFS = ["typedef uint16_t cffi_char16_t;", "typedef uint32_t cffi_char32_t;"]
EXNS = {"ValueError", "TypeError", "SystemError", "IndexError", "RuntimeError"}


def bodies(src):
    """{function name: token string of its body}; every function of the file must be a known one"""
    out = {}
    for name, (sig, _) in FUNCS.items():
        m = re.search(sig + r"\{\n(.*?)\n\}\n", src, re.S)
        if not m:
            raise RegenError("%s: definition not found (signature changed?)" % name)
        out[name] = tokstr(m.group(1))
    rest = src
    for name, (sig, _) in FUNCS.items():
        rest = re.sub(sig + r"\{\n(.*?)\n\}\n", "", rest, count=1, flags=re.S)
    rest = strip_comments(rest)
    for td in TYPEDEFS:
        if td not in rest:
            raise RegenError("typedef %r not found" % td)
        rest = rest.replace(td, "", 1)
    if rest.strip():
        raise RegenError("wchar_helper_3.h contains text outside the known functions: %r" % rest.strip()[:80])
    return out


def extract(src):
    b = bodies(src)
    g = {}
    for name, (_, tpl) in FUNCS.items():
        m = template(tpl).match(b[name])
        if not m:
            raise RegenError("%s: body does not have the recorded shape" % name)
        g[name] = m.groupdict()
    f16 = g["_my_PyUnicode_FromChar16"]
    rd = [("w[i + 1]", "w_i1"), ("w[i+1]", "w_i1"), ("w[i]", "w_i")]
    out = dict(
        fc16_pair=cexpr(f16["pair"], {"w_i", "w_i1"}, "FromChar16 count test", "bool", rd),
        fc16_maxchar=cexpr(f16["maxchar"], set(), "FromChar16 maxchar", "Z"),
        fc16_hi=cexpr(f16["hi"], {"ch"}, "FromChar16 high test", "bool"),
        fc16_lo=cexpr(f16["lo"], {"ch2"}, "FromChar16 low test", "bool"),
        fc16_join=cexpr(f16["join"], {"ch", "ch2"}, "FromChar16 join", "Z"),
        asc16_toobig=cexpr(g["_my_PyUnicode_AsSingleChar16"]["toobig"], {"ch"}, "AsSingleChar16 test", "bool"),
        sz16_astral=cexpr(g["_my_PyUnicode_SizeAsChar16"]["astral"], {"c"}, "SizeAsChar16 test", "bool",
                          [("data[i]", "c")]),
    )
    a16 = g["_my_PyUnicode_AsChar16"]
    mexn = re.fullmatch(r"PyExc_(\w+)", a16["exn"])
    if not mexn or mexn.group(1) not in EXNS:
        raise RegenError("AsChar16: unknown exception class %r" % a16["exn"])
    out.update(
        ac16_astral=cexpr(a16["astral"], {"ordinal"}, "AsChar16 astral test", "bool"),
        ac16_range=cexpr(a16["range"], {"ordinal"}, "AsChar16 range test", "bool"),
        ac16_exn=mexn.group(1),
        ac16_sub=cexpr(a16["sub"], set(), "AsChar16 subtrahend", "Z"),
        ac16_hi=cexpr(a16["hi"], {"ordinal"}, "AsChar16 high unit", "Z"),
        ac16_lo=cexpr(a16["lo"], {"ordinal"}, "AsChar16 low unit", "Z"),
        ac16_bmp=cexpr(a16["bmp"], {"ordinal"}, "AsChar16 BMP unit", "Z"),
        ac32_copynull=cexpr(g["_my_PyUnicode_AsChar32"]["copynull"], {"resultlen", "len"}, "AsChar32 copy_null",
                            "bool", [("PyUnicode_GET_LENGTH(unicode)", "len")]),
    )
    return out


GEN = """(* GENERATED by tools/props/c15_regen.py from src/c/wchar_helper_3.h - do not edit.
   The wide-character conversion helpers.  The control structure is the recorded one (the extraction fails
   on any other); the tests and the arithmetic below are translated from the C expressions of the source.
   u32 / u16: the wrap of an assignment to a cffi_char32_t variable / of a store through cffi_char16_t*.
   CPython's functions (PyUnicode_FromKindAndData, PyUnicode_New, PyUnicode_KIND, PyUnicode_AsUCS4) are
   specified in C15/Spec.v. *)
From Coq Require Import ZArith List Bool.
Import ListNotations.
From Cffi Require Import C15.Spec.
Open Scope Z_scope.

(* ---------------------------------------------------------------- _my_PyUnicode_FromChar32 *)
(* return PyUnicode_FromKindAndData(PyUnicode_4BYTE_KIND, w, size); *)
Definition from_char32 (w : list Z) : res (list Z) :=
  PyUnicode_FromKindAndData PyUnicode_4BYTE_KIND w.

(* ---------------------------------------------------------------- _my_PyUnicode_FromChar16 *)
(* for (i = 0; i < size - 1; i++) if (<test on w[i], w[i+1]>) count_surrogates++; *)
Definition fc16_pair_test (w_i w_i1 : Z) : bool := %(fc16_pair)s.

Fixpoint count_surrogates (w : list Z) : Z :=
  match w with
  | w_i :: r => match r with
                | w_i1 :: _ => (if fc16_pair_test w_i w_i1 then 1 else 0) + count_surrogates r
                | [] => 0
                end
  | [] => 0
  end.

(* for (i = 0; i < size; i++) { ch = w[i]; if (<hi ch> && i < size - 1) { ch2 = w[i+1];
     if (<lo ch2>) { ch = <join>; i++; } } *data++ = ch; } *)
Definition fc16_hi_test (ch : Z) : bool := %(fc16_hi)s.
Definition fc16_lo_test (ch2 : Z) : bool := %(fc16_lo)s.
Definition fc16_join (ch ch2 : Z) : Z := u32 (%(fc16_join)s).
Definition fc16_maxchar : Z := %(fc16_maxchar)s.

Fixpoint join16_loop (w : list Z) : list Z :=
  match w with
  | [] => []
  | ch :: r => match r with
               | ch2 :: r' => if fc16_hi_test ch && fc16_lo_test ch2 then fc16_join ch ch2 :: join16_loop r'
                              else ch :: join16_loop r
               | [] => [ch]
               end
  end.

(* if (count_surrogates == 0) return PyUnicode_FromKindAndData(PyUnicode_2BYTE_KIND, w, size);
   else { result = PyUnicode_New(size - count_surrogates, <maxchar>); ... the loop fills it ... } *)
Definition from_char16 (w : list Z) : res (list Z) :=
  if count_surrogates w =? 0 then PyUnicode_FromKindAndData PyUnicode_2BYTE_KIND w
  else PyUnicode_New_filled (zlen w - count_surrogates w) fc16_maxchar (join16_loop w).

(* ---------------------------------------------------------------- _my_PyUnicode_AsSingleChar16 / 32 *)
(* None: the function returns -1 (the caller raises TypeError) *)
Definition asc16_toobig_test (ch : Z) : bool := %(asc16_toobig)s.
Definition as_single_char16 (s : list Z) : option Z :=
  match s with
  | [ch] => if asc16_toobig_test ch then None else Some (u16 ch)
  | _ => None
  end.
Definition as_single_char32 (s : list Z) : option Z :=
  match s with
  | [ch] => Some (u32 ch)
  | _ => None
  end.

(* ---------------------------------------------------------------- _my_PyUnicode_SizeAsChar16 / 32 *)
Definition sz16_astral_test (c : Z) : bool := %(sz16_astral)s.
Fixpoint sz16_count (s : list Z) : Z :=
  match s with
  | [] => 0
  | c :: r => (if sz16_astral_test c then 1 else 0) + sz16_count r
  end.
(* result = length; if (kind == PyUnicode_4BYTE_KIND) for each data[i]: if (<test>) result++; *)
Definition size16 (s : list Z) : Z :=
  if PyUnicode_KIND s =? PyUnicode_4BYTE_KIND then zlen s + sz16_count s else zlen s.
Definition size32 (s : list Z) : Z := zlen s.

(* ---------------------------------------------------------------- _my_PyUnicode_AsChar16 *)
Definition ac16_astral_test (ordinal : Z) : bool := %(ac16_astral)s.
Definition ac16_range_test (ordinal : Z) : bool := %(ac16_range)s.
Definition ac16_exn : exn := %(ac16_exn)s.
Definition ac16_sub (ordinal : Z) : Z := u32 (ordinal - %(ac16_sub)s).       (* ordinal -= ... *)
Definition ac16_hi (ordinal : Z) : Z := u16 (%(ac16_hi)s).
Definition ac16_lo (ordinal : Z) : Z := u16 (%(ac16_lo)s).
Definition ac16_bmp (ordinal : Z) : Z := u16 (%(ac16_bmp)s).

(* the loop: the units written, or the exception *)
Fixpoint as_char16_loop (s : list Z) : res (list Z) :=
  match s with
  | [] => Ok []
  | ordinal :: r =>
      if ac16_astral_test ordinal then
        if ac16_range_test ordinal then Err ac16_exn
        else match as_char16_loop r with
             | Err e => Err e
             | Ok us => let o := ac16_sub ordinal in Ok (ac16_hi o :: ac16_lo o :: us)
             end
      else match as_char16_loop r with
           | Err e => Err e
           | Ok us => Ok (ac16_bmp ordinal :: us)
           end
  end.

(* ... if (result < result_end) *result = 0;   with result_end = result + resultlen *)
Definition as_char16 (s : list Z) (resultlen : Z) : res (list Z) :=
  match as_char16_loop s with
  | Err e => Err e
  | Ok us => Ok (if zlen us <? resultlen then us ++ [0] else us)
  end.

(* ---------------------------------------------------------------- _my_PyUnicode_AsChar32 *)
(* int copy_null = <test>; PyUnicode_AsUCS4(unicode, result, resultlen, copy_null) *)
Definition as_char32 (s : list Z) (resultlen : Z) : res (list Z) :=
  let len := zlen s in
  let copy_null := %(ac32_copynull)s in
  PyUnicode_AsUCS4 s resultlen copy_null.
"""


def render(facts):
    return GEN % facts


def regen_file(vlib, ctx, owner):
    """Regenerate coq/C15/Gen.v from vlib.REPO; used by c15.regen and c18.regen (same text from both).
    On failure the snapshot stays and a broken obligation is recorded."""
    import os
    path = os.path.join(vlib.COQ, "C15", "Gen.v")
    try:
        src = open(os.path.join(vlib.REPO, "src", "c", "wchar_helper_3.h")).read()
        text = render(extract(src))
    except (RegenError, OSError) as e:
        ctx.translator("C15/Gen.v", "fallback: %s" % e)
        ctx.obligation_broken("%s: regeneration of C15/Gen.v from src/c/wchar_helper_3.h (the wide-character "
                              "helpers no longer have the recorded shape)" % owner, str(e))
        return False
    old = open(path).read() if os.path.exists(path) else None
    if old == text:
        ctx.translator("C15/Gen.v", "unchanged")
    else:
        with vlib.CoqLock():
            with open(path, "w") as f:
                f.write(text)
        ctx.translator("C15/Gen.v", "regenerated")
    return True
