"""C13 layout worker: what fb_build() really computed.

For every signature the function-pointer ctype is built with ffi.typeof() (new_function_type -> fb_build, twice), and
the cif_description_t hanging off ct_extra is READ BACK with ctypes — no hook, no patched build:
    CTypeDescrObject: PyObject_VAR_HEAD, ct_itemdescr, ct_stuff, ct_extra, ct_weakreflist, ct_unique_key, ct_size, ...
    cif_description_t: ffi_cif cif (x86-64: abi, nargs, arg_types, rtype, bytes, flags = 32 bytes),
                       Py_ssize_t exchange_size, Py_ssize_t exchange_offset_arg[1 + nargs]
    ffi_type: size_t size; unsigned short alignment; unsigned short type; ffi_type **elements
The reading is cross-checked (ct_size == sizeof(void(*)()), cif.nargs == number of arguments, rtype/arg_types non-NULL,
sizes equal to ffi.sizeof()); a failed cross-check is reported as `unreadable`, never as a layout.
"""
import ctypes
import warnings

import cffi
from lib.vlib import worker_main

warnings.simplefilter("ignore")

P = ctypes.sizeof(ctypes.c_void_p)


def rd(addr, ty):
    return ty.from_address(addr).value


def ffi_type(addr):
    return rd(addr, ctypes.c_size_t), rd(addr + P, ctypes.c_ushort)


def main(payload):
    ffi = cffi.FFI()
    ffi.cdef(payload["cdef"])
    head = object.__basicsize__ + ctypes.sizeof(ctypes.c_ssize_t)         # PyObject_VAR_HEAD
    out = []
    keep = []
    for sig in payload["sigs"]:
        text = "%s(*)(%s)" % (sig["res"], ", ".join(sig["args"]) or "void")
        try:
            t = ffi.typeof(text)
        except Exception as e:
            out.append(dict(error=type(e).__name__, msg=str(e)[:200]))
            continue
        keep.append(t)
        base = id(t)
        n = len(sig["args"])
        extra = rd(base + head + 2 * P, ctypes.c_void_p)
        ct_size = rd(base + head + 5 * P, ctypes.c_ssize_t)
        if not extra or ct_size != P or t.kind != "function":
            out.append(dict(unreadable="ct_extra=%r ct_size=%r kind=%r" % (extra, ct_size, t.kind)))
            continue
        nargs = rd(extra + 4, ctypes.c_uint)
        arg_types = rd(extra + 8, ctypes.c_void_p)
        rtype = rd(extra + 16, ctypes.c_void_p)
        if nargs != n or not rtype or (n and not arg_types):
            out.append(dict(unreadable="cif.nargs=%r for %d arguments, rtype=%r" % (nargs, n, rtype)))
            continue
        cif_size = 32
        rsize, ralign = ffi_type(rtype)
        args = [ffi_type(rd(arg_types + P * i, ctypes.c_void_p)) for i in range(n)]
        # cross-check the ffi_type reading against the ctype's own size
        want = [1 if sig["res"] == "void" else ffi.sizeof(t.result)] + [ffi.sizeof(a) for a in t.args]
        got = [rsize] + [a[0] for a in args]
        if want != got:
            out.append(dict(unreadable="ffi_type sizes %r, ffi.sizeof %r" % (got, want)))
            continue
        xsize = rd(extra + cif_size, ctypes.c_ssize_t)
        offs = [rd(extra + cif_size + 8 * (1 + i), ctypes.c_ssize_t) for i in range(n + 1)]
        out.append(dict(rsize=rsize, ralign=ralign, args=[list(a) for a in args], exchange_size=xsize,
                        res_off=offs[0], arg_offs=offs[1:]))
    return dict(layouts=out)


worker_main(main)
