"""C24 — cffi-gen-src output is byte-identical to FFI.emit_c_code.   Label: partial.

Proof side (coq/C24): UTF-8 encode/decode round trip on all scalar-value strings; the tool's pipelines and the
direct one are the same composition around cffi's own text-to-text work (Section variables).
Correspondence (what ties the real programs to that): random cdefs / preludes (non-ASCII included) x module names x
{read-sources, exec-python binding an FFI / a callable / under --ffi-var} x {entry-point function cffi._cffi_gen_src.run
in-process, `python -m cffi.gen_src` and a `cffi-gen-src` launcher as subprocesses} x {file, '-'}: bytes compared with
what FFI.emit_c_code writes for the same declarations, and exit statuses compared between the invocations (including
the error cases).  The codec and the text-mode read model are run against CPython.
"""
import json
import os
import subprocess

from lib import vlib
from lib.vlib import cbool, cbytes, clist, cn, copt, cpair, cstr, cz
from props import c35
from props import c23

ID = "C24"

NAMES = ["_m", "pkg._ext", "a.b.c", "_c24_é".encode("ascii", "ignore").decode() or "_c24", "mod_1"]
PRELUDES = ["", "#include <math.h>\n", "/* é € 😀 */\nstatic int one(void) { return 1; }\n",
            "// ünïcödé\n#include <stddef.h>\n", "static const char *s = \"\\xe9\";\n", "/* no newline at end */"]
CDEF_EXTRA = ["", "// é comment\n", "/* 中文 */\n", "int caf\u00e9_not_used; // removed below\n"]


def gen_case(rng, force=None):
    cdef = c23.gen_cdef(rng)
    extra = rng.choice(CDEF_EXTRA[:3])
    cdef = extra + cdef
    name = rng.choice(NAMES)
    csrc = rng.choice(PRELUDES)
    kind = force or rng.choice(["read-sources", "read-sources", "exec-ffi", "exec-callable", "exec-var",
                                "exec-main-guard", "exec-import", "err-novar", "err-notffi", "err-samefile",
                                "err-nosub", "crlf"])
    c = dict(kind=kind, cdef=cdef, csrc=csrc, name=name, files={}, argv=[])

    def script(body_var, tail=""):
        return ("# -*- coding: utf-8 -*-\n# é\nfrom cffi import FFI\n"
                "CDEF = %r\nCSRC = %r\n" % (cdef, csrc) + body_var + tail)
    build = "%s = FFI()\n%s.cdef(CDEF)\n%s.set_source(%r, CSRC)\n"
    if kind in ("read-sources", "crlf"):
        if kind == "crlf":       # the files hold CRLF line ends: Python reads them as '\n'
            c["files"] = {"x.cdef": cdef.replace("\n", "\r\n").encode("utf-8").hex(),
                          "x.c": csrc.replace("\n", "\r\n").encode("utf-8").hex()}
        else:
            c["files"] = {"x.cdef": cdef.encode("utf-8").hex(), "x.c": csrc.encode("utf-8").hex()}
        c["argv"] = ["read-sources", name, "@x.cdef", "@x.c"]
    elif kind == "exec-ffi":
        c["files"] = {"build.py": script(build % ("ffibuilder", "ffibuilder", "ffibuilder", name)).encode("utf-8").hex()}
        c["argv"] = ["exec-python", "@build.py"]
    elif kind == "exec-callable":
        body = "def ffibuilder():\n    f = FFI()\n    f.cdef(CDEF)\n    f.set_source(%r, CSRC)\n    return f\n" % name
        c["files"] = {"build.py": script(body).encode("utf-8").hex()}
        c["argv"] = ["exec-python", "@build.py"]
    elif kind == "exec-var":
        var = rng.choice(["ffi", "my_builder", "b2"])
        other = "ffibuilder = FFI()\nffibuilder.cdef('int decoy;')\nffibuilder.set_source('decoy', '')\n"
        c["files"] = {"build.py": script(build % (var, var, var, name), other).encode("utf-8").hex()}
        c["argv"] = ["exec-python", "--ffi-var", var, "@build.py"]
    elif kind == "exec-main-guard":
        tail = "if __name__ == '__main__':\n    raise SystemExit('compile() must not run')\nassert __name__ == 'cffi.gen_src'\n"
        c["files"] = {"build.py": script(build % ("ffibuilder", "ffibuilder", "ffibuilder", name), tail).encode("utf-8").hex()}
        c["argv"] = ["exec-python", "@build.py"]
    elif kind == "exec-import":
        helper = "NAME = %r\n" % name
        body = ("import os, helper_mod\nassert os.path.isabs(__file__)\n"
                "ffibuilder = FFI()\nffibuilder.cdef(CDEF)\nffibuilder.set_source(helper_mod.NAME, CSRC)\n")
        c["files"] = {"build.py": script(body).encode("utf-8").hex(), "helper_mod.py": helper.encode().hex()}
        c["argv"] = ["exec-python", "@build.py"]
    elif kind == "err-novar":
        c["files"] = {"build.py": script(build % ("other", "other", "other", name)).encode("utf-8").hex()}
        c["argv"] = ["exec-python", "@build.py"]
    elif kind == "err-notffi":
        c["files"] = {"build.py": script("ffibuilder = 42\n").encode("utf-8").hex()}
        c["argv"] = ["exec-python", "@build.py"]
    elif kind == "err-samefile":
        c["files"] = {"x.cdef": cdef.encode("utf-8").hex()}
        c["argv"] = ["read-sources", name, "@x.cdef", "@x.cdef"]
    elif kind == "err-nosub":
        c["argv"] = []
    return c


def generate(ctx, big=False):
    rng = ctx.rng
    cases = [dict(kind="prims", seed=rng.randrange(10 ** 9), n=120 if not big else 1000)]
    kinds = ["read-sources", "exec-ffi", "exec-callable", "exec-var", "exec-main-guard", "exec-import", "err-novar",
             "err-notffi", "err-samefile", "err-nosub", "crlf"]
    cases += [gen_case(rng, k) for k in kinds]
    cases += [gen_case(rng) for _ in range(25 if not big else 300)]
    # a subset also through real processes
    sub = [c for c in cases if c["kind"] != "prims"]
    for c in rng.sample(sub, 6 if not big else 40) + [c for c in sub[:11] if c["kind"] in ("read-sources", "err-nosub")]:
        c["subprocess"] = True
    return cases


import re
_GEN_LINE = re.compile(rb"\Agenerating <_io\.StringIO object at 0x[0-9a-fA-F]+>\n")


def split_generating(b):
    """-> (bytes without a leading 'generating <_io.StringIO object at 0x...>' line, whether it was there)"""
    if b is None:
        return None, False
    m = _GEN_LINE.match(b)
    return (b[m.end():], True) if m else (b, False)


def mask_addr(b):
    return None if b is None else re.sub(rb"object at 0x[0-9a-fA-F]+", b"object at 0x?", b)


def finding_key(where, got, ref):
    """known class: output '-' — stdout carries one extra first line 'generating <_io.StringIO object at 0x..>'
    (printed by recompiler._make_c_or_py_source) and is otherwise exactly the reference bytes"""
    rest, had = split_generating(got)
    if where == "stdout" and had and rest == ref:
        return "stdout_generating_line"
    return None


EXPECT_STATUS = {"err-novar": 1, "err-notffi": 1, "err-samefile": 2, "err-nosub": 2}

PRELUDE = """
From Cffi Require Import C35.PyStr C24.Utf8 C23.Model C24.Model.
"""


def prim_groups(ctx, c):
    import random
    rng = random.Random(c["seed"])
    n = c["n"]
    pool = [0, 10, 13, 65, 0x7f, 0x80, 0x7ff, 0x800, 0xd7ff, 0xd800, 0xdfff, 0xe000, 0xfffd, 0xffff, 0x10000, 0x10ffff]
    texts = ["".join(chr(rng.choice(pool + [rng.randrange(0x110000)])) for _ in range(rng.randrange(0, 7))) for _ in range(n)]
    blobs = [bytes(rng.choice([0, 0x0a, 0x0d, 0x41, 0x7f, 0x80, 0xbf, 0xc0, 0xc1, 0xc2, 0xdf, 0xe0, 0xed, 0xef, 0xf0, 0xf4,
                               0xf5, 0xff, 0x9f, 0xa0, 0x8f, 0x90, rng.randrange(256)]) for _ in range(rng.randrange(0, 7)))
             for _ in range(n)]
    blobs += [t.encode("utf-8", "surrogatepass") for t in texts[: n // 2]]
    blobs += [bytes(rng.choice(b"ab\r\n\r\n") for _ in range(rng.randrange(0, 9))) for _ in range(n // 2)]

    def enc(t):
        try:
            return "(Some %s)" % cbytes(t.encode("utf-8"))
        except UnicodeEncodeError:
            return "None"
    work = ctx.scratch().work
    path = os.path.join(work, "c24_read_probe.txt")

    def rd(b):
        with open(path, "wb") as f:
            f.write(b)
        try:
            with open(path, "r", encoding="utf-8") as f:
                return "(Some %s)" % cstr(f.read())
        except UnicodeDecodeError:
            return "None"
    ctx.count(len(texts) + len(blobs))
    own = [c]
    return [("utf8_encode", "utf8_encode", "opt_eqb (list_eqb N.eqb)", [(cstr(t), enc(t)) for t in texts],
             own * len(texts), "C24.Utf8.utf8_encode vs str.encode('utf-8')"),
            ("read_text", "read_text", "opt_eqb (list_eqb N.eqb)", [(cbytes(b), rd(b)) for b in blobs],
             own * len(blobs), "C24.Model.read_text (utf8_decode + universal_nl) vs open(p, 'r', encoding='utf-8').read()")]


def run_process(ctx, s, r, launcher, argv_tail):
    env = s.env({"PYTHONUTF8": "1"})
    p = subprocess.run(launcher + argv_tail, capture_output=True, env=env, cwd=r["dir"], timeout=300)
    return p


def evaluate(ctx, cases):
    groups = []
    for c in cases:
        if c["kind"] == "prims":
            groups += prim_groups(ctx, c)
    work = [c for c in cases if c["kind"] != "prims"]
    if work:
        s = ctx.scratch()
        out, p = s.run_worker("c24_worker.py", dict(cases=work), timeout=1800, extra_env={"PYTHONUTF8": "1"})
        if out is None:
            ctx.violation(work[0], "worker failed: " + (p.stderr[-1500:] or p.stdout[-500:]))
            return
        launcher_script = os.path.join(s.work, "cffi-gen-src")
        with open(launcher_script, "w") as f:      # what the console_scripts entry point expands to
            f.write("#!%s\nimport sys\nfrom cffi._cffi_gen_src import run\nif __name__ == '__main__':\n    sys.exit(run())\n" % vlib.PY)
        os.chmod(launcher_script, 0o755)
        for c, r in zip(work, out["results"]):
            ctx.count(2)
            ctx.hist("kind", c["kind"])
            desc = "cffi-gen-src %s (module %r, cdef %d chars, prelude %r)" % (
                " ".join(c["argv"][:1]) or "<no subcommand>", c["name"], len(c["cdef"]), c["csrc"][:40])
            want_status = EXPECT_STATUS.get(c["kind"], 0)
            ref = r["ref"]
            for where in ("file", "stdout"):
                g = r[where]
                st = 0 if g["status"] == "returned" else g["status"]
                if want_status == 0:
                    if "exc" in ref:
                        ctx.mismatch(c, "reference emit_c_code failed: %s" % ref["exc"], "harness: cdef generator")
                        break
                    if g["status"] == "returned":
                        ctx.violation(c, "%s: run() returned instead of exiting with status 0" % desc)
                    elif st != 0:
                        ctx.violation(c, "%s -> %s: exit status %r (%s), expected 0" % (desc, where, g["status"], g.get("exc")))
                    elif g["out"] != ref["bytes"]:
                        a, b = bytes.fromhex(g["out"] or ""), bytes.fromhex(ref["bytes"])
                        i = next((k for k in range(min(len(a), len(b))) if a[k] != b[k]), min(len(a), len(b)))
                        ctx.violation(c, "%s -> %s: %d bytes differ from the %d bytes FFI.emit_c_code writes; first "
                                      "difference at offset %d: %r vs %r" % (desc, where, len(a), len(b), i,
                                                                             a[max(0, i - 20):i + 20], b[max(0, i - 20):i + 20]),
                                      key=finding_key(where, a, b))
                    elif any(ord(ch) > 127 for ch in c["cdef"] + c["csrc"]):
                        ctx.nontrivial((c["kind"], c["cdef"], c["csrc"], c["name"], where))
                else:
                    if st != want_status:
                        ctx.violation(c, "%s -> %s: exit status %r, expected %d" % (desc, where, g["status"], want_status))
                    if where == "file" and g["out"] is not None:
                        ctx.violation(c, "%s: an output file was written although the command failed" % desc)
                    if where == "stdout" and g["out"]:
                        ctx.violation(c, "%s: output on stdout although the command failed" % desc)
            # real processes: `python -m cffi.gen_src` and the cffi-gen-src launcher
            if c.get("subprocess"):
                outp = os.path.join(r["dir"], "out_sub.c")
                for lname, launcher in (("python -m cffi.gen_src", [vlib.PY, "-m", "cffi.gen_src"]),
                                        ("cffi-gen-src", [launcher_script])):
                    for where in ("file", "stdout"):
                        if os.path.exists(outp):
                            os.unlink(outp)
                        pr = run_process(ctx, s, r, launcher, r["argv"] + ([outp] if where == "file" else ["-"]))
                        ctx.count()
                        got = (open(outp, "rb").read() if os.path.exists(outp) else None) if where == "file" else pr.stdout
                        fn = r[where]
                        fn_status = 0 if fn["status"] == "returned" else fn["status"]
                        if pr.returncode != fn_status:
                            ctx.violation(c, "%s: `%s` exits with status %d, the entry-point function with %r (stderr: %s)" % (
                                desc, lname, pr.returncode, fn["status"], pr.stderr[-300:].decode("utf-8", "replace")))
                        fn_out = None if fn["out"] is None else bytes.fromhex(fn["out"])
                        if (mask_addr(got) or None) != (mask_addr(fn_out) or None):
                            ctx.violation(c, "%s -> %s: `%s` writes %s bytes, the entry-point function %s" % (
                                desc, where, lname, None if got is None else len(got), None if fn_out is None else len(fn_out)))
                        if want_status == 0 and "bytes" in ref and got != bytes.fromhex(ref["bytes"]):
                            ctx.violation(c, "%s -> %s via `%s`: bytes differ from FFI.emit_c_code's (first bytes %r)" % (
                                desc, where, lname, (got or b"")[:60]), key=finding_key(where, got, bytes.fromhex(ref["bytes"])))
    groups = [g for g in groups if g[3]]
    if groups:
        res = c35.multi_mismatches([g[:4] for g in groups], PRELUDE)
        for name, fexpr, eqb, cs, own, corr in groups:
            bad, outs, err = res[name]
            if err:
                ctx.obligation_broken("C24 model evaluation (%s)" % name, err)
            for i in bad:
                ctx.mismatch(dict(own[i], input=cs[i][0][:500]), "model %s = %s; CPython: %s" % (
                    name, outs.get(i), cs[i][1][:300]), corr)
    for c in work[:3]:
        ctx.sample(dict(c, files={k: v[:80] for k, v in c["files"].items()}))
    ctx.violations.sort(key=lambda v: (v[2] is not None, len(json.dumps(v[0], default=str))))


def run(ctx):
    ctx.cov["rule"] = (
        "prims: the model's UTF-8 encoder and its text-mode read (decode + universal newlines) vs CPython on random / "
        "boundary strings and byte strings; cases: random cdefs (C23's generator) with non-ASCII comments x preludes "
        "(non-ASCII, no trailing newline, empty) x module names (dotted) x {read-sources, exec-python binding an FFI, a "
        "callable, another name under --ffi-var with a decoy `ffibuilder`, a __main__ guard, a sibling import and "
        "__file__, CRLF input files} and error cases {name not bound, not an FFI, cdef and csrc the same file, no "
        "subcommand}; each through cffi._cffi_gen_src.run in-process to a file and to '-', a subset also through "
        "`python -m cffi.gen_src` and a `cffi-gen-src` launcher as real processes: bytes vs FFI.emit_c_code(file) for "
        "FFI().cdef(text)+set_source(name, prelude), and exit statuses. Non-trivial = non-ASCII in cdef or prelude.")
    ctx.assumptions += [
        "PARTIAL: the proof covers the codec and the composition; that the real programs are these compositions is sampled",
        "UTF-8 locale / stdout encoding (PYTHONUTF8=1 in the harness), POSIX newline handling",
        "cdef text / prelude = the text Python reads from the input file (CRLF files reach cffi with '\\n')",
        "the `cffi-gen-src` console script is reproduced by a launcher that calls cffi._cffi_gen_src:run (pyproject.toml:45)"]
    evaluate(ctx, generate(ctx))
    if not [v for v in ctx.violations if v[2] is None] and (ctx.thorough or ctx.tier_search == "thorough" or ctx.mismatches):
        evaluate(ctx, generate(ctx, big=True))


MANIFEST = dict(
    technique="Coq proof of the UTF-8 codec round trip and of the equality of the two pipelines as compositions (cffi's "
              "text-to-text work abstract) + byte-level differential test of the real commands against FFI.emit_c_code",
    text="Proof: utf8_decode (utf8_encode s) = Some s for every string of Unicode scalar values (and only those encode); "
         "read-sources / exec-python followed by write to a file or '-' is the same function as building the FFI directly "
         "and emitting, given UTF-8 encodings. Sampling: bytes and exit statuses of the entry-point function, `python -m "
         "cffi.gen_src` and a cffi-gen-src launcher vs FFI.emit_c_code on random inputs.",
    note="PARTIAL (I/O equivalence of two programs: codec + composition proved, the rest sampled). Trusted: Coq kernel; "
         "hand model C24/Model.v; CPython as codec oracle.",
    design_ref="DESIGN.md §4 C24")
