"""C02 translator: anchored, fail-closed extraction of the integer expressions of
convert_to_object_bitfield / convert_from_object_bitfield (src/c/_cffi_backend.c) into coq/C02/Gen.v
as straight-line programs over the deep embedding of C03/CExpr.v.  The control skeleton (full-width
guard, signed/unsigned branch, range test, masked write) is matched against a recorded shape; the
holes (every right-hand side, the guard, the range test, the declared types) go to the C-expression
parser.  Any deviation raises TranslateError -> the committed snapshot is used and the
correspondence run carries the tie."""
import os
import re

from props import c03_cexpr
from props.c03_cexpr import CExprError


class TranslateError(Exception):
    pass


def _func(text, name):
    m = re.search(r"^%s\(char \*data, CFieldObject \*cf(?:, PyObject \*init)?\)\n\{\n(.*?)^\}" % name, text, re.M | re.S)
    if not m:
        raise TranslateError("function %s not found" % name)
    body = re.sub(r"/\*.*?\*/", " ", m.group(1), flags=re.S)
    return body


def _norm(s):
    return " ".join(s.split())


def _expr(s):
    s = s.replace("read_raw_signed_data(data, ct->ct_size)", "raw_signed")
    s = s.replace("read_raw_unsigned_data(data, ct->ct_size)", "raw_unsigned")
    s = s.replace("(int)sizeof(PY_LONG_LONG)", "8")
    if "(" in s and re.search(r"\b(sizeof|read_raw|PyLong|ct->)", s):
        raise TranslateError("unsupported call in %r" % s)
    try:
        return c03_cexpr.parse(s)
    except CExprError as e:
        raise TranslateError("%s in %r" % (e, s))


def _decls(body):
    """declared integer locals -> cty"""
    out = {}
    for m in re.finditer(r"^\s*((?:unsigned )?PY_LONG_LONG)\s+([^;()]*);", body, re.M):
        ty = "TULL" if m.group(1).startswith("unsigned") else "TLL"
        for name in m.group(2).split(","):
            name = name.strip()
            if not re.match(r"^\w+$", name):
                raise TranslateError("declaration with initializer: %r" % m.group(0))
            if out.get(name, ty) != ty:
                raise TranslateError("variable %s declared with two types" % name)
            out[name] = ty
    return out


def _assigns(block, expected, types):
    """the statements of `block` must be exactly assignments to `expected` (in order)"""
    stmts = [_norm(x) for x in block.split(";") if _norm(x)]
    stmts = [x for x in stmts if not re.match(r"^(?:unsigned )?PY_LONG_LONG\b", x)]
    got = []
    for st in stmts:
        m = re.match(r"^(\w+) = (.*)$", st, re.S)
        if not m:
            raise TranslateError("not an assignment: %r" % st)
        got.append((m.group(1), m.group(2)))
    if [g[0] for g in got] != expected:
        raise TranslateError("expected assignments to %r, found %r" % (expected, [g[0] for g in got]))
    out = []
    for name, rhs in got:
        if name not in types:
            raise TranslateError("undeclared %s" % name)
        out.append('("%s", %s, %s)' % (name, types[name], _expr(rhs)))
    return out


def translate(repo):
    text = open(os.path.join(repo, "src", "c", "_cffi_backend.c")).read()
    # ---------------- read
    rb = _func(text, "convert_to_object_bitfield")
    m = re.match(
        r"^\s*CTypeDescrObject \*ct = cf->cf_type;\s*"
        r"if \((?P<guard>[^{}]*?)\) \{\s*return convert_to_object\(data, ct\);\s*\}\s*"
        r"if \(ct->ct_flags & CT_PRIMITIVE_SIGNED\) \{(?P<s>.*?)"
        r"if \(ct->ct_flags & CT_PRIMITIVE_FITS_LONG\)\s*return PyLong_FromLong\(\(long\)result\);\s*"
        r"else\s*return PyLong_FromLongLong\(result\);\s*\}\s*"
        r"else \{(?P<u>.*?)"
        r"if \(ct->ct_flags & CT_PRIMITIVE_FITS_LONG\)\s*return PyLong_FromLong\(\(long\)value\);\s*"
        r"else\s*return PyLong_FromUnsignedLongLong\(value\);\s*\}\s*$", rb, re.S)
    if not m:
        raise TranslateError("convert_to_object_bitfield does not have the recorded shape")
    read_guard = _expr(_norm(m.group("guard")))
    ts = _decls(m.group("s"))
    read_signed = _assigns(m.group("s"), ["value", "valuemask", "shiftforsign", "value", "result"], ts)
    tu = _decls(m.group("u"))
    read_unsigned = _assigns(m.group("u"), ["value", "valuemask", "value"], tu)
    # ---------------- write
    wb = _func(text, "convert_from_object_bitfield")
    m = re.match(
        r"^\s*CTypeDescrObject \*ct = cf->cf_type;(?P<decl>.*?)"
        r"if \((?P<guard>[^{}]*?)\) \{\s*return convert_from_object\(data, ct, init\);\s*\}\s*"
        r"value = (?P<conv>PyLong_AsLongLong\(init\)|PyLong_AsLongLongAndOverflow\(init, &overflow\));\s*"
        r"if \(value == -1 && PyErr_Occurred\(\)\)\s*return -1;\s*"
        r"(?P<sat>if \(overflow != 0\) \{\s*value = overflow > 0 \? PY_LLONG_MAX : PY_LLONG_MIN;\s*\}\s*)?"
        r"if \(ct->ct_flags & CT_PRIMITIVE_SIGNED\) \{(?P<sb>[^{}]*?)"
        r"if \(fmax == 0\)\s*fmax = 1;\s*\}\s*"
        r"else \{(?P<ub>[^{}]*?)\}\s*"
        r"if \((?P<cond>[^{}]*?)\) \{(?P<err>.*?)return -1;\s*\}\s*"
        r"(?P<tail>[^{}]*?)"
        r"write_raw_integer_data\(data, rawfielddata, ct->ct_size\);\s*return 0;\s*$", wb, re.S)
    if not m:
        raise TranslateError("convert_from_object_bitfield does not have the recorded shape")
    if "PyExc_OverflowError" not in m.group("err"):
        raise TranslateError("range error is not OverflowError")
    tw = _decls(m.group("decl"))
    write_guard = _expr(_norm(m.group("guard")))
    bounds_signed = _assigns(m.group("sb"), ["fmin", "fmax"], tw)
    bounds_unsigned = _assigns(m.group("ub"), ["fmin", "fmax"], tw)
    cond = _expr(_norm(m.group("cond")))
    tail = _assigns(m.group("tail"), ["rawmask", "rawvalue", "rawfielddata", "rawfielddata"], tw)
    if m.group("conv").startswith("PyLong_AsLongLong("):
        if m.group("sat"):
            raise TranslateError("saturation without overflow flag")
        value_conv = "VCAsLongLong"
    else:
        value_conv = "(VCAndOverflow %s)" % ("true" if m.group("sat") else "false")
    if tw.get("value") != "TLL":
        raise TranslateError("`value` is not a PY_LONG_LONG")

    def prog(name, items, comment):
        return "(* %s *)\nDefinition %s : list (string * cty * cexpr) :=\n  [%s].\n" % (comment, name, ";\n   ".join(items))
    L = ["(* GENERATED by tools/props/c02_regen.py from src/c/_cffi_backend.c (convert_to_object_bitfield,",
         "   convert_from_object_bitfield).  Do not edit: regenerated and re-checked on every run of ./check C02.",
         "   Names: cf_cf_bitsize / cf_cf_bitshift = cf->cf_bitsize / cf->cf_bitshift (short, promoted to int);",
         "   raw_signed / raw_unsigned = read_raw_signed_data / read_raw_unsigned_data(data, ct->ct_size). *)",
         "From Coq Require Import ZArith String List.",
         "From Cffi Require Import C03.CExpr C02.IR.",
         "Import ListNotations.",
         "Open Scope Z_scope.",
         "Open Scope string_scope.",
         "",
         "(* `if (GUARD) return convert_to_object(data, ct);` and the same guard of the write *)",
         "Definition read_fullwidth_guard : cexpr := %s." % read_guard,
         "Definition write_fullwidth_guard : cexpr := %s." % write_guard,
         "",
         prog("read_signed_prog", read_signed, "signed branch of convert_to_object_bitfield; the result is `result`"),
         prog("read_unsigned_prog", read_unsigned, "unsigned branch; the result is `value`"),
         prog("bounds_signed_prog", bounds_signed, "signed fmin/fmax (followed by `if (fmax == 0) fmax = 1;`)"),
         prog("bounds_unsigned_prog", bounds_unsigned, "unsigned fmin/fmax"),
         "(* how `value` is obtained from the Python object *)",
         "Definition write_value_conv : value_conv := %s." % value_conv,
         "",
         "(* `if (COND) { ... OverflowError ... return -1; }` *)",
         "Definition range_cond : cexpr := %s." % cond,
         "",
         prog("write_prog", tail, "masked write; `rawfielddata` is then stored with write_raw_integer_data")]
    return "\n".join(L)


def regen(ctx, vlib):
    path = os.path.join(vlib.COQ, "C02", "Gen.v")
    old = open(path).read() if os.path.exists(path) else None
    try:
        new = translate(vlib.REPO)
    except (TranslateError, OSError, KeyError) as e:
        snap = open(path + ".snapshot").read()
        if old != snap:
            with vlib.CoqLock():
                with open(path, "w") as f:
                    f.write(snap)
        ctx.translator("C02/Gen.v", "fallback: %s" % e)
        return False
    if new == old:
        ctx.translator("C02/Gen.v", "unchanged")
    else:
        with vlib.CoqLock():
            with open(path, "w") as f:
                f.write(new)
        ctx.translator("C02/Gen.v", "regenerated")
    return True
