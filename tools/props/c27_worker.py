"""C27 worker.

level "raw":  histories of _cffi_backend.new_*_type / drop / gc.collect() with explicit handles;
              reports, for each construction, the oldest live handle that IS the returned object
              (or "fresh"), and the number of ctype objects alive at the end.
level "ffi":  histories over several cffi.FFI objects and one out-of-line module FFI
              (typeof of type strings, dropping handles and whole FFI objects, gc.collect());
              at checkpoints, the partition of the live handles by `is` is compared with the
              partition by structural description.
"""
import gc
import importlib.util
import weakref
import os
import sys

import _cffi_backend as B
from lib.vlib import worker_main

PRIMS = ["char", "short", "int", "long", "long long", "signed char", "unsigned char", "unsigned short",
         "unsigned int", "unsigned long", "unsigned long long", "float", "double", "long double", "_Bool",
         "wchar_t", "char16_t", "char32_t", "int8_t", "uint8_t", "int16_t", "uint16_t", "int32_t", "uint32_t",
         "int64_t", "uint64_t", "intptr_t", "uintptr_t", "ptrdiff_t", "size_t", "ssize_t"]
CT = type(B.new_void_type())


def count_ctypes():
    return sum(1 for o in gc.get_objects() if type(o) is CT)


def run_raw(case):
    gc.disable()
    gc.collect()
    handles = {}        # h -> ctype, insertion-ordered (creation order)
    recipe = {}         # h -> (kind, param, kids) of the construction that made it
    outs = []
    nagg = [0]
    wrs = []

    def construct(kind, param, kids):
        ks = [handles[x] for x in kids]
        if kind == 0:
            return B.new_primitive_type(PRIMS[param])
        if kind == 1:
            return B.new_void_type()
        if kind == 2:
            return B.new_pointer_type(ks[0])
        if kind == 3:
            return B.new_array_type(ks[0], None if param < 0 else param)
        if kind == 4:
            return B.new_function_type(tuple(ks[1:]), ks[0], bool(param & 1))
        nagg[0] += 1
        return [B.new_struct_type, B.new_union_type][param % 2]("agg%d_%d" % (param, nagg[0]))

    def bind(h, x):
        same = next((hh for hh, t in handles.items() if t is x), None)
        handles[h] = x
        return ["fresh"] if same is None else ["same", same]

    for op in case["ops"]:
        k = op[0]
        try:
            if k == "new":
                _, h, kind, param, kids = op
                x = construct(kind, param, kids)
                recipe[h] = (kind, param, list(kids))
                r = bind(h, x)
                if kind == 4:
                    # the returned function ctype must report exactly the requested signature, arrays decayed
                    want = tuple(B.new_pointer_type(handles[a].item) if handles[a].kind == "array" else handles[a]
                                 for a in kids[1:])
                    got = x.args
                    if len(got) != len(want) or any(g is not w for g, w in zip(got, want)) \
                            or x.result is not handles[kids[0]] or bool(x.ellipsis) != bool(param & 1):
                        r = r + ["BADSIG", x.cname]
                    del want, got
                outs.append(r)
                del x
            elif k == "drop_rebuild":
                # a weakref callback on the dying type rebuilds the same description: it runs inside
                # ctypedescr_dealloc, after the weakrefs were cleared and before the cache entry is removed
                _, h, h2 = op
                res = []
                t = handles[h]
                kind, param, _kids = recipe[h]
                # the children as OBJECTS (their handles may be gone); released again after the rebuild
                if kind == 2:
                    box = [t.item]
                elif kind == 3:
                    box = [B.new_pointer_type(t.item)]
                elif kind == 4:
                    box = [t.result] + list(t.args)
                else:
                    box = []
                del t

                def cb(_wr, kind=kind, param=param, box=box, h2=h2, res=res):
                    if kind == 0:
                        x = B.new_primitive_type(PRIMS[param])
                    elif kind == 1:
                        x = B.new_void_type()
                    elif kind == 2:
                        x = B.new_pointer_type(box[0])
                    elif kind == 3:
                        x = B.new_array_type(box[0], None if param < 0 else param)
                    else:
                        x = B.new_function_type(tuple(box[1:]), box[0], bool(param & 1))
                    res.append(bind(h2, x))
                    del box[:]
                wrs.append(weakref.ref(handles[h], cb))
                recipe[h2] = recipe[h]
                del handles[h]
                del box[:]
                outs.append(res[0] if res else ["notfired"])
            elif k == "complete":
                _, h, kids = op
                if kids:
                    B.complete_struct_or_union(handles[h], [("f%d" % i, handles[x], -1) for i, x in enumerate(kids)])
                else:
                    B.complete_struct_or_union(handles[h], [], Ellipsis, 0)      # no fields, total size 0
                    assert B.sizeof(handles[h]) == 0
                outs.append(["ok"])
            elif k == "drop":
                del handles[op[1]]
                outs.append(["ok"])
            elif k == "collect":
                gc.collect()
                outs.append(["ok"])
            else:
                raise ValueError(k)
        except (TypeError, ValueError, NotImplementedError, OverflowError, KeyError) as e:
            outs.append(["err", type(e).__name__, str(e)[:80]])
    return dict(outs=outs, alive=count_ctypes())


# ------------------------------------------------------------------ FFI level

def describe(t, memo):
    """structural description of a ctype; aggregates by identity"""
    key = id(t)
    if key in memo:
        return memo[key]
    k = t.kind
    if k in ("primitive", "void"):
        d = (k, t.cname)
    elif k == "pointer":
        d = ("pointer", describe(t.item, memo))
    elif k == "array":
        d = ("array", describe(t.item, memo), t.length)
    elif k == "function":
        d = ("function", tuple(describe(a, memo) for a in t.args), describe(t.result, memo), t.ellipsis, t.abi)
    else:
        d = ("aggregate", k, id(t))
    memo[key] = d
    return d


def check_partition(handles):
    """-> list of failures: live non-aggregate handles must be identical iff same description"""
    memo = {}
    by_desc = {}
    bad = []
    for h, t in handles.items():
        if t.kind in ("struct", "union", "enum"):
            continue
        d = describe(t, memo)
        if d in by_desc:
            h0, t0 = by_desc[d]
            if t0 is not t:
                bad.append("handles #%s and #%s both denote '%s' but are different objects" % (h0, h, t.cname))
        else:
            by_desc[d] = (h, t)
    by_id = {}
    for h, t in handles.items():
        if t.kind in ("struct", "union", "enum"):
            continue
        if id(t) in by_id and describe(by_id[id(t)][1], memo) != describe(t, memo):
            bad.append("one object for two descriptions (#%s, #%s)" % (by_id[id(t)][0], h))
        by_id[id(t)] = (h, t)
    return bad, len(by_desc)


CDEF = """
    struct s { int a; struct s *next; };
    union u { int a; char b[4]; };
    typedef struct s s_t;
    typedef int (*fn_t)(int, char *);
    enum e { EA, EB };
    struct empty { };
"""


DECAYED = {"void(*)(int[7][0], int[9][0])": "void(*)(int(*)[0], int(*)[0])",
           "void(*)(int[2][0], int[4][0])": "void(*)(int(*)[0], int(*)[0])"}


def norm(x):
    """canonical spelling of a type string / cname for the request-vs-result comparison"""
    import re
    x = DECAYED.get(x, x)
    x = re.sub(r"\s+", "", x.replace("s_t", "struct s")).replace("(void)", "()")
    if x.startswith("fn_t"):
        x = "int(*" + x[4:] + ")(int,char*)"
    return x


def zero_item(t):
    try:
        return t.kind == "array" and B.sizeof(t.item) == 0
    except TypeError:
        return False


def bound(t, want):
    """the ctype returned for the requested spelling must be that type"""
    if norm(t.cname) != norm(want):
        return ["wrong", "typeof(%r) returned the ctype '%s'%s" % (
            want, t.cname, " of length %r" % (t.length,) if t.kind == "array" else "")]
    return ["ok", "array_of_zero_size_items"] if zero_item(t) else ["ok"]


def make_ool(idx):
    import cffi
    ffi = cffi.FFI()
    ffi.cdef(CDEF)
    name = "_c27_ool_%d_%d" % (os.getpid(), idx)
    ffi.set_source(name, None)
    path = os.path.join(os.environ["VERIF_WORK"], name + ".py")
    ffi.emit_python_code(path)
    spec = importlib.util.spec_from_file_location(name, path)
    mod = importlib.util.module_from_spec(spec)
    spec.loader.exec_module(mod)
    os.unlink(path)
    return mod.ffi


def run_ffi(case):
    import cffi
    ffis = {}
    handles = {}
    outs = []
    classes = 0
    for op in case["ops"]:
        k = op[0]
        try:
            if k == "ffi":
                _, f, ool = op
                if ool == 2:
                    ffis[f] = B.FFI()             # the C-level FFI class alone: only type strings
                elif ool:
                    ffis[f] = make_ool(f)
                else:
                    ffis[f] = cffi.FFI()
                    ffis[f].cdef(CDEF)
                outs.append(["ok"])
            elif k == "typeof":
                _, h, f, s = op
                handles[h] = ffis[f].typeof(s)
                outs.append(bound(handles[h], s))
            elif k == "derive":          # new pointer / array type from an existing handle
                _, h, f, src, how = op
                t = handles[src]
                suffix = {"ptr": "*", "arr": "[3]", "arr0": "[0]", "arr5": "[5]", "arr7": "[7]"}.get(how)
                if suffix:
                    want = ffis[f].getctype(t, suffix)
                    handles[h] = ffis[f].typeof(want)
                    outs.append(bound(handles[h], want))
                else:
                    handles[h] = t.item if t.kind in ("pointer", "array") else t
                    outs.append(["ok"])
                del t
            elif k == "drop":
                handles.pop(op[1], None)
                outs.append(["ok"])
            elif k == "dropffi":
                ffis.pop(op[1], None)
                outs.append(["ok"])
            elif k == "collect":
                gc.collect()
                outs.append(["ok"])
            elif k == "check":
                bad, n = check_partition(handles)
                classes = max(classes, n)
                outs.append(["check", bad[:3], n, len(handles)])
            else:
                raise ValueError(k)
        except (TypeError, ValueError, NotImplementedError, KeyError, cffi.FFIError, cffi.CDefError,
                B.FFI.error) as e:
            outs.append(["err", type(e).__name__, str(e)[:80]])
    return dict(outs=outs, classes=classes)


def main(payload):
    case = payload["case"]
    return run_raw(case) if case["level"] == "raw" else run_ffi(case)


worker_main(main)
