"""C36 — callbacks from non-Python threads get a valid, persistent thread state.

Model coq/C36/Model.v (gil_ensure / thread_canary_register / thread_canary_free_zombies /
thread_canary_dealloc / cffi_thread_shutdown): per-thread TLS slot and gilstate slot, thread
states with counter and dict, canaries, the zombie list; events: callbacks (overlapping), the
steps of the sweep, thread exits at any point, finalization.  Theorems (coq/C36/Props.v; all event
orders, any number of threads): no Py_FatalError condition, thread state deleted at most once and never
while its thread is alive, same thread state across callbacks, counter >= 2 inside a callback,
zombie list duplicate-free and made of allocated canaries of exited threads, no dangling canary
pointers, exited threads' states are destroyed or queued; a registration is always defined
(C36_registration_total) and frees, under any interleaving, every canary queued when it started
(C36_sweep_frees_initial_zombies).
Tie (1) regenerated, coq/C36/Gen.v from src/c/misc_thread_common.h on every run (regex/brace
translator below, fail closed): the ring code of make_zombie / detach as `pstmt` programs; the locked
regions of cffi_thread_shutdown / thread_canary_dealloc / thread_canary_free_zombies as `xstmt`
programs (coq/C36/Ptr.v) with per-region specifications (C36/Proofs3.v); six order/counter facts of
gil_ensure / gil_release / thread_canary_register that Model.step_fn CONSULTS (a false fact changes
the model and breaks the invariant proof).  The rest of the model is by hand.
Tie (2) correspondence: a compiled helper spawns pthreads that invoke a ffi.callback in
model-chosen counts / overlaps / exit orders, interleaved with gc.collect() and callbacks from a
Python thread; observed: the threading.local token each callback sees (numbered in creation
order), which threads' tokens have been destroyed after each event, survival of the process
including interpreter shutdown with foreign threads still alive.
"""
import concurrent.futures
import os
import re

from lib import vlib, py2coq

ID = "C36"

# ------------------------------------------------------------------ regeneration of the pointer code (tie A)

U = py2coq.Untranslatable
VARS = {"ob": "VOb", "last": "VLast", "p": "VP", "n": "VN"}
FLD = {"next": "FNext", "prev": "FPrev"}
SNAPSHOT = dict(
    gen_make_zombie=["PLoad VLast VHead FPrev", "PStore VOb FNext VHead", "PStore VOb FPrev VLast",
                     "PStore VLast FNext VOb", "PStore VHead FPrev VOb"],
    gen_make_zombie_guarded=True,
    gen_gil_ensure_incr_unlocked=True, gen_gil_ensure_incr_locked=True, gen_gil_release_plain=True,
    gen_detach=["PLoad VP VOb FPrev", "PLoad VN VOb FNext", "PStore VP FNext VN", "PStore VN FPrev VP",
                "PStoreNull VOb FPrev", "PStoreNull VOb FNext"],
    gen_register_sweeps_first=True, gen_register_sets_local=True, gen_register_incr=True,
    gen_shutdown_locked=["XS (XLoadLocal XCan XTls)",
                         "XIfNonNull XCan [XLoadLocal XCan XTls; XStoreTlsNull XCan; XLoadLocal XCan XTls; XMakeZombie XCan]"],
    gen_dealloc_locked=["XIfLinked XOb [XDetach XOb]", "XS (XLoadTls XTls XOb)",
                        "XIfNonNull XTls [XLoadTls XTls XOb; XStoreLocalNull XTls]"],
    gen_sweep_locked=["XS (XLoadHeadNext XOb)",
                      "XIfNotHead XOb [XLoadTstate XTstate XOb; XDetach XOb; XFatalIfNull XTstate]"])


def _fn_body(text, name):
    ms = list(re.finditer(r"\b%s\s*\(\s*ThreadCanaryObj\s*\*\s*ob\s*\)\s*\{" % name, text))
    if len(ms) != 1:
        raise U("%s not found exactly once" % name)
    i = ms[0].end() - 1
    depth, j = 0, i
    while j < len(text):
        if text[j] == "{":
            depth += 1
        elif text[j] == "}":
            depth -= 1
            if depth == 0:
                return text[i + 1:j]
        j += 1
    raise U(name + ": unbalanced braces")


def _var(v):
    if v not in VARS:
        raise U("unknown pointer variable %r" % v)
    return VARS[v]


def _pointer_stmt(st):
    m = re.fullmatch(r"(\w+) = cffi_zombie_head\.zombie_(next|prev)", st)
    if m:
        return "PLoad %s VHead %s" % (_var(m.group(1)), FLD[m.group(2)])
    m = re.fullmatch(r"(\w+) = (\w+)->zombie_(next|prev)", st)
    if m:
        return "PLoad %s %s %s" % (_var(m.group(1)), _var(m.group(2)), FLD[m.group(3)])
    m = re.fullmatch(r"(\w+)->zombie_(next|prev) = &cffi_zombie_head", st)
    if m:
        return "PStore %s %s VHead" % (_var(m.group(1)), FLD[m.group(2)])
    m = re.fullmatch(r"(\w+)->zombie_(next|prev) = NULL", st)
    if m:
        return "PStoreNull %s %s" % (_var(m.group(1)), FLD[m.group(2)])
    m = re.fullmatch(r"(\w+)->zombie_(next|prev) = (\w+)", st)
    if m:
        return "PStore %s %s %s" % (_var(m.group(1)), FLD[m.group(2)], _var(m.group(3)))
    m = re.fullmatch(r"cffi_zombie_head\.zombie_(next|prev) = (\w+)", st)
    if m:
        return "PStore VHead %s %s" % (FLD[m.group(1)], _var(m.group(2)))
    raise U("statement outside the pointer subset: %r" % st)


# ---- the locked regions (between TLS_ZOM_LOCK() and TLS_ZOM_UNLOCK()) as xstmt programs of C36/Ptr.v
XV = {"ob": "XOb", "tls": "XTls", "tstate": "XTstate"}


def _xv(v):
    if v not in XV:
        raise U("locked region: unknown variable %r" % v)
    return XV[v]


def _match_close(text, i, op, cl):
    depth = 0
    for j in range(i, len(text)):
        if text[j] == op:
            depth += 1
        elif text[j] == cl:
            depth -= 1
            if depth == 0:
                return j
    raise U("locked region: unbalanced %s" % op)


def _parse_block(text):
    """[('s', stmt) | ('if', cond, [sub-statements])] of a brace-free-at-top-level statement sequence"""
    out, i = [], 0
    text = text.strip()
    while i < len(text):
        if text[i].isspace():
            i += 1
            continue
        m = re.match(r"if\s*\(", text[i:])
        if m:
            j = _match_close(text, i + m.end() - 1, "(", ")")
            cond = " ".join(text[i + m.end():j].split())
            k = j + 1
            while text[k].isspace():
                k += 1
            if text[k] == "{":
                e = _match_close(text, k, "{", "}")
                body = _parse_block(text[k + 1:e])
                i = e + 1
            else:
                e = text.index(";", k)
                body = _parse_block(text[k:e + 1])
                i = e + 1
            m2 = re.match(r"\s*else\s*\{\s*\}", text[i:])
            if m2:
                i += m2.end()
            elif re.match(r"\s*else\b", text[i:]):
                raise U("locked region: non-empty else branch")
            out.append(("if", cond, body))
            continue
        e = text.index(";", i) if ";" in text[i:] else None
        if e is None:
            raise U("locked region: trailing text %r" % text[i:])
        st = " ".join(text[i:e].split())
        if st:
            out.append(("s", st))
        i = e + 1
    return out


def _xsimple(st):
    """C statement -> list of xsimple constructors"""
    if re.fullmatch(r"assert\(.*\)", st):
        return []
    m = re.fullmatch(r"(\w+)->local_thread_canary->tls = NULL", st)
    if m:
        return ["XLoadLocal XCan %s" % _xv(m.group(1)), "XStoreTlsNull XCan"]
    m = re.fullmatch(r"thread_canary_make_zombie\((\w+)->local_thread_canary\)", st)
    if m:
        return ["XLoadLocal XCan %s" % _xv(m.group(1)), "XMakeZombie XCan"]
    m = re.fullmatch(r"_thread_canary_detach_with_lock\((\w+)\)", st)
    if m:
        return ["XDetach %s" % _xv(m.group(1))]
    m = re.fullmatch(r"(\w+)->tls->local_thread_canary = NULL", st)
    if m:
        return ["XLoadTls XTls %s" % _xv(m.group(1)), "XStoreLocalNull XTls"]
    m = re.fullmatch(r"(\w+) = cffi_zombie_head\.zombie_next", st)
    if m:
        return ["XLoadHeadNext %s" % _xv(m.group(1))]
    m = re.fullmatch(r"(\w+) = (\w+)->tstate", st)
    if m:
        return ["XLoadTstate %s %s" % (_xv(m.group(1)), _xv(m.group(2)))]
    raise U("locked region: statement outside the subset: %r" % st)


def _xbody(items):
    out = []
    for it in items:
        if it[0] == "s":
            out += _xsimple(it[1])
            continue
        m = re.fullmatch(r"(\w+) == NULL", it[1])
        if m and len(it[2]) == 1 and it[2][0][0] == "s" and re.fullmatch(r"Py_FatalError\(.*\)", it[2][0][1]):
            out.append("XFatalIfNull %s" % _xv(m.group(1)))
            continue
        raise U("locked region: nested if %r" % (it[1],))
    return out


def _xprogram(text):
    prog = []
    for it in _parse_block(text):
        if it[0] == "s":
            prog += ["XS (%s)" % x for x in _xsimple(it[1])]
            continue
        cond, body = it[1], "[" + "; ".join(_xbody(it[2])) + "]"
        m = re.fullmatch(r"(\w+)->local_thread_canary != NULL", cond)
        if m:
            prog += ["XS (XLoadLocal XCan %s)" % _xv(m.group(1)), "XIfNonNull XCan " + body]
            continue
        m = re.fullmatch(r"(\w+)->zombie_next != NULL", cond)
        if m:
            prog.append("XIfLinked %s %s" % (_xv(m.group(1)), body))
            continue
        m = re.fullmatch(r"(\w+)->tls != NULL", cond)
        if m:
            prog += ["XS (XLoadTls XTls %s)" % _xv(m.group(1)), "XIfNonNull XTls " + body]
            continue
        m = re.fullmatch(r"(\w+) != &cffi_zombie_head", cond)
        if m:
            prog.append("XIfNotHead %s %s" % (_xv(m.group(1)), body))
            continue
        raise U("locked region: condition outside the subset: %r" % cond)
    return prog


def _locked_region(body, what):
    if body.count("TLS_ZOM_LOCK();") != 1 or body.count("TLS_ZOM_UNLOCK();") != 1:
        raise U("%s: expected exactly one TLS_ZOM_LOCK()/TLS_ZOM_UNLOCK() pair" % what)
    a, b = body.index("TLS_ZOM_LOCK();"), body.index("TLS_ZOM_UNLOCK();")
    if a > b:
        raise U("%s: unlock before lock" % what)
    return body[:a], body[a + len("TLS_ZOM_LOCK();"):b], body[b + len("TLS_ZOM_UNLOCK();"):]


def extract_locked_regions(text):
    out = {}
    b = _plain_body(text, r"static\s+void\s+cffi_thread_shutdown\s*\(\s*void\s*\*\s*p\s*\)\s*\{")
    pre, reg, post = _locked_region(b, "cffi_thread_shutdown")
    if " ".join(pre.split()) != "struct cffi_tls_s *tls = (struct cffi_tls_s *)p;" or " ".join(post.split()) != "free(tls);":
        raise U("cffi_thread_shutdown: statements outside the locked region changed")
    out["gen_shutdown_locked"] = _xprogram(reg)
    b = _fn_body(text, "thread_canary_dealloc")
    pre, reg, post = _locked_region(b, "thread_canary_dealloc")
    if pre.strip() or " ".join(post.split()) != "PyObject_Del((PyObject *)ob);":
        raise U("thread_canary_dealloc: statements outside the locked region changed")
    out["gen_dealloc_locked"] = _xprogram(reg)
    b = _plain_body(text, r"static\s+void\s+thread_canary_free_zombies\s*\(\s*void\s*\)\s*\{")
    pre, reg, post = _locked_region(b, "thread_canary_free_zombies")
    pre, post = " ".join(pre.split()), " ".join(post.split())
    if not pre.endswith("while (1) { ThreadCanaryObj *ob; PyThreadState *tstate = NULL;"):
        raise U("thread_canary_free_zombies: loop header / `tstate = NULL` initialiser changed")
    if not re.fullmatch(r"if \(tstate == NULL\) break; PyThreadState_Clear\(tstate\); (#if PY_VERSION_HEX >= 0x030C0000 "
                        r"tstate->_status\.bound_gilstate = 0; #endif )?PyThreadState_Delete\(tstate\); \} ?", post):
        raise U("thread_canary_free_zombies: statements after the locked region changed: %r" % post)
    out["gen_sweep_locked"] = _xprogram(reg)
    # thread_canary_register: sweep first; on the success path (after the dict store and its error check)
    # tls->local_thread_canary = canary and exactly one gilstate_counter++
    b = " ".join(_plain_body(text, r"static\s+void\s+thread_canary_register\s*\(\s*PyThreadState\s*\*\s*tstate\s*\)\s*\{").split())
    sts = [x.strip() for x in b.split(";")]
    first = [x for x in sts if x and not re.fullmatch(r"(ThreadCanaryObj|PyObject|struct cffi_tls_s|int) \*?\w+", x)]
    out["gen_register_sweeps_first"] = bool(first) and first[0] == "thread_canary_free_zombies()"
    m = re.search(r"err = PyDict_SetItemString\(tdict, \"cffi\.thread\.canary\", \(PyObject \*\)canary\); "
                  r"Py_DECREF\(canary\); if \(err < 0\) goto ignore_error; (.*?)return; ignore_error:", b)
    if not m:
        raise U("thread_canary_register: success path not recognised")
    succ = [x.strip() for x in m.group(1).split(";") if x.strip() and not x.strip().startswith("assert(")]
    out["gen_register_sets_local"] = "tls->local_thread_canary = canary" in succ
    out["gen_register_incr"] = (succ.count("tstate->gilstate_counter++") == 1
                                and b.count("gilstate_counter") == 1)
    extra = [x for x in succ if x not in ("tls->local_thread_canary = canary", "tstate->gilstate_counter++")]
    if extra:
        raise U("thread_canary_register: unexpected statement on the success path: %r" % extra[0])
    return out


def extract_pointer_code():
    text = open(os.path.join(vlib.REPO, "src", "c", "misc_thread_common.h")).read()
    text = re.sub(r"/\*.*?\*/", " ", text, flags=re.S)
    text = re.sub(r"//[^\n]*", " ", text)
    out = {}
    body = " ".join(_fn_body(text, "thread_canary_make_zombie").split())
    guard = 'if (ob->zombie_next) Py_FatalError("cffi: ThreadCanaryObj is already a zombie");'
    out["gen_make_zombie_guarded"] = guard in body
    body = body.replace(guard, "")
    prog = []
    for st in [x.strip() for x in body.split(";") if x.strip()]:
        if st == "ThreadCanaryObj *last":
            continue
        prog.append(_pointer_stmt(st))
    out["gen_make_zombie"] = prog
    body = " ".join(_fn_body(text, "_thread_canary_detach_with_lock").split())
    prog = []
    for st in [x.strip() for x in body.split(";") if x.strip()]:
        if st == "ThreadCanaryObj *p, *n":
            continue
        prog.append(_pointer_stmt(st))
    out["gen_detach"] = prog
    # gil_ensure: on which branches an existing thread state gets its gilstate_counter incremented
    m = re.search(r"static\s+PyGILState_STATE\s+gil_ensure\s*\(\s*void\s*\)\s*\{", text)
    if not m:
        raise U("gil_ensure not found")
    g = " ".join(text[m.end():text.index("static void gil_release", m.end())].split())
    mm = re.search(r"if \(ts != NULL\) \{(.*?)if \(ts != get_current_ts\(\)\) \{(.*?)return PyGILState_UNLOCKED; \} "
                   r"else \{(.*?)return PyGILState_LOCKED; \} \} else \{", g)
    if not mm:
        raise U("gil_ensure: branch structure not recognised")
    pre, unl, lck = mm.group(1), mm.group(2), mm.group(3)
    for part in (pre, unl, lck):
        rest = part.replace("ts->gilstate_counter++;", "").replace("PyEval_RestoreThread(ts);", "").strip()
        if rest:
            raise U("gil_ensure: unexpected statement %r" % rest)
    cnt = lambda part: part.count("ts->gilstate_counter++;")
    out["gen_gil_ensure_incr_unlocked"] = (cnt(pre) + cnt(unl) == 1) and "PyEval_RestoreThread(ts);" in unl
    out["gen_gil_ensure_incr_locked"] = (cnt(pre) + cnt(lck) == 1) and "PyEval_RestoreThread" not in lck
    r = " ".join(_plain_body(text, r"static\s+void\s+gil_release\s*\(\s*PyGILState_STATE\s+oldstate\s*\)\s*\{").split())
    out["gen_gil_release_plain"] = (r == "PyGILState_Release(oldstate);")
    out.update(extract_locked_regions(text))
    return out


def _plain_body(text, header):
    m = re.search(header, text)
    if not m:
        raise U("function not found: " + header)
    i = m.end() - 1
    depth, j = 0, i
    while j < len(text):
        if text[j] == "{":
            depth += 1
        elif text[j] == "}":
            depth -= 1
            if depth == 0:
                return text[i + 1:j]
        j += 1
    raise U("unbalanced braces")


def gen_text(f, origin):
    b = lambda k: "true" if f[k] else "false"
    return ("(* C36/Gen.v — %s.  Do not edit: rewritten by tools/props/c36.py regen() on every run.\n"
            "   Straight-line pointer code of thread_canary_make_zombie (after its guard) and\n"
            "   _thread_canary_detach_with_lock; the regions between TLS_ZOM_LOCK() and TLS_ZOM_UNLOCK() of\n"
            "   cffi_thread_shutdown, thread_canary_dealloc and thread_canary_free_zombies; order/counter facts of\n"
            "   gil_ensure, gil_release and thread_canary_register.  src/c/misc_thread_common.h. *)\n"
            "From Coq Require Import List.\nImport ListNotations.\nFrom Cffi Require Import C36.Ptr.\n"
            "Definition gen_make_zombie : list pstmt :=\n  [%s].\n"
            "Definition gen_make_zombie_guarded : bool := %s.\n"
            "Definition gen_detach : list pstmt :=\n  [%s].\n"
            "(* gil_ensure with an existing thread state: ts->gilstate_counter++ happens exactly once on the path that\n"
            "   returns PyGILState_UNLOCKED (after/before PyEval_RestoreThread) resp. PyGILState_LOCKED (ts already\n"
            "   current: the callback was entered with the GIL held); gil_release is PyGILState_Release(oldstate).\n"
            "   Consulted by C36.Model.step_fn (EvCb / EvCbNested / EvCbEnd / EvCbNestedEnd). *)\n"
            "Definition gen_gil_ensure_incr_unlocked : bool := %s.\n"
            "Definition gen_gil_ensure_incr_locked : bool := %s.\n"
            "Definition gen_gil_release_plain : bool := %s.\n"
            "(* thread_canary_register: thread_canary_free_zombies() is its first statement; after the dict store\n"
            "   succeeded: tls->local_thread_canary = canary; exactly one tstate->gilstate_counter++.\n"
            "   Consulted by C36.Model.step_fn (EvCb first callback / EvMakeCanary). *)\n"
            "Definition gen_register_sweeps_first : bool := %s.\n"
            "Definition gen_register_sets_local : bool := %s.\n"
            "Definition gen_register_incr : bool := %s.\n"
            "(* the locked regions, as programs of C36/Ptr.v (specified in C36/Proofs3.v) *)\n"
            "Definition gen_shutdown_locked : list xstmt :=\n  [%s].\n"
            "Definition gen_dealloc_locked : list xstmt :=\n  [%s].\n"
            "Definition gen_sweep_locked : list xstmt :=\n  [%s].\n") % (
                origin, "; ".join(f["gen_make_zombie"]), b("gen_make_zombie_guarded"),
                "; ".join(f["gen_detach"]), b("gen_gil_ensure_incr_unlocked"),
                b("gen_gil_ensure_incr_locked"), b("gen_gil_release_plain"),
                b("gen_register_sweeps_first"), b("gen_register_sets_local"), b("gen_register_incr"),
                ";\n   ".join(f["gen_shutdown_locked"]), ";\n   ".join(f["gen_dealloc_locked"]),
                ";\n   ".join(f["gen_sweep_locked"]))


def regen(ctx):
    try:
        f, status, origin = extract_pointer_code(), None, "regenerated from src/c/misc_thread_common.h"
    except (U, OSError, ValueError, IndexError) as e:      # anything unexpected in the source shape: fail closed
        f, status, origin = dict(SNAPSHOT), "fallback: %s" % e, "SNAPSHOT (extraction from the current source failed)"
    st = py2coq.write_if_changed(os.path.join(vlib.COQ, "C36", "Gen.v"), gen_text(f, origin))
    ctx.translator("C36/Gen.v", status or st)
    ctx.extra["pointer_code_equals_snapshot"] = (f == SNAPSHOT)


def gen_case(rng, n, length):
    """a random macro-event sequence that is valid in the model"""
    st = {t: "new" for t in range(n)}          # new | idle | incb | exited
    has_canary = set()
    ev = []
    for _ in range(length):
        r = rng.random()
        if r < 0.08:
            ev.append(["gc", 0])
            continue
        if r < 0.14:
            ev.append(["pycb", 0])
            continue
        cands = []
        for t in range(n):
            if st[t] in ("new", "idle"):
                cands.append(("cb", t))
                cands.append(("cb", t))
                if st[t] == "idle":
                    cands.append(("exit", t))
                    cands.append(("own", t))
            elif st[t] == "incb":
                cands.append(("end", t))
                cands.append(("end", t))
                cands.append(("nest", t))
                if t in has_canary and rng.random() < 0.5:
                    cands.append(("drop", t))
        if not cands:
            break
        k, t = rng.choice(cands)
        ev.append([k, t])
        if k == "drop":
            has_canary.discard(t)
            continue
        if k in ("nest", "own"):
            continue
        if k == "cb" and st[t] == "new":
            has_canary.add(t)
        st[t] = {"cb": "incb", "end": "idle", "exit": "exited"}[k]
    if rng.random() < 0.3:
        ev.append(["ownfresh", 0])
    leave_alive = rng.random() < 0.3
    for t in range(n):
        if st[t] == "incb":
            ev.append(["end", t])
            st[t] = "idle"
    for t in range(n):
        if st[t] == "idle" and not (leave_alive and rng.random() < 0.5):
            ev.append(["exit", t])
    return dict(n=n, events=ev)


def directed():
    return [
        # thread 0 exits while thread 1 is inside a callback; thread 2 registers (sweep) during it
        dict(n=3, events=[["cb", 0], ["end", 0], ["cb", 1], ["exit", 0], ["cb", 2], ["end", 2], ["end", 1],
                          ["cb", 1], ["end", 1], ["exit", 1], ["exit", 2]]),
        # many callbacks of one thread: one token
        dict(n=1, events=[["cb", 0], ["end", 0]] * 6 + [["gc", 0], ["cb", 0], ["end", 0], ["exit", 0]]),
        # several exits queued, then one registration sweeps them all
        dict(n=5, events=[["cb", 0], ["end", 0], ["cb", 1], ["end", 1], ["cb", 2], ["end", 2], ["cb", 3], ["end", 3],
                          ["exit", 2], ["exit", 0], ["exit", 3], ["gc", 0], ["cb", 1], ["end", 1], ["cb", 4],
                          ["end", 4], ["exit", 1], ["exit", 4]]),
        # a thread that exits without ever calling back, and threads left alive at interpreter shutdown
        dict(n=3, events=[["exit", 0], ["cb", 1], ["end", 1], ["cb", 2], ["pycb", 0], ["end", 2]]),
    ] + drop_cases() + gil_held_cases()


def gil_held_cases():
    """callbacks entered with the GIL already held: nested in an outer callback of the same foreign thread, and
    inside the thread's own PyGILState_Ensure/Release bracket; then more callbacks (same thread state?), exits"""
    return [
        dict(n=2, events=[["cb", 0], ["nest", 0], ["end", 0], ["cb", 0], ["end", 0], ["cb", 0], ["nest", 0], ["nest", 0],
                          ["end", 0], ["cb", 0], ["end", 0], ["exit", 0], ["cb", 1], ["end", 1], ["exit", 1]]),
        dict(n=2, events=[["cb", 0], ["end", 0], ["own", 0], ["cb", 0], ["end", 0], ["own", 0], ["own", 0], ["cb", 0],
                          ["nest", 0], ["end", 0], ["exit", 0], ["cb", 1], ["end", 1], ["own", 1], ["cb", 1], ["end", 1],
                          ["ownfresh", 0], ["exit", 1]]),
        dict(n=3, events=[["cb", 0], ["cb", 1], ["nest", 1], ["nest", 0], ["end", 1], ["own", 1], ["end", 0], ["cb", 1],
                          ["drop", 1], ["nest", 1], ["end", 1], ["own", 1], ["cb", 1], ["end", 1], ["exit", 1],
                          ["cb", 2], ["end", 2], ["ownfresh", 1], ["exit", 0], ["exit", 2]]),
    ]


def drop_cases():
    """a canary deallocated while its thread is alive (thread-state dict entry removed under cffi's feet);
    the thread keeps calling back, then exits; later registrations sweep"""
    return [
        dict(n=2, events=[["cb", 0], ["drop", 0], ["end", 0], ["cb", 0], ["end", 0], ["exit", 0], ["gc", 0],
                          ["cb", 1], ["end", 1], ["cb", 1], ["end", 1], ["exit", 1]]),
        dict(n=4, events=[["cb", 0], ["end", 0], ["cb", 1], ["end", 1], ["cb", 0], ["drop", 0], ["cb", 1], ["drop", 1],
                          ["end", 1], ["end", 0], ["exit", 1], ["cb", 2], ["end", 2], ["exit", 0], ["exit", 2],
                          ["cb", 3], ["end", 3], ["gc", 0], ["cb", 3], ["end", 3], ["exit", 3]]),
        dict(n=3, events=[["cb", 0], ["drop", 0], ["end", 0], ["exit", 0], ["cb", 1], ["end", 1], ["exit", 1],
                          ["cb", 2], ["end", 2], ["cb", 2], ["end", 2]]),
    ]


def generate(ctx):
    rng = ctx.rng
    cases = directed()
    for _ in range(ctx.n(120, 3000)):
        n = rng.choice([1, 2, 3, 3, 4, 5, 6, 8])
        cases.append(gen_case(rng, n, rng.choice([6, 12, 20, 30])))
    return cases


KIND = {"cb": 0, "end": 1, "exit": 2, "drop": 4, "nest": 5, "own": 6}


def fpn(m, b, l):
    acc = 7
    for z in l:
        acc = (acc * b + z + 1) % m
    return acc


def evaluate(ctx, cases):
    cases = [dict(n=c["n"], events=c["events"]) for c in cases]
    s = ctx.scratch()
    nproc = 6 if len(cases) > 12 else 1
    chunks = [c for c in (cases[i::nproc] for i in range(nproc)) if c]

    def one(arg):
        k, chunk = arg
        prog = os.path.join(s.work, "c36_progress_%d" % k)
        r, p = s.run_worker("c36_worker.py", dict(cases=chunk, timeout=30, progress=prog), timeout=3600)
        return chunk, r, p, prog
    results = {}
    with concurrent.futures.ThreadPoolExecutor(max_workers=len(chunks)) as ex:
        for chunk, r, p, prog in ex.map(one, enumerate(chunks)):
            at = open(prog).read() if os.path.exists(prog) else "?"
            if r is None or p.returncode != 0:
                # the process did not survive (or did not shut down cleanly)
                idx = int(at) if at.isdigit() else len(chunk) - 1
                what = ("process crashed (exit status %s) %s: %s" % (
                    p.returncode, "while running this case" if at.isdigit() else "at interpreter shutdown after this case",
                    (p.stderr or "")[-600:]))
                ctx.violation(chunk[min(idx, len(chunk) - 1)], "foreign-thread callbacks: " + what)
                if r is None:
                    continue
            for c, x in zip(chunk, r["results"]):
                results[id(c)] = x
    coqcases, owner = [], []
    for c in cases:
        r = results.get(id(c))
        if r is None:
            continue
        ctx.count()
        n = c["n"]
        ctx.hist("threads", n)
        model_events = [e for e in c["events"] if e[0] in KIND]
        if r["status"] == "timeout":
            r = None
            s2 = ctx.scratch()
            rr, p = s2.run_worker("c36_worker.py", dict(cases=[c], timeout=60), timeout=600)   # fresh process
            if rr is None or rr["results"][0]["status"] == "timeout":
                ctx.violation(c, "a foreign thread's callback did not run within the timeout (twice, fresh process)")
                continue
            r = rr["results"][0]
        bad = []
        if r["status"] != "ok":
            bad.append(r["status"])
        # the property on the implementation: one token per thread, persistent, never another thread's
        first_of = {}
        for ei, (e, o) in enumerate(zip(model_events, r["obs"])):
            if e[0] in ("nest", "own"):
                tok = o[0] - 1
                if first_of.get(e[1]) != tok:
                    bad.append("thread %d: a callback entered with the GIL held saw thread-local token %d, its other "
                               "callbacks saw %r (thread state not persistent)" % (e[1], tok, first_of.get(e[1])))
            if e[0] == "cb":
                tok = o[0] - 1
                if e[1] in first_of and first_of[e[1]] != tok:
                    bad.append("thread %d saw thread-local token %d, its earlier callbacks saw %d (thread state not "
                               "persistent)" % (e[1], tok, first_of[e[1]]))
                if e[1] not in first_of and tok in first_of.values():
                    bad.append("thread %d saw the thread-local data of another thread (token %d)" % (e[1], tok))
                if e[1] not in first_of:
                    # a registration sweeps the zombies: no exited thread's state may survive it
                    for t in range(n):
                        if t in first_of and any(x[0] == "exit" and x[1] == t for x in model_events[:ei]) \
                                and not any(x[0] == "drop" and x[1] == t for x in model_events[:ei]) \
                                and not o[1 + t]:
                            bad.append("the thread state of exited thread %d is still not destroyed after a later "
                                       "thread registered (leak)" % t)
                first_of.setdefault(e[1], tok)
            for t in range(n):
                if o[1 + t] and not any(x[0] == "exit" and x[1] == t for x in model_events[:ei + 1]):
                    bad.append("thread-local data of thread %d destroyed while the thread is alive" % t)
        if bad:
            ctx.violation(dict(c, observed=r), "foreign-thread callbacks: " + "; ".join(bad[:3]))
            continue
        if n >= 2 and sum(1 for e in model_events if e[0] == "exit") >= 1 and len(model_events) >= 6:
            ctx.nontrivial((n, c["events"]))
        flat = [z for o in r["obs"] for z in o]
        coqcases.append((vlib.cpair(vlib.cnat(n), "[" + ";".join("%d" % (16 * KIND[e[0]] + e[1]) for e in model_events)
                                    + "]%nat"),
                         "(Some (%d%%N, %d%%N))" % (fpn(2305843009213693951, 1000003, flat), fpn(2147483647, 48271, flat))))
        owner.append((c, r, model_events))
    badidx, outs, err = vlib.coq_mismatches(
        ["C36.Model"], "fun x => mrun_code (fst x) (snd x)", "opt_eqb (pair_eqb N.eqb N.eqb)", coqcases, shard=150)
    if err:
        ctx.obligation_broken("C36 model evaluation", err)
    for k, i in enumerate(badidx):
        c, r, mev = owner[i]
        model = ""
        if k < 3:
            ok, out = vlib.coq_eval(["C36.Model"], "Eval vm_compute in (mrun %d init (map decode_mev %s)).\n" % (
                c["n"], "[" + ";".join("%d" % (16 * KIND[e[0]] + e[1]) for e in mev) + "]%nat"))
            model = " ".join(out.split())[:1500]
        ctx.mismatch(dict(c, observed=r), "model mrun: %s ; implementation: %r" % (model, r["obs"]),
                     "C36.Model (macro events) vs misc_thread_common.h thread canaries")
    ctx.extra["traces_validated_against_impl"] = len(owner) - len(badidx)
    for c, r, mev in owner[:3]:
        ctx.sample(dict(c, observations=r["obs"]))


def run(ctx):
    ctx.cov["rule"] = ("random model-valid event sequences over 1-8 foreign pthreads (callbacks that overlap, repeated "
                       "callbacks, exits in any order incl. during other threads' callbacks, threads that never call "
                       "back, threads left alive at interpreter shutdown) with gc.collect() and Python-thread callbacks "
                       "as noise; 6 worker processes, each running many cases and then shutting the interpreter down. "
                       "Non-trivial = at least 2 threads, an exit and 6 events; distinct by (threads, events).")
    ctx.assumptions += [
        "CPython internals are hypotheses: PyGILState_Ensure/Release, PyThreadState_Clear/Delete are modelled only "
        "through gilstate_counter, the thread-state dict and deletion; the 3.12 bound_gilstate workaround "
        "(misc_thread_common.h:172-180) is not modelled (the translator only accepts it as an optional line "
        "between PyThreadState_Clear and PyThreadState_Delete)",
        "allocation failures (ignore_error paths of thread_canary_register) are not modelled",
        "the real interleaving of cffi_thread_shutdown with the sweep's locked regions is covered by the theorems only; "
        "the harness sequences whole callbacks / exits",
        "threading.local data of a foreign thread is released exactly when its thread state is cleared (observed)",
        "regenerated into C36/Gen.v (regex/brace translator over misc_thread_common.h, fail closed): the ring code of "
        "thread_canary_make_zombie / _thread_canary_detach_with_lock (proved to implement append/removal), the locked "
        "regions of cffi_thread_shutdown / thread_canary_dealloc / thread_canary_free_zombies (proved to perform "
        "do_exit's append + tls clear / dealloc's removal + back-pointer clear / the sweep's pop-first on a `ring` "
        "heap), and six facts of gil_ensure / gil_release / thread_canary_register consulted by Model.step_fn",
        "NOT proved: the composition of the per-region heap theorems with the abstract model (a simulation "
        "C36_heap_refines: reach s -> exists h, ring (rp h) (map S (zombies s)) ...); the unlocked fast-path read "
        "of cffi_zombie_head.zombie_next (misc_thread_common.h:150) concurrent with make_zombie is not modelled; "
        "the statements around the locked regions (free(tls), PyObject_Del, Clear-then-Delete) are shape-checked "
        "by the translator (fallback if changed), the rest of gil_ensure's slow path is a hand model",
        "get_cffi_tls() returning NULL (ignore_error path: no canary, thread state not persistent) is not modelled",
        "EvDictDrop (a canary deallocated while its thread lives) is realised in the harness by removing the "
        "'cffi.thread.canary' entry from the thread-state dict through ctypes.pythonapi inside a callback"]
    evaluate(ctx, generate(ctx))


LEVEL = "proof"
MANIFEST = dict(
    technique="Coq proof (inductive invariant over all event orders of the thread-state / canary / zombie-list system; "
              "trace invariant for sweep progress; pointer-level specifications of regenerated code) + model facts and "
              "pointer programs regenerated from misc_thread_common.h on every run (fail closed) "
              "+ differential correspondence with real foreign pthreads",
    text="Partial. Proof: in the model of gil_ensure / thread_canary_register / free_zombies / dealloc / "
         "cffi_thread_shutdown, for every order of callbacks (overlapping), sweep steps, thread exits and finalization over "
         "any number of threads: none of the code's fatal-error conditions fires, a thread state is deleted at most once "
         "and never while its thread is alive, a live foreign thread keeps the same thread state across callbacks, the "
         "zombie list is duplicate-free and holds only allocated canaries of exited threads, no dangling canary pointers, "
         "states of exited threads are destroyed or queued; a first callback is always defined, ends without fatal "
         "error and — when not interrupted — leaves the queue empty (C36_registration_total); under ANY interleaving "
         "every canary queued when a registration starts is freed when its sweep loop has ended "
         "(C36_sweep_frees_initial_zombies; canaries queued by exits after the loop saw the list empty, and states of "
         "threads that exit after the last registration, stay queued until the next registration / finalization: "
         "residual leak, stated and exemplified), also when a canary is deallocated under cffi's feet while its thread "
         "lives (EvDictDrop). Persistence is proved per event (C36_persistent) and over whole executions "
         "(C36_persistent_trace); a completed registration has destroyed the state of every thread that had exited "
         "before it (C36_registration_destroys). "
         "Pointer level: the regenerated ring code of make_zombie / detach implements append / removal on a doubly "
         "linked ring (C36_make_zombie_appends, C36_detach_removes, C36_ring_*), and the regenerated locked regions of "
         "cffi_thread_shutdown / thread_canary_dealloc / thread_canary_free_zombies perform the model's list "
         "operations on such a ring (C36_shutdown_links/_nothing/_twice_fatal, C36_dealloc_unlinks, C36_sweep_pops); "
         "their composition with the abstract model (C36_heap_refines) is NOT proved. "
         "Tie: Gen.v regenerated on every run (ring code, locked regions, six gil_ensure / gil_release / "
         "thread_canary_register facts consulted by Model.step_fn); real pthreads driven through model-chosen event sequences; "
         "threading.local persistence, distinctness, destruction points and process survival compared with the model.",
    note="Trusted: Coq kernel; the regex/brace translator of c36.py; hand model (apart from the regenerated facts and "
         "programs) tied by differential runs of sequential macro events (an exit is never placed inside another "
         "thread's registration by the harness: that interleaving is covered by the theorems only); CPython thread-state internals, pthread TLS "
         "destructor semantics and glibc are hypotheses. Theorems closed under the global context.",
    design_ref="DESIGN.md §4 C36")
