"""C18 — ffi.unpack equals element-wise reading.

Tie: (a) the casenum if-chains and the `switch (casenum)` of b_unpack are regenerated from
src/c/_cffi_backend.c into coq/C18/Gen.v (fail closed) and the theorems are re-proved against them;
(a') the wide-character helpers _my_PyUnicode_FromChar16/32 (and the other functions of
src/c/wchar_helper_3.h) are regenerated into coq/C15/Gen.v (tools/props/c15_regen.py, fail closed: a body
that no longer has the recorded shape is a broken obligation) and the whole-run = unit-by-unit theorems are
re-proved against them;
(b) ffi.unpack(p, n), [p[i] for i in range(n)] and the Coq model are run on the same memory for every
item type x biased-random contents x every start misalignment 0..15 x lengths 0, 1, many, through
pointer cdata and through array cdata (from_buffer); for char16_t / char32_t / wchar_t additionally every
code point with a special meaning to codecs (BOMs, surrogates, limits) alone, at the first / middle / last
position of a run and in every ordered pairing.  The predicate (unpack == joined element-wise reading,
same exception class otherwise) is decided on the implementation for every case, whatever the classes.
"""
import os

from lib import vlib
from props import c15_regen, c18_regen

ID = "C18"

# (ctype, Coq kind, size, alignment) on x86-64 SysV; checked against ffi.sizeof/alignof/signedness
TYPES = [
    ("signed char", "KSigned 1", 1, 1), ("short", "KSigned 2", 2, 2), ("int", "KSigned 4", 4, 4),
    ("long", "KSigned 8", 8, 8), ("long long", "KSigned 8", 8, 8),
    ("unsigned char", "KUnsigned 1", 1, 1), ("unsigned short", "KUnsigned 2", 2, 2),
    ("unsigned int", "KUnsigned 4", 4, 4), ("unsigned long", "KUnsigned 8", 8, 8),
    ("unsigned long long", "KUnsigned 8", 8, 8),
    ("int8_t", "KSigned 1", 1, 1), ("uint8_t", "KUnsigned 1", 1, 1), ("int16_t", "KSigned 2", 2, 2),
    ("uint16_t", "KUnsigned 2", 2, 2), ("int32_t", "KSigned 4", 4, 4), ("uint32_t", "KUnsigned 4", 4, 4),
    ("int64_t", "KSigned 8", 8, 8), ("uint64_t", "KUnsigned 8", 8, 8),
    ("intptr_t", "KSigned 8", 8, 8), ("uintptr_t", "KUnsigned 8", 8, 8), ("size_t", "KUnsigned 8", 8, 8),
    ("ssize_t", "KSigned 8", 8, 8), ("ptrdiff_t", "KSigned 8", 8, 8), ("intmax_t", "KSigned 8", 8, 8),
    ("int_fast16_t", "KSigned 8", 8, 8), ("uint_least32_t", "KUnsigned 4", 4, 4),
    ("_Bool", "KBool", 1, 1),
    ("float", "KFloat 4", 4, 4), ("double", "KFloat 8", 8, 8), ("long double", "KLongDouble", 16, 16),
    ("float _Complex", "KComplex 8", 8, 4), ("double _Complex", "KComplex 16", 16, 8),
    ("char", "KChar 1", 1, 1), ("char16_t", "KChar 2", 2, 2), ("char32_t", "KChar 4", 4, 4),
    ("wchar_t", "KChar 4", 4, 4),
    ("enum e_s", "KSigned 4", 4, 4), ("enum e_u", "KUnsigned 4", 4, 4), ("enum e_l", "KSigned 8", 8, 8),
    ("int *", "KPointer", 8, 8), ("void *", "KPointer", 8, 8), ("char * *", "KPointer", 8, 8),
    ("struct s3 *", "KPointer", 8, 8), ("int(*)(int)", "KPointer", 8, 8),
    ("struct s3", "KAggregate 3", 3, 1), ("struct s8", "KAggregate 8", 8, 4), ("union u4", "KAggregate 4", 4, 4),
    ("int[3]", "KArrayItem 12", 12, 4), ("char[5]", "KArrayItem 5", 5, 1), ("struct s3[2]", "KArrayItem 6", 6, 1),
]
TYPE = {t[0]: t for t in TYPES}
MODEL_SIZES = {"signed char": 1, "short": 2, "int": 4, "long": 8, "long long": 8, "float": 4, "double": 8,
               "long double": 16, "void *": 8}


def regen(ctx):
    # the wide-character helpers (shared with C15; same text from both checks)
    c15_regen.regen_file(vlib, ctx, "C18")
    path = os.path.join(vlib.COQ, "C18", "Gen.v")
    try:
        src = open(os.path.join(vlib.REPO, "src", "c", "_cffi_backend.c")).read()
        text = c18_regen.render(c18_regen.extract(src))
    except (c18_regen.RegenError, OSError) as e:
        ctx.translator("C18/Gen.v", "fallback: %s" % e)
        return
    old = open(path).read() if os.path.exists(path) else None
    if old == text:
        ctx.translator("C18/Gen.v", "unchanged")
    else:
        with vlib.CoqLock():
            with open(path, "w") as f:
                f.write(text)
        ctx.translator("C18/Gen.v", "regenerated")
    # the model is evaluated through Gen.vo (also by --replay, which skips the proof re-check); make
    # rebuilds C15/Gen.vo and C18/Model.vo first when the regenerated helpers changed
    vlib.coq_make(["C18/Gen.vo"])


# ------------------------------------------------------------------------------------------ generator
SPECIAL_F32 = [0x00000000, 0x80000000, 0x3f800000, 0x7f800000, 0xff800000, 0x7fc00000, 0x7f800001, 0xffc12345,
               0x00000001, 0x007fffff, 0x00800000, 0x7f7fffff, 0x80000001, 0x00400000]
SPECIAL_F64 = [0, 1 << 63, 0x3ff0000000000000, 0x7ff0000000000000, 0xfff0000000000000, 0x7ff8000000000000,
               0x7ff0000000000001, 1, 0x000fffffffffffff, 0x0010000000000000, 0x7fefffffffffffff]


def rand_item(rng, ctype, kind, size):
    r = rng.random()
    if kind == "KBool":
        return bytes([rng.choice([0, 1, 0, 1, 0, 1, 0, 1, 1, 0, 1, 0, 2, 255, 128]) if r < 0.25
                      else rng.choice([0, 1])])
    if kind.startswith(("KSigned", "KUnsigned", "KPointer")):
        if r < 0.5:
            v = rng.choice([0, 1, (1 << (8 * size - 1)) - 1, 1 << (8 * size - 1), (1 << (8 * size)) - 1,
                            (1 << (8 * size)) - 2, (1 << (8 * size - 1)) + 1, 0x80, 0xFF, 0x7F, 0x8000, 0xFFFF,
                            0x80000000 % (1 << (8 * size)), 0xFFFFFFFF % (1 << (8 * size))])
            return (v % (1 << (8 * size))).to_bytes(size, "little")
    if kind == "KFloat 4" and r < 0.5:
        return rng.choice(SPECIAL_F32).to_bytes(4, "little")
    if kind == "KFloat 8" and r < 0.5:
        return rng.choice(SPECIAL_F64).to_bytes(8, "little")
    if kind == "KComplex 8" and r < 0.5:
        return rng.choice(SPECIAL_F32).to_bytes(4, "little") + rng.choice(SPECIAL_F32).to_bytes(4, "little")
    if kind == "KComplex 16" and r < 0.5:
        return rng.choice(SPECIAL_F64).to_bytes(8, "little") + rng.choice(SPECIAL_F64).to_bytes(8, "little")
    if kind == "KLongDouble":
        # a valid x87 extended value (explicit integer bit consistent with the exponent) + 6 padding bytes
        e = rng.choice([0, 1, 0x3fff, 0x7ffe, 0x7fff, rng.randrange(0x8000)])
        frac = rng.getrandbits(63) if r < 0.7 else rng.choice([0, 1, (1 << 63) - 1, 1 << 62])
        if e == 0x7fff and frac != 0:
            frac |= 1 << 62                      # quiet NaNs only
        mant = frac | ((1 << 63) if e != 0 else 0)
        se = e | (rng.getrandbits(1) << 15)
        return mant.to_bytes(8, "little") + se.to_bytes(2, "little") + bytes(rng.getrandbits(8) for _ in range(6))
    if kind == "KChar 2":
        if r < 0.6:
            u = rng.choice([0xD800, 0xDBFF, 0xDC00, 0xDFFF, 0xD7FF, 0xE000, 0, 0x41, 0xFFFF, 0xD83D, 0xDE00,
                            0xFEFF, 0xFFFE])
            return u.to_bytes(2, "little")
    if kind == "KChar 4":
        if r < 0.6:
            u = rng.choice([0, 0x41, 0xD800, 0xDBFF, 0xDC00, 0xDFFF, 0xFFFF, 0x10000, 0x10FFFF, 0x1F600, 0xE9,
                            0x100, 0xFEFF, 0xFFFE] +
                           ([0x110000, 0xFFFFFFFF, 0x80000000, 0xFFFE0000] if r < 0.08 else []))
            return u.to_bytes(4, "little")
        if r < 0.9:
            return rng.randrange(0x110000).to_bytes(4, "little")
    return bytes(rng.getrandbits(8) for _ in range(size))


def gen_case(rng, ctype, n=None, k=None, mode=None):
    _, kind, size, align = TYPE[ctype]
    if n is None:
        n = rng.choice([0, 1, 1, 2, 3, 5, 8, 17])
    if k is None:
        k = rng.choice([0, 0, align, 2 * align, rng.randrange(16), rng.randrange(16), 1, 3])
    if mode is None:
        mode = "array" if rng.random() < 0.25 else "ptr"
    content = b"".join(rand_item(rng, ctype, kind, size) for _ in range(n))
    content += bytes(rng.getrandbits(8) for _ in range(rng.choice([0, 1, 5])))     # memory after the items
    return dict(ctype=ctype, k=k, n=n, mode=mode, content=content.hex())


# code points with a special meaning to codecs (byte-order marks in both byte orders, the surrogate range
# limits, the last BMP / first astral / last code point, the first value that is no code point, all-ones)
W32 = [0, 0xFEFF, 0xFFFE, 0xFFFE0000, 0xD800, 0xDBFF, 0xDC00, 0xDFFF, 0xFFFF, 0x10000, 0x10FFFF, 0x110000,
       0xFFFFFFFF]
W16 = [0, 0xFEFF, 0xFFFE, 0xD800, 0xDBFF, 0xDC00, 0xDFFF, 0xFFFF]


def wide_runs(specials):
    """each special alone, at the first / middle / last position of a run; every ordered pair of specials
    alone and inside a run"""
    a, b = 0x41, 0x42
    runs = []
    for s in specials:
        runs += [[s], [s, a, b], [a, s, b], [a, b, s]]
    for s1 in specials:
        for s2 in specials:
            runs += [[s1, s2], [a, s1, s2, b]]
    return runs


def wide_cases():
    cases = []
    for ctype, size, specials in (("char32_t", 4, W32), ("wchar_t", 4, W32), ("char16_t", 2, W16)):
        for j, run in enumerate(wide_runs(specials)):
            content = b"".join(u.to_bytes(size, "little") for u in run) + b"\x5a" * (j % 3)
            cases.append(dict(ctype=ctype, k=(0, size, 1, 0, 8)[j % 5], n=len(run),
                              mode="array" if j % 7 == 3 else "ptr", content=content.hex()))
    return cases


def generate(ctx):
    rng = ctx.rng
    big = ctx.tier_search == "thorough"
    cases = []
    # systematic: every type x every misalignment 0..15 (n = 3), n in (0, 1) aligned and misaligned, arrays
    for t in TYPES:
        for k in range(16):
            for n in ((0, 1, 4) if big else (3,)):
                cases.append(gen_case(rng, t[0], n=n, k=k, mode="ptr"))
        for k in (0, 1):
            for n in (0, 1):
                cases.append(gen_case(rng, t[0], n=n, k=k, mode="ptr"))
        for k in (0, 1, 4, 8) if big else (0, 3):
            cases.append(gen_case(rng, t[0], n=3, k=k, mode="array"))
    # the witnesses named in the design
    cases.append(dict(ctype="char16_t", k=0, n=2, mode="ptr", content="3dd800de"))
    cases.append(dict(ctype="_Bool", k=0, n=4, mode="ptr", content="00010201"))
    cases.append(dict(ctype="short", k=0, n=2, mode="ptr", content="feff0180"))
    cases += wide_cases()
    groups = {}
    for t in TYPES:
        groups.setdefault(t[1].split()[0], []).append(t[0])
    gnames = sorted(groups)
    for _ in range(1200 if not big else 6000):
        g = rng.choice(gnames + ["KBool", "KChar", "KSigned", "KUnsigned", "KFloat"])
        cases.append(gen_case(rng, rng.choice(groups[g])))
    return cases


# ------------------------------------------------------------------------------------------ evaluation
def zl(xs):
    return "[" + ";".join("%d" % x for x in xs) + "]"


def lit_item(x):
    tag = x[0]
    if tag == "i":
        return "VInt (%d)" % x[1]
    if tag == "b":
        return "VBool %s" % ("true" if x[1] else "false")
    if tag == "f":
        return "VFloat %d" % x[1]
    if tag == "ld":
        return "VLongDouble %s" % zl(x[1])
    if tag == "c":
        return "VComplex %d %d" % (x[1], x[2])
    if tag == "p":
        return "VPtr %d" % x[1]
    if tag == "v":
        return "VView (%d)" % x[1]
    return None


def lit_result(r):
    tag = r[0]
    if tag == "list":
        items = [lit_item(x) for x in r[1]]
        if any(i is None for i in items):
            return None
        return "RList [" + "; ".join(items) + "]"
    if tag == "bytes":
        return "RBytes " + zl(r[1])
    if tag == "str":
        return "RStr " + zl(r[1])
    if tag == "err":
        # the predicate (same class on both sides) was decided on the implementation; for the comparison with
        # the model every class the model does not name is OtherException (which no model function returns)
        e = r[1]
        if e in ("ValueError", "TypeError", "SystemError", "RuntimeError", "IndexError"):
            return "RErr " + e
        return "RErr OtherException"
    return None


def units16(case):
    b = bytes.fromhex(case["content"])
    return [int.from_bytes(b[2 * i:2 * i + 2], "little") for i in range(case["n"])]


def has_pair(us):
    return any(0xD800 <= a <= 0xDBFF and 0xDC00 <= b <= 0xDFFF for a, b in zip(us, us[1:]))


def utf16(cps):
    out = []
    for c in cps:
        if c > 0xFFFF:
            c -= 0x10000
            out += [0xD800 + (c >> 10), 0xDC00 + (c & 0x3FF)]
        else:
            out.append(c)
    return out


def finding_key(case, res):
    """char16_pair: item type char16_t, the n units contain a high surrogate immediately followed by a low
    one, and the two results are the same UTF-16 text."""
    if case["ctype"] == "char16_t" and has_pair(units16(case)):
        u, e = res["unpack"], res["elementwise"]
        if u[0] == "str" and e[0] == "str" and utf16(u[1]) == utf16(e[1]) == units16(case):
            return "char16_pair"
    return None


def evaluate(ctx, cases):
    s = ctx.scratch()
    out, p = s.run_worker("c18_worker.py", dict(cases=cases, types=[t[0] for t in TYPES]), timeout=1200)
    if out is None:
        ctx.violation(cases[0], "C18 worker crashed (rc=%s): %s" % (p.returncode, (p.stderr or p.stdout)[-1500:]))
        return
    # platform facts assumed by the model
    for name, sz in MODEL_SIZES.items():
        if out["sizes"].get(name) != sz:
            ctx.obligation_broken("C18 platform: sizeof(%s) is %s, model says %d" % (name, out["sizes"].get(name), sz))
    for name, kind, size, align in TYPES:
        d = out["types"][name]
        want_signed = True if kind.startswith("KSigned") else False if kind.startswith(("KUnsigned", "KBool")) else None
        if d["size"] != size or d["align"] != align or (want_signed is not None and d.get("signed") != want_signed):
            ctx.obligation_broken("C18 type table: %s is %r, harness says %s size %d align %d"
                                  % (name, d, kind, size, align))
    coqcases, owner = [], []
    for c, r in zip(cases, out["results"]):
        ctx.count()
        _, kind, size, align = TYPE[c["ctype"]]
        if "error" in r:
            ctx.violation(c, "harness could not run the case: " + r["error"])
            continue
        ctx.hist("kind", kind.split()[0])
        ctx.hist("n", min(c["n"], 9))
        ctx.hist("misaligned", (c["k"] % align) != 0)
        ctx.hist("outcome", r["unpack"][0] if r["unpack"][0] != "err" else r["unpack"][1])
        # the property predicate on the implementation
        if r["unpack"] != r["elementwise"]:
            ctx.violation(c, "ffi.unpack(<%s> at misalignment %d, %d) = %r but element-wise reading gives %r"
                          % (c["ctype"], c["k"], c["n"], r["unpack"], r["elementwise"]), finding_key(c, r))
        if c["n"] > 0:
            ctx.nontrivial((c["ctype"], c["k"] % 16, c["n"], c["content"]))
        lu, le = lit_result(r["unpack"]), lit_result(r["elementwise"])
        if lu is None or le is None:
            ctx.mismatch(c, "result outside the model's vocabulary: %r / %r" % (r["unpack"], r["elementwise"]),
                         "C18.Model.unpack vs ffi.unpack")
            continue
        content = bytes.fromhex(c["content"])
        inp = "(%s, %d, %d, %s, %d)" % (kind, align, 4096 + c["k"], zl(content), c["n"])
        coqcases.append((inp, "(%s, %s)" % (lu, le)))
        owner.append(c)
    bad, outs, err = vlib.coq_mismatches(
        ["C18.Model", "C18.Gen"],
        "fun c => match c with (k, al, a, bs, n) => (unpack gen_tables k al a bs n, joined k (elementwise k a bs n)) end",
        "pair_eqb result_eqb result_eqb", coqcases, prelude="Open Scope Z_scope.")
    if err:
        ctx.obligation_broken("C18 model evaluation", err)
    for i in bad:
        ctx.mismatch(owner[i], "model (unpack, elementwise) = %s, implementation = %s" % (outs.get(i), coqcases[i][1]),
                     "C18.Model.unpack/elementwise vs ffi.unpack/p[i]")
    for c in cases[:3]:
        ctx.sample(c)


def run(ctx):
    ctx.cov["rule"] = ("every item type of TYPES (all integer widths and signednesses, _Bool, float/double/long double, "
                       "complex, char/char16_t/char32_t/wchar_t, enums, data/function pointers, struct/union/array items) "
                       "x start misalignment 0..15 x n in {0,1,3,4} systematically; char32_t, wchar_t, char16_t: every "
                       "code point special to codecs (0, U+FEFF, U+FFFE, 0xFFFE0000, D800/DBFF/DC00/DFFF, U+FFFF, "
                       "U+10000, U+10FFFF, 0x110000, 0xFFFFFFFF) as a single-element run, at the first / middle / last "
                       "position of a 3-run, and every ordered pair of them alone and inside a 4-run; then random (type, "
                       "misalignment, n<=17, pointer or from_buffer array cdata) with contents biased to boundary "
                       "patterns (sign bits, _Bool bytes other than 0/1, NaN/denormal, surrogates, BOMs, code points > "
                       "0x10FFFF). Each case: ffi.unpack vs joined [p[i]...] on the implementation, values or exception "
                       "CLASS, any class (the predicate), and both vs the Coq model (classes the model does not name "
                       "are compared as OtherException). Non-trivial = n > 0; distinct by (type, misalignment, n, content).")
    ctx.assumptions += [
        "hand-written model C18/Model.v of convert_to_object, cdata indexing and the b_unpack loop; tied by this run's "
        "differential test; the fast-path tables C18/Gen.v are regenerated from the source (c18_regen.py, trusted)",
        "the wide-character helpers (C15/Gen.v) are regenerated from src/c/wchar_helper_3.h by c15_regen.py (trusted: token "
        "templates of the recorded control structure + a C-expression translator; any other shape is a broken obligation)",
        "x86-64 SysV sizes and little-endian layout (sizes compared with ffi.sizeof in this run)",
        "float->double widening as implemented by the CPU (model f32_to_f64 compared on special and random patterns)",
        "CPython (C15/Spec.v): PyUnicode_FromKindAndData builds a str with exactly the given items (no BOM / surrogate "
        "interpretation) and refuses code points > 0x10FFFF with SystemError; PyUnicode_New + item-wise fill; tied by "
        "the differential run on the codec-special code points"]
    evaluate(ctx, generate(ctx))


MANIFEST = dict(
    technique="Coq proof over a model whose fast-path tables (b_unpack) and wide-character helpers (wchar_helper_3.h) are "
              "regenerated from the C source + differential correspondence (unpack vs element-wise vs model) over all "
              "item types, misalignments, lengths and codec-special wide-character contents",
    text="Proof: for every item kind the backend can create (all but char16_t), every alignment, start address, memory "
         "content and n, the model of ffi.unpack returns exactly the joined element-wise reading, exceptions included "
         "(C18_unpack_elementwise, C18_unpack_error_is_first); the casenum chains and switch cases are regenerated from "
         "the C source on every run and must pass the decidable check tables_ok. Wide characters, on the regenerated "
         "_my_PyUnicode_FromChar32/16, for ALL unit lists: char32_t/wchar_t whole-run conversion = concatenation of the "
         "per-unit conversions, the identity on code units, SystemError exactly on a unit > 0x10FFFF "
         "(C18_char32_whole_is_elementwise, _identity, _ok, _error); char16_t whole-run and per-unit conversion differ "
         "exactly when a high surrogate is immediately followed by a low one (C18_char16_whole_vs_elementwise, "
         "C18_char16_differs_iff_adjacent_pair, C18_char16_unpack_iff; known finding char16_pair), are always the same "
         "UTF-16 text, and the str allocated by the helper is filled exactly (C18_char16_allocation_exact). Run: the "
         "predicate is decided on the implementation for every case, incl. every codec-special code point in every "
         "position and pairing.",
    note="Trusted: Coq kernel; hand model C18/Model.v (tied by differential testing); c18_regen.py and c15_regen.py "
         "(fail closed); x86-64 layout; CPU float widening; CPython unicode constructors as specified in C15/Spec.v. "
         "Theorems closed under the global context.",
    design_ref="DESIGN.md §4 C18")
