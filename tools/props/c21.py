"""C21 — ownership, destructors and handles behave correctly over any history.

Proof: coq/C21 (an invariant of every reachable state of the object-table model, by induction
over ALL histories, deallocation of any garbage set allowed at any moment).
Tie: (1) regenerated — C21/Gen.v is rewritten from _cffi_backend.c on every run (tp_traverse lists, statement
order of cdatagcp_finalize, release table, ...; see c21_regen.py) and the model's edges / finalisation / release
dispatch are defined from it; (2) correspondence — random histories executed on the real cffi with gc.collect() after every
operation (reference cycles through Python objects and through destructor closures included);
after every step the liveness of every object (weakrefs), every destructor/free call counter
and the resize lock of every buffer source are compared with the model's prediction, and the
property is decided on the implementation's own observations.
"""
from lib import vlib
from lib.vlib import cnat, cbool, clist, copt

import os
import re

from props import c21_regen

ID = "C21"
GEN = os.path.join(vlib.COQ, "C21", "Gen.v")


class Untranslatable(Exception):
    pass


def newp_fail_decref(src):
    """direct_newp: after the cdata exists, is the failing `convert_from_object(cd->c_data, ...)` followed
    by Py_DECREF(cd) before `return NULL`?  (the statement(s) controlled by that `if`)"""
    m = re.search(r"^static PyObject \*direct_newp\(.*?^\}", src, re.M | re.S)
    if not m:
        raise Untranslatable("direct_newp not found")
    body = re.sub(r"/\*.*?\*/", " ", m.group(0), flags=re.S)
    hits = list(re.finditer(r"if \(convert_from_object\(cd->c_data,", body))
    if len(hits) != 1:
        raise Untranslatable("direct_newp: %d calls of convert_from_object(cd->c_data, ...)" % len(hits))
    i, depth = hits[0].end(), 1
    while depth:                       # end of the condition
        depth += {"(": 1, ")": -1}.get(body[i], 0)
        i += 1
    if depth:
        raise Untranslatable("direct_newp: condition of the if")
    rest = body[i:].lstrip()
    if not rest.startswith("< 0)"):
        raise Untranslatable("direct_newp: expected '< 0)' after convert_from_object(...)")
    rest = rest[4:].lstrip()
    if rest.startswith("{"):
        end = rest.index("}")
        controlled = rest[1:end]
    else:
        controlled = rest[:rest.index(";") + 1]
    if "return NULL;" not in controlled:
        raise Untranslatable("direct_newp: the failed conversion does not return NULL")
    before_return = controlled[:controlled.index("return NULL;")]
    if before_return.strip() not in ("", "Py_DECREF(cd);"):
        raise Untranslatable("direct_newp: unexpected statements on the error path: %r" % before_return)
    return "Py_DECREF(cd);" in before_return


def translate_gen():
    """error paths of direct_from_buffer: (tag, after PyObject_GetBuffer succeeded, label releases)"""
    src = open(os.path.join(vlib.REPO, "src", "c", "_cffi_backend.c")).read()
    m = re.search(r"^static PyObject \*direct_from_buffer\(.*?^\}", src, re.M | re.S)
    if not m:
        raise Untranslatable("direct_from_buffer not found")
    body = re.sub(r"/\*.*?\*/", " ", m.group(0), flags=re.S)
    g = re.search(r"if \(_my_PyObject_GetContiguousBuffer\(x, view, require_writable\) < 0\)\s*goto (error\d);", body)
    if not g:
        raise Untranslatable("call of _my_PyObject_GetContiguousBuffer")
    labels = re.search(r"\n error2:\s*(.*?)\n error1:\s*(.*?)return NULL;", body, re.S)
    if not labels:
        raise Untranslatable("labels error2 / error1")
    releases = {"error2": "PyBuffer_Release(view)" in labels.group(1) or "PyBuffer_Release(view)" in labels.group(2),
                "error1": "PyBuffer_Release(view)" in labels.group(2)}
    if "PyObject_Free(view)" not in labels.group(2):
        raise Untranslatable("error1 does not free the view")
    paths = [(0, False, releases[g.group(1)])]
    for mm in re.finditer(r"goto (error\d);", body):
        if mm.start() <= g.end():
            continue
        before = body[max(0, mm.start() - 600):mm.start()]
        marks = {1: before.rfind("buffer is too small"), 2: before.rfind("cannot be computed"),
                 3: max((x.end() for x in re.finditer(r"if \(cd == NULL\)", before)), default=-1)}
        tag = max(marks, key=lambda t: marks[t])
        if marks[tag] < 0:
            raise Untranslatable("unclassified failure path before %r" % mm.group(0))
        if mm.group(1) not in releases:
            raise Untranslatable("unknown label " + mm.group(1))
        paths.append((tag, True, releases[mm.group(1)]))
    if sorted(t for t, _, _ in paths) != [0, 1, 2, 3]:
        raise Untranslatable("failure paths found: %r" % (paths,))
    decref = newp_fail_decref(src)
    return ("""(* C21/Gen.v — REGENERATED on every run by tools/props/c21.py:regen from
     /repo/src/c/_cffi_backend.c   (direct_from_buffer: every `goto errorN`, whether it is taken after
                                    PyObject_GetBuffer succeeded, and whether label errorN passes
                                    PyBuffer_Release(view); direct_newp: the DECREF on the failure path;
                                    and, by tools/props/c21_regen.py, the Py_VISIT lists of the three
                                    tp_traverse functions, the statement order of cdatagcp_finalize,
                                    gcp_finalize, cdatagcp_dealloc, the None branch of b_gcp,
                                    explicit_release_case and the switch of cdata_exit)
   Do not edit: this committed copy is the snapshot of the unchanged tree. *)
From Coq Require Import List.
Import ListNotations.

(* (tag, taken after the buffer was obtained, the label releases the buffer)
   tags: 0 = PyObject_GetBuffer / contiguity failed, 1 = buffer too small, 2 = item size 0, 3 = no memory for the cdata *)
Definition gen_frombuf_paths : list (nat * bool * bool) :=
  [%s].

(* direct_newp: the error path after a failed initializer conversion releases the freshly made
   cdata (`if (convert_from_object(...) < 0) { Py_DECREF(cd); return NULL; }`) *)
Definition gen_newp_fail_decref : bool := %s.
""" % ("; ".join("(%d, %s, %s)" % (t, cbool(a), cbool(r)) for t, a, r in paths), cbool(decref))
            + c21_regen.translate(src))


def regen(ctx):
    try:
        text = translate_gen()
    except (Untranslatable, c21_regen.Untranslatable, OSError) as e:
        # fail closed: the committed snapshot stays in place so that the Coq files still build, but the
        # facts it states are NOT those of this source tree any more - that is a broken obligation
        ctx.translator("C21/Gen.v", "fallback: %s" % e)
        ctx.obligation_broken("C21/Gen.v: the source no longer has the shape the translator understands",
                              "%s\n(the theorems were re-checked against the snapshot of the unchanged tree only)" % e)
        return
    old = open(GEN).read() if os.path.exists(GEN) else None
    if old == text:
        ctx.translator("C21/Gen.v", "unchanged")
    else:
        with vlib.CoqLock():
            with open(GEN, "w") as f:
                f.write(text)
        ctx.translator("C21/Gen.v", "regenerated")

CREATORS = {"ONew": ["KOwn"], "ONewStruct": ["KOwn", "KStructPtr"], "OAllocNew": ["KRaw", "KGcp"],
            "OAllocNewStruct": ["KRaw", "KGcp", "KStructPtr"], "ONewPy": ["KPy"]}


class Mirror:
    """what the program holds (variables per object) and what kind each object is — all that is
    needed to generate well-formed operations and to know which operations take effect"""

    def __init__(self):
        self.kind, self.roots = [], []
        self.struct_of, self.handle_x, self.src_of = {}, {}, {}
        self.addr = 0

    def usable(self, i):
        return 0 <= i < len(self.kind) and self.roots[i] > 0

    def new(self, kind, roots):
        self.kind.append(kind)
        self.roots.append(roots)
        return len(self.kind) - 1

    def fresh_addr(self):
        self.addr += 1
        return self.addr

    def apply(self, op):
        """returns the list of ids created and whether the op took effect"""
        t = op[0]
        if t == "ONew":
            return [self.new("KOwn", 1)], True
        if t == "ONewStruct":
            st = self.new("KOwn", 0)
            p = self.new("KStructPtr", 1)
            self.struct_of[p] = st
            return [st, p], True
        if t == "OAllocNew":
            return [self.new("KRaw", 0), self.new("KGcp", 1)], True
        if t == "OAllocNewStruct":
            r = self.new("KRaw", 0)
            g = self.new("KGcp", 0)
            p = self.new("KStructPtr", 1)
            self.struct_of[p] = g
            return [r, g, p], True
        if t == "ONewFail":
            return [], False
        if t == "OAllocNewFail":
            return [self.new("KRaw", 0), self.new("KGcp", 0)], True
        if t == "OAlias":
            if self.usable(op[1]) and self.kind[op[1]] == "KStructPtr":
                self.roots[self.struct_of[op[1]]] += 1
                return [], True
            return [], False
        if t == "OGc":
            p, y = op[1], op[3]
            if self.usable(p) and (y is None or (self.usable(y) and self.kind[y] == "KPy")):
                return [self.new("KGcp", 1)], True
            return [], False
        if t in ("OGcNone", "ORelease"):
            return [], self.usable(op[1])
        if t == "OHold":
            if self.usable(op[1]):
                self.roots[op[1]] += 1
                return [], True
            return [], False
        if t == "ODrop":
            if self.usable(op[1]):
                self.roots[op[1]] -= 1
                return [], True
            return [], False
        if t == "ONewPy":
            return [self.new("KPy", 1)], True
        if t == "OSetRef":
            return [], self.usable(op[1]) and self.usable(op[2]) and self.kind[op[1]] == "KPy"
        if t == "OFromBuffer":
            if self.usable(op[1]) and self.kind[op[1]] == "KPy":
                f = self.new("KFromBuf", 1)
                self.src_of[f] = op[1]
                return [f], True
            return [], False
        if t == "OFromBufferFail":
            return [], False
        if t == "ONewHandle":
            if self.usable(op[1]):
                h = self.new("KHandle", 1)
                self.handle_x[h] = op[1]
                return [h], True
            return [], False
        if t == "OFromHandle":
            if self.usable(op[1]) and self.kind[op[1]] == "KHandle":
                self.roots[self.handle_x[op[1]]] += 1
                return [], True
            return [], False
        return [], True


def gen_history(rng, length, template=None):
    m = Mirror()
    ops = []

    def held(kinds=None):
        return [i for i in range(len(m.kind)) if m.roots[i] > 0 and (kinds is None or m.kind[i] in kinds)]
    cdata = ["KOwn", "KStructPtr", "KGcp", "KFromBuf", "KHandle"]
    for _ in range(length):
        r = rng.random()
        h = held()
        op = None
        if not h or r < 0.22:
            t = rng.choice(["ONew", "ONewStruct", "ONewStruct", "OAllocNew", "OAllocNewStruct", "ONewPy", "ONewPy"])
            if t == "ONew":
                op = [t, m.fresh_addr()]
            elif t == "ONewStruct":
                op = [t, m.fresh_addr(), m.fresh_addr()]
            elif t == "OAllocNew":
                op = [t, m.fresh_addr(), m.fresh_addr(), rng.random() < 0.8]
            elif t == "OAllocNewStruct":
                op = [t, m.fresh_addr(), m.fresh_addr(), m.fresh_addr(), rng.random() < 0.8]
            else:
                op = [t, m.fresh_addr()]
        elif r < 0.245:
            if rng.random() < 0.3:
                op = ["ONewFail", rng.randrange(5)]
            else:
                op = ["OAllocNewFail", m.fresh_addr(), m.fresh_addr(), rng.random() < 0.8, rng.randrange(6)]
        elif r < 0.34:
            c = held(cdata)
            if c:
                ys = held(["KPy"])
                y = rng.choice(ys) if ys and rng.random() < 0.5 else None
                # the destructor may act on its own wrapper while it runs: 1 = ffi.release(w), 2 = ffi.gc(w, None)
                op = ["OGc", rng.choice(c), m.fresh_addr(), y, rng.choice([0, 0, 0, 1, 2])]
        elif r < 0.40:
            op = ["OGcNone", rng.choice(held(["KGcp"]) or h)]
        elif r < 0.52:
            op = ["ORelease", rng.choice(h), rng.random() < 0.4]
        elif r < 0.57:
            op = ["OAlias", rng.choice(held(["KStructPtr"]) or h)]
        elif r < 0.62:
            op = ["OHold", rng.choice(h)]
        elif r < 0.80:
            op = ["ODrop", rng.choice(h)]
        elif r < 0.86:
            xs = held(["KPy"])
            if xs:
                op = ["OSetRef", rng.choice(xs), rng.choice(h)]
        elif r < 0.92:
            xs = held(["KPy"])
            if xs:
                op = ["OFromBuffer", rng.choice(xs), m.fresh_addr()]
        elif r < 0.935:
            xs = held(["KPy"])
            if xs:
                tag = rng.choice([0, 1, 1])
                op = ["OFromBufferFail", rng.choice(xs), tag, rng.randrange(2 if tag == 1 else 3)]
        elif r < 0.96:
            op = ["ONewHandle", rng.choice(h), m.fresh_addr()]
        else:
            op = ["OFromHandle", rng.choice(held(["KHandle"]) or h)]
        if op is None:
            op = ["ODrop", rng.choice(h)]
        m.apply(op)
        ops.append(op)
    if template:
        for op in cycle_template(rng, m, template):
            m.apply(op)
            ops.append(op)
    # let go of everything: the end state shows leaks and missing destructor calls
    for i in range(len(m.kind)):
        while m.roots[i] > 0:
            ops.append(["ODrop", i])
            m.apply(ops[-1])
    return ops


TEMPLATES = ["handle", "inner-gc", "frombuf", "handle-live-dtor", "inner-gc-released", "two-wrappers",
             "frombuf-fail", "new-fail", "reentrant", "release-errors"]


def cycle_template(rng, m, name):
    """reference cycles whose only way round goes through the origobj edge of an ffi.gc wrapper W
    (W.origobj -> ... -> Python object y -> W), with W's destructor removed by gc(W, None), still
    installed, or W released: the collector must see the edge W -> origobj whatever the state of
    the destructor slot (cdatagcp_traverse)"""
    base = len(m.kind)
    y = base
    ops = [["ONewPy", m.fresh_addr()]]
    if name == "reentrant":
        # destructors that release / cancel their own wrapper while they run: released once or twice, through
        # with or ffi.release, then dropped; one wrapper only dropped (the weak reference is dead by then)
        n = base
        ops = [["ONew", m.fresh_addr()]]
        for j, re in enumerate([1, 2, 1, 2]):
            w = base + 1 + j
            ops.append(["OGc", n, m.fresh_addr(), None, re])
            if j < 3:
                ops.append(["ORelease", w, rng.random() < 0.5])
            if j == 0:
                ops.append(["ORelease", w, rng.random() < 0.5])
            if j == 1:
                ops.append(["OGcNone", w])
        tail = list(range(base, base + 5))
        rng.shuffle(tail)
        return ops + [["ODrop", i] for i in tail]
    if name == "release-errors":
        # every kind under ffi.release / with, and gc(x, None) on every kind: ValueError for the struct object
        # p[0] and a handle, TypeError for a non-cdata, nothing changes
        st, p, h, f, a, w = base + 1, base + 2, base + 3, base + 4, base + 5, base + 6
        ops += [["ONewStruct", m.fresh_addr(), m.fresh_addr()], ["OAlias", p], ["ONewHandle", y, m.fresh_addr()],
                ["OFromBuffer", y, m.fresh_addr()], ["ONew", m.fresh_addr()], ["OGc", a, m.fresh_addr(), None, 0]]
        todo = [["ORelease", i, v] for i in (y, st, p, h, a) for v in (False, True)] + \
               [["OGcNone", i] for i in (y, st, p, h, f, a)]
        rng.shuffle(todo)
        ops += todo + [["ORelease", f, rng.random() < 0.5], ["OGcNone", w], ["ORelease", w, False]]
        tail = [y, st, p, h, f, a, w]
        rng.shuffle(tail)
        return ops + [["ODrop", i] for i in tail]
    if name == "new-fail":
        # rejected initialisers, every variant, with and without a free function, around a live allocation
        ops = [["OAllocNew", m.fresh_addr(), m.fresh_addr(), True]]
        for v in range(6):
            ops.append(["OAllocNewFail", m.fresh_addr(), m.fresh_addr(), v != 4, v])
        for v in range(5):
            ops.append(["ONewFail", v])
        ops.append(["ODrop", base + 1])
        return ops
    if name == "frombuf-fail":
        # failing from_buffer calls before, between and after successful ones on the same source
        f1, f2 = base + 1, base + 2
        fails = [["OFromBufferFail", y, 1, 0], ["OFromBufferFail", y, 1, 1], ["OFromBufferFail", y, 0, 0],
                 ["OFromBufferFail", y, 0, 1], ["OFromBufferFail", y, 0, 2]]
        rng.shuffle(fails)
        ops += [fails[0], ["OFromBuffer", y, m.fresh_addr()], fails[1], ["OFromBuffer", y, m.fresh_addr()], fails[2],
                ["ORelease", f1, rng.random() < 0.5], fails[3], ["ODrop", f2], fails[4], ["ODrop", f1], ["ODrop", y]]
        return ops
    if name in ("handle", "handle-live-dtor"):
        h, w = base + 1, base + 2
        ops += [["ONewHandle", y, m.fresh_addr()], ["OGc", h, m.fresh_addr(), None]]
        if name == "handle":
            ops.append(["OGcNone", w])
        ops.append(["OSetRef", y, w])
    elif name in ("inner-gc", "inner-gc-released"):
        n, inner, w = base + 1, base + 2, base + 3
        ops += [["ONew", m.fresh_addr()], ["OGc", n, m.fresh_addr(), y], ["OGc", inner, m.fresh_addr(), None]]
        ops.append(["OGcNone", w] if name == "inner-gc" else ["ORelease", w, rng.random() < 0.5])
        ops.append(["OSetRef", y, w])
    elif name == "frombuf":
        f, w = base + 1, base + 2
        ops += [["OFromBuffer", y, m.fresh_addr()], ["OGc", f, m.fresh_addr(), None], ["OGcNone", w],
                ["OSetRef", y, w]]
    elif name == "two-wrappers":
        # W2 -> W1 -> handle -> y -> W2, both destructors removed
        h, w1, w2 = base + 1, base + 2, base + 3
        ops += [["ONewHandle", y, m.fresh_addr()], ["OGc", h, m.fresh_addr(), None], ["OGc", w1, m.fresh_addr(), None],
                ["OGcNone", w1], ["OGcNone", w2], ["OSetRef", y, w2]]
    ncreated = len([o for o in ops if o[0] in ("ONewPy", "ONew", "ONewHandle", "OGc", "OFromBuffer")])
    members = list(range(base, base + ncreated))
    rng.shuffle(members)
    for i in members:
        if rng.random() < 0.2:
            ops += [["OHold", i], ["ODrop", i]]
        ops.append(["ODrop", i])
    return ops


def generate(ctx):
    rng = ctx.rng
    out = []
    for i in range(ctx.n(70, 450)):
        out.append(dict(kind="history", ops=gen_history(rng, rng.choice([4, 8, 12, 16, 24]))))
    # directed: cycles through the origobj edge of a wrapper (after a random prefix)
    for i in range(ctx.n(20, 120)):
        out.append(dict(kind="history", template=TEMPLATES[i % len(TEMPLATES)],
                        ops=gen_history(rng, rng.choice([0, 0, 2, 5, 9]), TEMPLATES[i % len(TEMPLATES)])))
    return out


# ------------------------------------------------------------------------------- Coq literals
def op_literal(op):
    t = op[0]
    if t in ("ONew", "ONewPy"):
        return "%s %d" % (t, op[1])
    if t == "ONewStruct":
        return "ONewStruct %d %d" % (op[1], op[2])
    if t == "OAllocNew":
        return "OAllocNew %d %d %s" % (op[1], op[2], cbool(op[3]))
    if t == "OAllocNewStruct":
        return "OAllocNewStruct %d %d %d %s" % (op[1], op[2], op[3], cbool(op[4]))
    if t == "OGc":
        return "OGc %d %d %s" % (op[1], op[2], "None" if op[3] is None else "(Some %d)" % op[3])
    if t == "ORelease":
        return "ORelease %d" % op[1]
    if t in ("OAlias", "OGcNone", "OHold", "ODrop", "OFromHandle"):
        return "%s %d" % (t, op[1])
    if t == "OFromBufferFail":
        return "OFromBufferFail %d %d" % (op[1], op[2])
    if t == "ONewFail":
        return "ONewFail"
    if t == "OAllocNewFail":
        return "OAllocNewFail %d %d %s" % (op[1], op[2], cbool(op[3]))
    if t in ("OSetRef", "OFromBuffer", "ONewHandle"):
        return "%s %d %d" % (t, op[1], op[2])
    raise ValueError(op)


def op2_literals(ops):
    """the history as a list of Model.op2 literals: a release of an ffi.gc wrapper whose destructor acts on
    its own wrapper is OReleaseRe, everything else OBase"""
    m, re_of, out = Mirror(), {}, []
    for o in ops:
        created, _ = m.apply(o)
        if o[0] == "OGc" and created and len(o) > 4 and o[4]:
            re_of[created[0]] = o[4]
        if o[0] == "ORelease" and re_of.get(o[1]):
            out.append("OReleaseRe %d %s" % (o[1], {1: "RReleaseSelf", 2: "RGcNoneSelf"}[re_of[o[1]]]))
        else:
            out.append("OBase (%s)" % op_literal(o))
    return out


EXC_CODE = {None: 0, "ValueError": 1, "TypeError": 2}


def observed_outs(ops, results):
    return [EXC_CODE.get(r.get("exc"), 9) if o[0] in ("ORelease", "OGcNone") else 0 for o, r in zip(ops, results)]


def trace_literal(trace):
    return clist([clist(["(%s, %d, %s)" % (cbool(a), c, cbool(b)) for a, c, b in obs]) for obs in trace])


# ------------------------------------------------------------------------------- predicate
def check_history(ops, r):
    """the property, decided on the implementation's observations only; returns problems"""
    bad = []
    m = Mirror()
    trace, results, mem = r["trace"], r["results"], r["mem"]
    cancelled, released, has_dtor = set(), set(), set()
    prev = []
    for t, op in enumerate(ops):
        created, effective = m.apply(op)
        obs = trace[t]
        if op[0] == "OGc" and created:
            has_dtor.add(created[0])
        if op[0] == "OAllocNew" and op[3]:
            has_dtor.add(created[1])
        if op[0] == "OAllocNewFail" and op[3]:
            has_dtor.add(created[1])
        if op[0] in ("ONewFail", "OAllocNewFail"):
            if results[t].get("unexpected_success"):
                bad.append("step %d %r: ffi.new was expected to reject the initializer" % (t, op))
            if results[t].get("ct_refs_delta", 0) != 0:
                bad.append("step %d %r: %d failing ffi.new calls left %d references to the ctype behind (leaked cdata)"
                           % (t, op, results[t].get("reps", 0), results[t]["ct_refs_delta"]))
            if op[0] == "OAllocNewFail" and results[t].get("alloc_calls") != 1:
                bad.append("step %d %r: alloc() was called %r times" % (t, op, results[t].get("alloc_calls")))
        if op[0] == "OAllocNewStruct" and op[4]:
            has_dtor.add(created[1])
        if len(obs) != len(m.kind):
            bad.append("step %d %r: %d objects exist, %d expected" % (t, op, len(obs), len(m.kind)))
            return bad
        target = None
        if op[0] == "ORelease" and effective:
            target = op[1]
            if m.kind[target] == "KStructPtr":
                target = m.struct_of[target]
            released.add(target)
            released.add(op[1])
        for i, (alive, calls, blocked) in enumerate(obs):
            pcalls = prev[i][1] if i < len(prev) else 0
            palive = prev[i][0] if i < len(prev) else True
            if calls > 1:
                bad.append("step %d %r: destructor of object %d called %d times" % (t, op, i, calls))
            if calls < pcalls:
                bad.append("step %d: call counter of %d decreased" % (t, i))
            if calls > pcalls:
                if i in cancelled:
                    bad.append("step %d %r: destructor of %d called after ffi.gc(p, None)" % (t, op, i))
                if not (i == target or (palive and not alive)):
                    bad.append("step %d %r: destructor of %d called although it was neither released nor collected"
                               % (t, op, i))
            if i in has_dtor and i not in cancelled and calls == 0 and (not alive or i in released):
                bad.append("step %d %r: object %d is %s but its destructor has not run"
                           % (t, op, i, "released" if i in released else "dead"))
            if alive is False and m.roots[i] > 0:
                bad.append("step %d %r: object %d is held by a variable but dead" % (t, op, i))
            if m.kind[i] == "KPy":
                views = [f for f, s in m.src_of.items() if s == i and f < len(obs)]
                want = any(obs[f][0] and f not in released for f in views)
                if blocked != want:
                    bad.append("step %d %r: source %d resize %s, live unreleased views: %r"
                               % (t, op, i, "blocked" if blocked else "allowed",
                                  [f for f in views if obs[f][0] and f not in released]))
        if op[0] == "OGcNone" and effective and m.kind[op[1]] == "KGcp" and obs[op[1]][1] == 0:
            cancelled.add(op[1])
        for p, st in m.struct_of.items():
            if p < len(obs) and (obs[p][0] or m.roots[st] > 0) and not obs[st][0]:
                bad.append("step %d %r: struct object %d dead while its pointer %d is alive or p[0] is held"
                           % (t, op, st, p))
        if mem[t]:
            bad.append("step %d %r: struct memory changed under a live pointer/alias: %r" % (t, op, mem[t]))
        if op[0] == "OFromBufferFail" and results[t].get("unexpected_success"):
            bad.append("step %d %r: from_buffer was expected to fail but returned an object" % (t, op))
        if results[t].get("from_handle_identity") is False:
            bad.append("step %d %r: from_handle did not return the object given to new_handle" % (t, op))
        prev = obs
    if trace and not any(m.roots) and any(a for a, _, _ in trace[-1]):
        bad.append("end: objects %r still alive after everything was dropped and collected"
                   % [i for i, o in enumerate(trace[-1]) if o[0]])
    return bad


def shrink(ctx, case, failing):
    """cut the history after the failing step and drop operations that create nothing"""
    ops = list(case["ops"])
    s = ctx.scratch()

    def fails(cand):
        try:
            out, _ = s.run_worker("c21_worker.py", dict(histories=[cand]), timeout=120)
        except Exception:
            return False
        return bool(out) and "trace" in out["results"][0] and failing(cand, out["results"][0])
    def closed(prefix):
        m = Mirror()
        for o in prefix:
            m.apply(o)
        tail = []
        for i in range(len(m.kind)):
            tail += [["ODrop", i]] * m.roots[i]
        return prefix + tail
    for n in range(1, len(ops)):
        if fails(closed(ops[:n])):
            ops = closed(ops[:n])
            break
    i = 0
    tries = 0
    while i < len(ops) and tries < 40:
        if ops[i][0] in CREATORS or ops[i][0] in ("OGc", "OFromBuffer", "ONewHandle"):
            i += 1
            continue
        cand = ops[:i] + ops[i + 1:]
        tries += 1
        if fails(cand):
            ops = cand
        else:
            i += 1
    return dict(kind="history", ops=ops)


def evaluate(ctx, cases, asan=None):
    if not cases:
        return
    asan = bool(asan)
    s = ctx.scratch(asan=asan)
    # several shorter worker processes side by side; a worker that does not come back is a
    # harness problem with a clear message, never a traceback
    import subprocess
    from concurrent.futures import ThreadPoolExecutor
    size = 40 if asan else 120
    chunks = [cases[i:i + size] for i in range(0, len(cases), size)]

    def run_chunk(chunk):
        try:
            return s.run_worker("c21_worker.py", dict(histories=[c["ops"] for c in chunk]), timeout=420)
        except subprocess.TimeoutExpired:
            return "timeout", None
    with ThreadPoolExecutor(4) as ex:
        parts = list(ex.map(run_chunk, chunks))
    results = []
    for chunk, (out, p) in zip(chunks, parts):
        if out == "timeout":
            ctx.obligation_broken("C21 harness", "a worker process running %d histories did not finish within 420 s"
                                  % len(chunk))
            results += [dict(harness_skip=True)] * len(chunk)
        elif out is None:
            if p.returncode in (77, 78) or "AddressSanitizer" in p.stderr:
                ctx.violation(chunk[0], "memory error reported by the sanitizer while running the histories: "
                              + p.stderr[-1500:])
            else:
                ctx.violation(chunk[0], "the interpreter died while running the histories (rc=%s): %s"
                              % (p.returncode, p.stderr[-800:]))
            results += [dict(harness_skip=True)] * len(chunk)
        else:
            results += out["results"]
    out = dict(results=results)
    coqcases, owner = [], []
    for c, r in zip(cases, out["results"]):
        if "harness_skip" in r:
            continue
        if "harness_error" in r:
            ctx.obligation_broken("C21 harness", r["harness_error"])
            continue
        ops = c["ops"]
        ctx.count(len(ops))
        bad = check_history(ops, r)
        kinds = sorted(set(o[0] for o in ops))
        ctx.hist("length", len(ops))
        ctx.hist("template", c.get("template", "random"))
        for o in ops:
            ctx.hist("op", o[0])
        if any(o[0] in ("OGc", "OAllocNew", "OAllocNewStruct", "OFromBuffer", "ONewHandle") for o in ops):
            ctx.nontrivial(ops)
        if bad:
            nshrunk = ctx.extra.setdefault("shrunk", 0)
            if ctx.replay_mode or nshrunk >= 2:
                small = c
            else:
                ctx.extra["shrunk"] = nshrunk + 1
                small = shrink(ctx, c, lambda cand, rr: bool(check_history(cand, rr)))
            try:
                out2, _ = s.run_worker("c21_worker.py", dict(histories=[small["ops"]]), timeout=120)
            except Exception:
                out2 = None
            msg = check_history(small["ops"], out2["results"][0]) if out2 and "trace" in out2["results"][0] else bad
            ctx.violation(small, "; ".join((msg or bad)[:3]))
        # the model on the same history: OCollectAuto after every operation
        inter = []
        for lit in op2_literals(ops):
            inter += [lit, "OBase OCollectAuto"]
        codes = observed_outs(ops, r["results"])
        for o, code in zip(ops, codes):
            if o[0] in ("ORelease", "OGcNone"):
                ctx.hist("result", "%s:%s" % (o[0], {0: "ok-or-skipped", 1: "ValueError", 2: "TypeError"}.get(code, "other")))
            if o[0] == "OGc" and len(o) > 4 and o[4]:
                ctx.hist("reentrant-destructor", {1: "release(w)", 2: "gc(w, None)"}[o[4]])
        coqcases.append(("(%s : list op2)" % clist(inter),
                         "((%s, %s) : list (list (bool * nat * bool)) * list nat)"
                         % (trace_literal(r["trace"]), clist([str(x) for x in codes]))))
        owner.append(c)
    eqb = "pair_eqb (list_eqb (list_eqb (pair_eqb (pair_eqb Bool.eqb Nat.eqb) Bool.eqb))) (list_eqb Nat.eqb)"
    fexpr = ("fun ops => ((fix odd (l : list (list (bool * nat * bool))) := match l with "
             "| _ :: x :: l' => x :: odd l' | _ => [] end) (trace2 init ops), "
             "(fix even (l : list nat) := match l with | x :: _ :: l' => x :: even l' | _ => [] end) (outs2 init ops))")
    badi, outs, err = vlib.coq_mismatches(["C21.Model"], fexpr, eqb, coqcases, shard=8, jobs=10)
    if err:
        ctx.obligation_broken("C21 model evaluation", err)
    for i in badi:
        ctx.mismatch(owner[i], "model (trace, results) %s, observed %s" % (str(outs.get(i))[:600], coqcases[i][1][:600]),
                     "C21.Model.trace2/outs2 vs real cffi history")
    ctx.extra["model_evaluations"] = len(coqcases)
    ctx.sample(cases[0])


def run(ctx):
    ctx.cov["rule"] = (
        "random histories of 4..24 operations (create: ffi.new array / struct pointer / custom-allocator array / "
        "custom-allocator struct pointer with or without free / Python object; ffi.gc with a destructor whose closure "
        "may refer to a Python object; gc(w, None); release or with-exit (also repeated, also on pointers, aliases, "
        "non-releasable kinds); p[0] alias; extra variable; del; attribute reference (cycles); from_buffer; new_handle; "
        "from_handle; ffi.gc destructors that call ffi.release(w) or ffi.gc(w, None) on their own wrapper while they "
        "run), gc.collect() after every operation, everything dropped at the end; the exception class of every "
        "release and gc(x, None) is compared with Model.out; directed templates: origobj cycles, failing from_buffer / "
        "ffi.new, re-entrant destructors, release and gc(x, None) on every kind. Non-trivial = history with "
        "a destructor, allocator, buffer view or handle; distinct by operation list.")
    ctx.assumptions += [
        "model C21/Model.v: reference edges, finalisation, gc(w, None) and release dispatch defined from tables "
        "regenerated from _cffi_backend.c (C21/Gen.v); object creation and the runtime events hand-written "
        "(tied by this run's differential test)",
        "runtime hypothesis R1: CPython frees only garbage sets (no variable and no outside object refers to a member), "
        "each object once; tp_finalize+tp_clear+tp_dealloc and tp_dealloc alone have the same net effect on the modelled state",
        "runtime hypothesis R2: an allocation never returns the address of a live object",
        "runtime hypothesis R3: destructors neither resurrect nor use the objects being freed, except that during an "
        "explicit release they may release / cancel their own wrapper (C21_reentrant_release_same)",
        "gc.collect() after every step makes CPython free exactly the unreachable set (Model.unreachable)"]
    cases = generate(ctx)
    evaluate(ctx, cases)
    if ctx.thorough:
        # a part of the same histories under AddressSanitizer (use-after-free of struct memory,
        # handles, buffers)
        evaluate(ctx, cases[:40] + cases[-40:], asan=True)


MANIFEST = dict(
    technique="Coq proof by induction over all operation histories (object-table model, invariant incl. 'destructor "
              "field is Some iff not yet run, not cancelled, not released, alive'); the model's reference edges, "
              "finalisation, gc(w, None) and release dispatch are DEFINED FROM tables regenerated from "
              "_cffi_backend.c on every run (C21/Gen.v, fail closed); differential correspondence on random "
              "histories with gc.collect() after every step (object liveness, destructor counts, resize locks AND "
              "the exception class of every release / gc(x, None))",
    text="Proof (coq/C21/Props.v, 28 theorems, all closed): for every history of creations, aliasing, ffi.gc, gc(p, None), "
         "release/with, holds, drops, attribute references, from_buffer, handles and deallocation of any garbage set at "
         "any time: each destructor/free runs at most once (C21_destructor_at_most_once), exactly once by the time its "
         "wrapper is released or dead (C21_destructor_exactly_once), not before (C21_destructor_not_early), never after "
         "gc(p, None) (C21_never_after_cancel, C21_called_once_stays); releasing the pointer of an allocator struct frees "
         "the allocation (C21_release_struct_ptr_frees); release is idempotent (C21_release_idempotent); a from_buffer "
         "view keeps its source alive and locked exactly until released or dead (C21_frombuf_locks_source, "
         "C21_source_unlocked_when_no_view); a FAILED from_buffer leaves no export behind "
         "(C21_frombuf_error_paths_release = the regenerated obligation on direct_from_buffer's goto labels, "
         "C21_failed_from_buffer_is_pure); a rejected initializer through a custom allocator frees the block exactly "
         "once (C21_failed_alloc_new_frees, from the regenerated Py_DECREF on direct_newp's error path; "
         "C21_failed_new_is_pure is definitional); the struct behind ffi.new('struct *') lives while p or p[0] does "
         "(C21_struct_memory_kept); from_handle on a live handle's address returns the object given to new_handle "
         "(C21_from_handle_correct); every new_handle call makes a new handle object (C21_new_handle_fresh) and live "
         "handles have distinct addresses under runtime hypothesis R2 (C21_live_handles_distinct_addresses_under_R2); "
         "no live object refers to a dead one (C21_references_alive); whatever the collector frees is finalised "
         "(C21_collect_frees_members). "
         "Regenerated tables spelled out (proved by computation on Gen.v, so an edited Py_VISIT list, a reordered "
         "cdatagcp_finalize, a changed explicit_release_case / cdata_exit case breaks them and every theorem above): "
         "C21_model_edges_are_tp_traverse, C21_finalize_clears_both_calls_once, C21_gc_none_clears_destructor_only, "
         "C21_finalize_order_facts, C21_release_dispatch_is_cdata_exit. "
         "Results: C21_release_error_iff_kind (release of a held object: ValueError iff handle or the struct object "
         "p[0], TypeError iff not a cdata, and a failed release changes nothing), C21_gcnone_error_iff_kind. "
         "Re-entrant destructors: C21_reentrant_release_same (a history whose destructors release / cancel their own "
         "wrapper while running reaches the same state as the plain history, because cdatagcp_finalize clears the "
         "fields before the call), C21_at_most_once_reentrant.",
    note="Regenerated from the source on every run (tools/props/c21.py, c21_regen.py; anything outside the understood "
         "statement shapes = broken obligation, the committed Gen.v is only the unchanged tree's snapshot): error labels of "
         "direct_from_buffer, DECREF on direct_newp's failure path, Py_VISIT lists of cdataowninggc_traverse / "
         "cdatafrombuf_traverse / cdatagcp_traverse with their tp_traverse slots, the struct pointer's reference "
         "(store in direct_newp + Py_DECREF in cdataowning_dealloc), fields cleared by cdatagcp_finalize and whether "
         "before the call, call sites in gcp_finalize, cdatagcp_dealloc -> gcp_finalize, the None branch of b_gcp, "
         "explicit_release_case, the switch of cdata_exit, b_release / __enter__ / __exit__ wiring. "
         "Hand-modelled and correspondence-only: object creation (ffi.new, allocators, new_handle, from_buffer success "
         "path), INCREF sites, that gc.collect() frees exactly the unreachable set, the api.py front end; tp_clear "
         "(cdataowninggc_clear, cdatafrombuf_clear) and callbacks (C29) are not in the model; the compiled FFI of "
         "ffi_obj.c is not exercised (the worker uses cffi.FFI()). Runtime hypotheses as guards of the model's runtime "
         "events: R1 CPython frees only garbage, once; R2 fresh addresses; R3 destructors do not resurrect or use the "
         "objects being freed EXCEPT releasing / cancelling their own wrapper during an explicit release (modelled, "
         "finalize_re); re-entrancy during a cyclic-GC tp_finalize is not modelled. [own_is_struct] identifies the "
         "struct object p[0] by the position of its pointer in the object table (a model convention).",
    design_ref="DESIGN.md §4 C21")
