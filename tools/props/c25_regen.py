"""C25 — regeneration of coq/C25/Gen.v from src/c/parse_c_type.c (search_sorted, MAKE_SEARCH_FUNC and its
instantiations) and src/cffi/recompiler.py (the three sort keys of the emitted tables).

The translator is a token-level matcher with holes.  The frame of search_sorted (two int locals initialised from
constants/array_len, one `while`, three locals `middle`/`src`/`diff`, an if/else-if/else chain whose actions are
`return middle` / `left = E` / `right = E`, final `return -1`) is fixed; the HOLES are translated:
    initial values, loop condition, the expression of `middle`, every condition of the chain (boolean combinations
    of `diff OP 0` and `src[search_len] ==/!= '\\0'`), every action and its right-hand side.
An edit inside a hole (`>=` -> `>`, `middle + 1` -> `middle`, swapped branches, ...) therefore produces a different
Gen.v and C25_gen_is_model no longer type-checks/proves; an edit of the frame makes the translation fail, which is
reported as a broken obligation (fail closed: the snapshot is NOT silently kept as a fact about the new source)."""
import ast
import os
import re


class RegenError(Exception):
    pass


def _fail(msg):
    raise RegenError(msg)


TOKEN = re.compile(r"\s*(?:([A-Za-z_]\w*)|(\d+)|('\\0')|(##|->|==|!=|<=|>=|&&|\|\||\+\+|--|[-+*/%<>=!&|^~?:;,.(){}\[\]#]))")


def strip_comments(text):
    return re.sub(r"/\*.*?\*/", " ", text, flags=re.S)


def tokens(text):
    pos, out = 0, []
    text = text.rstrip()
    while pos < len(text):
        m = TOKEN.match(text, pos)
        if not m:
            if not text[pos:].strip():
                break
            _fail("cannot tokenize near %r" % text[pos:pos + 30])
        out.append(m.group(1) or m.group(2) or m.group(3) or m.group(4))
        pos = m.end()
    return out


def function_body(text, name):
    m = re.search(r"static\s+int\s+%s\s*\(([^)]*)\)\s*\{" % name, text)
    if not m:
        _fail("function %s not found" % name)
    depth, i = 1, m.end()
    while depth:
        if i >= len(text):
            _fail("unterminated body of %s" % name)
        depth += text[i] == "{"
        depth -= text[i] == "}"
        i += 1
    return " ".join(m.group(1).split()), text[m.end():i - 1]


class P:
    def __init__(self, toks):
        self.t, self.i = toks, 0

    def peek(self, k=0):
        return self.t[self.i + k] if self.i + k < len(self.t) else None

    def take(self, want=None):
        if self.i >= len(self.t) or (want is not None and self.t[self.i] != want):
            _fail("expected %r, found %r (token %d of search_sorted)" % (want, self.peek(), self.i))
        self.i += 1
        return self.t[self.i - 1]

    def seq(self, want):
        for w in want:
            self.take(w)

    def until(self, stop):
        """tokens up to (not including) `stop` at parenthesis depth 0"""
        depth, out = 0, []
        while True:
            x = self.peek()
            if x is None:
                _fail("missing %r" % stop)
            if depth == 0 and x == stop:
                return out
            depth += x in "(["
            depth -= x in ")]"
            out.append(self.take())

    def parens(self):
        self.take("(")
        depth, out = 1, []
        while True:
            x = self.take()
            depth += x == "("
            depth -= x == ")"
            if depth == 0:
                return out
            out.append(x)


# ---- natural-number expressions over the int locals (no subtraction: nat would truncate) ----
class NatExpr:
    def __init__(self, toks, names):
        self.p, self.names = P(toks), names

    def parse(self):
        e = self.add()
        if self.p.peek() is not None:
            _fail("trailing tokens in the expression %r" % " ".join(self.p.t))
        return e

    def add(self):
        e = self.mul()
        while self.p.peek() == "+":
            self.p.take()
            e = "(%s + %s)" % (e, self.mul())
        return e

    def mul(self):
        e = self.atom()
        while self.p.peek() in ("*", "/"):
            op = self.p.take()
            e = "(%s %s %s)" % (e, op, self.atom())
        return e

    def atom(self):
        x = self.p.take()
        if x == "(":
            e = self.add()
            self.p.take(")")
            return e
        if x.isdigit():
            return x
        if x in self.names:
            return x
        _fail("%r is not allowed in an index expression (allowed: %s, literals, + * /)" % (x, ", ".join(self.names)))


CMPS = {"<": "<?", "<=": "<=?", "==": "=?", ">": ">", ">=": ">=", "!=": "!="}


def nat_cmp(toks, names):
    """left OP right (one comparison between two nat expressions)"""
    depth = 0
    for k, x in enumerate(toks):
        depth += x == "("
        depth -= x == ")"
        if depth == 0 and x in CMPS:
            a, b = NatExpr(toks[:k], names).parse(), NatExpr(toks[k + 1:], names).parse()
            if x in ("<", "<=", "=="):
                return "(%s %s %s)" % (a, CMPS[x], b)
            if x == ">":
                return "(%s <? %s)" % (b, a)
            if x == ">=":
                return "(%s <=? %s)" % (b, a)
            return "(negb (%s =? %s))" % (a, b)
    _fail("loop condition %r is not a comparison" % " ".join(toks))


# ---- conditions of the if-chain: boolean combinations of `diff OP 0` and `src[search_len] ==/!= '\0'` ----
DIFF = {"==": "d_eq0", "!=": "d_ne0", "<": "d_lt0", "<=": "d_le0", ">": "d_gt0", ">=": "d_ge0"}


class Cond:
    def __init__(self, toks):
        self.p = P(toks)

    def parse(self):
        e = self.orx()
        if self.p.peek() is not None:
            _fail("trailing tokens in the condition %r" % " ".join(self.p.t))
        return e

    def orx(self):
        e = self.andx()
        while self.p.peek() == "||":
            self.p.take()
            e = "(%s || %s)" % (e, self.andx())
        return e

    def andx(self):
        e = self.unary()
        while self.p.peek() == "&&":
            self.p.take()
            e = "(%s && %s)" % (e, self.unary())
        return e

    def unary(self):
        p = self.p
        x = p.peek()
        if x == "!":
            p.take()
            return "(negb %s)" % self.unary()
        if x == "(":
            p.take()
            e = self.orx()
            p.take(")")
            return e
        if x == "diff":
            p.take()
            op = p.take()
            if op not in DIFF:
                _fail("unsupported test on diff: %r" % op)
            p.take("0")
            return "(%s diff)" % DIFF[op]
        if x == "src":
            p.seq(["src", "[", "search_len", "]"])
            op = p.take()
            if op not in ("==", "!="):
                _fail("unsupported test on src[search_len]: %r" % op)
            z = p.take()
            if z not in ("'\\0'", "0"):
                _fail("src[search_len] is compared with %r" % z)
            return "src_ends" if op == "==" else "(negb src_ends)"
        _fail("unsupported condition near %r" % x)


IDX = ("left", "right", "middle")


def action(p):
    """one action of the chain -> gstep term"""
    braces = p.peek() == "{"
    if braces:
        p.take()
    x = p.take()
    if x == "return":
        e = NatExpr(p.until(";"), IDX).parse()
        out = "GReturn %s" % e
    elif x in ("left", "right"):
        p.take("=")
        e = NatExpr(p.until(";"), IDX).parse()
        out = "GNext %s right" % e if x == "left" else "GNext left %s" % e
    else:
        _fail("unsupported action starting with %r" % x)
    p.take(";")
    if braces:
        p.take("}")
    return out


def chain(p):
    p.take("if")
    c = Cond(p.parens()).parse()
    a = action(p)
    p.take("else")
    if p.peek() == "if":
        rest = chain(p)
    else:
        rest = action(p)
    return "if %s then %s\n  else %s" % (c, a, rest)


SRC_DECL = "const char * src = * ( const char * const * ) ( baseptr + middle * item_size ) ;".split()
DIFF_DECL = "int diff = strncmp ( src , search , search_len ) ;".split()
PARAMS = "const char *const *base, size_t item_size, int array_len, const char *search, size_t search_len"
MACRO = ("static int search_in_ ## FIELD ( const struct _cffi_type_context_s * ctx , const char * search , "
         "size_t search_len ) { if ( ctx -> num_ ## FIELD == 0 ) return - 1 ; return search_sorted ( & ctx -> FIELD "
         "-> name , sizeof ( * ctx -> FIELD ) , ctx -> num_ ## FIELD , search , search_len ) ; }").split()


def translate_search_sorted(text):
    params, body = function_body(text, "search_sorted")
    if params != PARAMS:
        _fail("search_sorted's parameter list changed: %s" % params)
    p = P(tokens(body))
    p.seq(["int", "left", "="])
    left0 = NatExpr(p.until(","), ("array_len",)).parse()
    p.seq([",", "right", "="])
    right0 = NatExpr(p.until(";"), ("array_len",)).parse()
    p.take(";")
    p.seq("const char * baseptr = ( const char * ) base ;".split())
    p.take("while")
    cond = nat_cmp(p.parens(), ("left", "right"))
    p.take("{")
    p.seq(["int", "middle", "="])
    middle = NatExpr(p.until(";"), ("left", "right")).parse()
    p.take(";")
    p.seq(SRC_DECL)
    p.seq(DIFF_DECL)
    body_term = chain(p)
    p.take("}")
    p.seq(["return", "-", "1", ";"])
    if p.peek() is not None:
        _fail("statements after 'return -1;' in search_sorted")
    return dict(left0=left0, right0=right0, cond=cond, middle=middle, body=body_term)


def translate_macro(text):
    m = re.search(r"#define\s+MAKE_SEARCH_FUNC\(FIELD\)((?:[^\n]*\\\n)*[^\n]*)\n", text)
    if not m:
        _fail("MAKE_SEARCH_FUNC not found")
    got = tokens(m.group(1).replace("\\\n", " "))
    if got != MACRO:
        k = next((i for i, (a, b) in enumerate(zip(got, MACRO)) if a != b), min(len(got), len(MACRO)))
        _fail("MAKE_SEARCH_FUNC's body changed near token %d: ...%s" % (k, " ".join(got[max(0, k - 4):k + 6])))
    after = text[m.end():]
    end = after.find("#undef MAKE_SEARCH_FUNC")
    if end < 0:
        _fail("#undef MAKE_SEARCH_FUNC not found")
    inst = re.findall(r"MAKE_SEARCH_FUNC\((\w+)\)", after[:end])
    if after[:end].split() != ["MAKE_SEARCH_FUNC(%s)" % f for f in inst]:
        _fail("unexpected text between the MAKE_SEARCH_FUNC instantiations")
    return inst


def name_fields(header):
    """for each table: the record type of ctx->FIELD and whether its key field is `const char *name`"""
    out = {}
    ctx = re.search(r"struct _cffi_type_context_s\s*\{(.*?)\n\};", header, re.S)
    if not ctx:
        _fail("struct _cffi_type_context_s not found")
    for m in re.finditer(r"const struct (\w+) \*(\w+);", ctx.group(1)):
        rec, field = m.groups()
        sm = re.search(r"struct %s\s*\{(.*?)\n\};" % rec, header, re.S)
        out[field] = bool(sm and re.search(r"\bconst char \*name;", sm.group(1)))
    return out


def sort_keys(repo):
    """the sort keys of the emitted tables in recompiler.py: [(function, what is sorted, key attribute)]"""
    tree = ast.parse(open(os.path.join(repo, "src", "cffi", "recompiler.py")).read())
    rows = []

    def lam_attr(kw):
        if kw.arg == "key" and isinstance(kw.value, ast.Name):
            return kw.value.id            # key=str: the order of the type table, not of a name table
        if (kw.arg == "key" and isinstance(kw.value, ast.Lambda) and len(kw.value.args.args) == 1
                and isinstance(kw.value.body, ast.Attribute) and isinstance(kw.value.body.value, ast.Name)
                and kw.value.body.value.id == kw.value.args.args[0].arg):
            return kw.value.body.attr
        _fail("a sort key in recompiler.py is not `lambda e: e.<attr>`")

    for fn in ast.walk(tree):
        if isinstance(fn, ast.FunctionDef) and fn.name in ("collect_type_table", "collect_step_tables"):
            for n in ast.walk(fn):
                if isinstance(n, ast.Call):
                    if isinstance(n.func, ast.Name) and n.func.id == "sorted":
                        if len(n.keywords) != 1 or len(n.args) != 1:
                            _fail("sorted(...) call with unexpected arguments in %s" % fn.name)
                        rows.append((fn.name, ast.unparse(n.args[0]), lam_attr(n.keywords[0])))
                    elif isinstance(n.func, ast.Attribute) and n.func.attr == "sort":
                        if len(n.keywords) != 1 or n.args:
                            _fail(".sort(...) call with unexpected arguments in %s" % fn.name)
                        rows.append((fn.name, ast.unparse(n.func.value), lam_attr(n.keywords[0])))
    if [r[0] for r in rows] != ["collect_type_table"] * 3 + ["collect_step_tables"]:
        _fail("expected three sorted() in collect_type_table and one .sort() in collect_step_tables, found %r" % rows)
    # the .sort is applied to every step except "field"
    src = open(os.path.join(repo, "src", "cffi", "recompiler.py")).read()
    if not re.search(r"for step_name in self\.ALL_STEPS:\s*lst = self\._lsts\[step_name\]\s*"
                     r"if step_name != \"field\":\s*lst\.sort\(", src):
        _fail("collect_step_tables no longer sorts every table except 'field'")
    return rows


def cstring(s):
    return '"%s"%%string' % s


HEADER = """(* GENERATED by tools/props/c25.py regen() from src/c/parse_c_type.c, src/cffi/parse_c_type.h and
   src/cffi/recompiler.py - do not edit.  The frame (locals, one while loop, if/else-if/else chain, return -1)
   is matched token by token; the definitions below are the translated holes. *)
From Coq Require Import List Arith NArith Bool String.
Import ListNotations.
From Cffi Require Import C25.Model.
Open Scope nat_scope.
Open Scope bool_scope.

(* the sign of the int `diff` is a [comparison]; tests of the form `diff OP 0` *)
Definition d_eq0 (c : comparison) := match c with Eq => true | _ => false end.
Definition d_ne0 (c : comparison) := negb (d_eq0 c).
Definition d_lt0 (c : comparison) := match c with Lt => true | _ => false end.
Definition d_gt0 (c : comparison) := match c with Gt => true | _ => false end.
Definition d_le0 (c : comparison) := negb (d_gt0 c).
Definition d_ge0 (c : comparison) := negb (d_lt0 c).

Inductive gstep := GReturn (r : nat) | GNext (left right : nat).
"""

FOOTER = """
(* the fixed frame:  while (COND) { middle = ...; src = table[middle].name; diff = strncmp(src, search, search_len);
   CHAIN }  return -1;   (fuel = number of iterations allowed; never exhausted, see C25_gen_search_is_model) *)
Fixpoint gen_search (fuel : nat) (t : list cstr) (key : cstr) (left right : nat) : option nat :=
  match fuel with
  | O => None
  | S f =>
    if gen_loop_cond left right then
      let middle := gen_middle left right in
      let src := nth middle t [] in
      match gen_body (strncmp src key (List.length key)) (N.eqb (char_at src (List.length key)) 0) left right middle with
      | GReturn r => Some r
      | GNext l r => gen_search f t key l r
      end
    else None
  end.
Definition gen_search_sorted (t : list cstr) (key : cstr) : option nat :=
  gen_search (S (List.length t)) t key (gen_left0 (List.length t)) (gen_right0 (List.length t)).

(* MAKE_SEARCH_FUNC(FIELD):  if (ctx->num_FIELD == 0) return -1;
                             return search_sorted(&ctx->FIELD->name, sizeof( *ctx->FIELD ), ctx->num_FIELD, search, search_len); *)
Definition gen_search_in (t : list cstr) (key : cstr) : option nat :=
  if Nat.eqb (List.length t) 0 then None else gen_search_sorted t key.
"""


def render(repo):
    text = strip_comments(open(os.path.join(repo, "src", "c", "parse_c_type.c")).read())
    f = translate_search_sorted(text)
    inst = translate_macro(text)
    header = strip_comments(open(os.path.join(repo, "src", "cffi", "parse_c_type.h")).read())
    nf = name_fields(header)
    keys = sort_keys(repo)
    parts = [HEADER,
             "(* int left = %s, right = %s; *)" % (f["left0"], f["right0"]),
             "Definition gen_left0 (array_len : nat) : nat := %s." % f["left0"],
             "Definition gen_right0 (array_len : nat) : nat := %s." % f["right0"],
             "Definition gen_loop_cond (left right : nat) : bool := %s." % f["cond"],
             "Definition gen_middle (left right : nat) : nat := %s." % f["middle"],
             "(* src_ends stands for  src[search_len] == '\\0' *)",
             "Definition gen_body (diff : comparison) (src_ends : bool) (left right middle : nat) : gstep :=\n  %s."
             % f["body"],
             FOOTER,
             "(* the instantiations of MAKE_SEARCH_FUNC, and for each: is the key field of the record type of",
             "   ctx->FIELD (parse_c_type.h) `const char *name`, the field the macro passes as base? *)",
             "Definition gen_search_fields : list (string * bool) :=\n  [%s]."
             % "; ".join("(%s, %s)" % (cstring(x), "true" if nf.get(x) else "false") for x in inst),
             "(* recompiler.py: (function, what is sorted, attribute used as the sort key) *)",
             "Definition gen_sort_keys : list (string * string * string) :=\n  [%s]."
             % ";\n   ".join("(%s, %s, %s)" % tuple(cstring(x) for x in r) for r in keys),
             ""]
    return "\n".join(parts)


def regen_file(vlib, ctx, owner="C25"):
    """Regenerate coq/C25/Gen.v; on failure the snapshot stays and a broken obligation is recorded (fail closed)."""
    path = os.path.join(vlib.COQ, "C25", "Gen.v")
    try:
        text = render(vlib.REPO)
    except (RegenError, OSError, SyntaxError) as e:
        ctx.translator("C25/Gen.v", "fallback: %s" % e)
        ctx.obligation_broken("%s: regeneration of C25/Gen.v (search_sorted / MAKE_SEARCH_FUNC in src/c/parse_c_type.c or "
                              "the sort keys in recompiler.py no longer have the recorded frame)" % owner, str(e))
        return False
    old = open(path).read() if os.path.exists(path) else None
    if old == text:
        ctx.translator("C25/Gen.v", "unchanged")
    else:
        with open(path, "w") as f:
            f.write(text)
        ctx.translator("C25/Gen.v", "regenerated")
    return True


if __name__ == "__main__":
    import sys
    print(render(sys.argv[1] if len(sys.argv) > 1 else "/repo"))
