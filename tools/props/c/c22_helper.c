/* C22 helper: C code called through cffi that reads / assigns errno and calls back.
   script: n pairs (code, value): 4 = errno = value; 5 = out[(*k)++] = errno; 7 = cb(value) */
#include <errno.h>
typedef int (*c22_cb_t)(int);
int c22_run(int n, const int *script, int *out, int *k, c22_cb_t cb)
{
    int i;
    for (i = 0; i < n; i++) {
        int c = script[2 * i], v = script[2 * i + 1];
        if (c == 4) errno = v;
        else if (c == 5) { out[*k] = errno; (*k)++; }
        else if (c == 7) cb(v);
    }
    return *k;
}
int c22_glob = 42;
