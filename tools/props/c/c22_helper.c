/* C22 helper: C code called through cffi that reads / assigns errno and calls back.
   script: n pairs (code, value):
     4 = errno = value;  5 = out[(*k)++] = errno;
     7 = cb(value)   plain callback
     8 = cbe(value)  callback created with onerror=
     9 = cbu(value)  extern "Python" function that has no @ffi.def_extern() attached (API mode only)
   c22_run_thread runs the same script in a fresh pthread (a thread that never held the GIL), waits for
   it and then assigns errno = final in the calling thread. */
#include <errno.h>
#include <pthread.h>
typedef int (*c22_cb_t)(int);
int c22_run(int n, const int *script, int *out, int *k, c22_cb_t cb, c22_cb_t cbe, c22_cb_t cbu)
{
    int i;
    for (i = 0; i < n; i++) {
        int c = script[2 * i], v = script[2 * i + 1];
        if (c == 4) errno = v;
        else if (c == 5) { out[*k] = errno; (*k)++; }
        else if (c == 7) cb(v);
        else if (c == 8) cbe(v);
        else if (c == 9) cbu(v);
    }
    return *k;
}
struct c22_job { int n; const int *script; int *out; int *k; c22_cb_t cb, cbe, cbu; };
static void *c22_thread_main(void *p)
{
    struct c22_job *j = (struct c22_job *)p;
    c22_run(j->n, j->script, j->out, j->k, j->cb, j->cbe, j->cbu);
    return 0;
}
int c22_run_thread(int n, const int *script, int *out, int *k, c22_cb_t cb, c22_cb_t cbe, c22_cb_t cbu, int final)
{
    struct c22_job j;
    pthread_t th;
    int r;
    j.n = n; j.script = script; j.out = out; j.k = k; j.cb = cb; j.cbe = cbe; j.cbu = cbu;
    r = pthread_create(&th, 0, c22_thread_main, &j);
    if (r == 0)
        r = pthread_join(th, 0);
    errno = final;
    return r;
}
int c22_glob = 42;
