/* C05 helper library, loaded through cffi (ffi.dlopen) by c05_worker.py: identity / store
   functions so that a Python value reaches C as a call argument or as a callback result. */
#include <string.h>

float id_f(float x) { return x; }
double id_d(double x) { return x; }
long double id_ld(long double x) { return x; }
float _Complex id_fc(float _Complex x) { return x; }
double _Complex id_dc(double _Complex x) { return x; }

void st_f(float x, char *out) { memcpy(out, &x, sizeof x); }
void st_d(double x, char *out) { memcpy(out, &x, sizeof x); }
void st_ld(long double x, char *out) { memcpy(out, &x, 10); }
void st_fc(float _Complex x, char *out) { memcpy(out, &x, sizeof x); }
void st_dc(double _Complex x, char *out) { memcpy(out, &x, sizeof x); }

void call_f(float (*cb)(void), char *out) { float x = cb(); memcpy(out, &x, sizeof x); }
void call_d(double (*cb)(void), char *out) { double x = cb(); memcpy(out, &x, sizeof x); }
void call_ld(long double (*cb)(void), char *out) { long double x = cb(); memcpy(out, &x, 10); }
void call_fc(float _Complex (*cb)(void), char *out) { float _Complex x = cb(); memcpy(out, &x, sizeof x); }
void call_dc(double _Complex (*cb)(void), char *out) { double _Complex x = cb(); memcpy(out, &x, sizeof x); }
