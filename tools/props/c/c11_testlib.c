/* C11 test library: a few functions and globals for the dlopen part of the module comparison */
#include <stdarg.h>
struct c11_pt { int x; int y; };
int c11_add(int a, int b) { return a + b; }
long long c11_mul(long long a, short b) { return a * b; }
double c11_half(double x) { return x / 2; }
char *c11_id(char *p) { return p; }
void c11_noop(void) { }
unsigned c11_sum3(unsigned char a, unsigned short b, unsigned c) { return a + b + c; }
struct c11_pt c11_mkpt(int x, int y) { struct c11_pt p; p.x = x; p.y = y; return p; }
int c11_ptx(struct c11_pt *p) { return p->x; }
int c11_var(int n, ...) { va_list ap; int s = 0; va_start(ap, n); while (n-- > 0) s += va_arg(ap, int); va_end(ap); return s; }
static int c11_cb(int x) { return x + 1; }
int (*c11_getcb(void))(int) { return c11_cb; }
int c11_gi = 7;
unsigned long long c11_gull = 18446744073709551615ULL;
double c11_gd = 1.5;
char c11_gbuf[16] = "hello";
struct c11_pt c11_gpt = { 3, 4 };
int *c11_gp = &c11_gi;
const int c11_kconst = 42;
const long long c11_kneg = -5;
