/* C35: stub `pkg-config` put first on PATH by tools/props/c35_worker.py.
   $C35_STUB_DIR/table.txt : lines "<hex(libname NUL flag)> <exit status | -signal> <hex(stdout bytes)>"
   $C35_STUB_DIR/log       : one line per invocation, the arguments hex-encoded, space separated */
#define _GNU_SOURCE
#include <stdio.h>
#include <stdlib.h>
#include <string.h>
#include <signal.h>
#include <unistd.h>

static void hexcat(char *dst, const char *src, size_t n)
{
    static const char *d = "0123456789abcdef";
    size_t k = strlen(dst);
    for (size_t i = 0; i < n; i++) {
        dst[k++] = d[(unsigned char)src[i] >> 4];
        dst[k++] = d[(unsigned char)src[i] & 15];
    }
    dst[k] = 0;
}

static int hv(int c) { return c <= '9' ? c - '0' : c - 'a' + 10; }

int main(int argc, char **argv)
{
    const char *dir = getenv("C35_STUB_DIR");
    char path[4096];
    if (!dir) return 98;
    snprintf(path, sizeof path, "%s/log", dir);
    FILE *lg = fopen(path, "a");
    if (lg) {
        for (int i = 1; i < argc; i++) {
            char *h = calloc(2 * strlen(argv[i]) + 1, 1);
            hexcat(h, argv[i], strlen(argv[i]));
            fprintf(lg, "%s%s", i > 1 ? " " : "", h);
            free(h);
        }
        fprintf(lg, "\n");
        fclose(lg);
    }
    if (argc < 3) return 99;
    const char *lib = argv[argc - 1], *flag = argv[argc - 2];
    char *key = calloc(2 * (strlen(lib) + strlen(flag) + 1) + 1, 1);
    hexcat(key, lib, strlen(lib));
    hexcat(key, "\0", 1);
    hexcat(key, flag, strlen(flag));
    snprintf(path, sizeof path, "%s/table.txt", dir);
    FILE *t = fopen(path, "r");
    if (!t) return 97;
    char *line = NULL;
    size_t cap = 0;
    ssize_t n;
    size_t kl = strlen(key);
    while ((n = getline(&line, &cap, t)) > 0) {
        if (strncmp(line, key, kl) == 0 && line[kl] == ' ') {
            char *p = line + kl + 1;
            int rc = (int)strtol(p, &p, 10);
            while (*p == ' ') p++;
            while (p[0] && p[1] && p[0] != '\n') {
                putchar(hv(p[0]) * 16 + hv(p[1]));
                p += 2;
            }
            fflush(stdout);
            fputs("Package \xff was not found\n", stderr);
            fflush(stderr);
            if (rc < 0) { raise(-rc); return 96; }
            return rc;
        }
    }
    fputs("stub: no entry\n", stderr);
    return 99;
}
