/* C11 harness: the real cdl_4bytes (text cut out of src/c/cdlopen.c by the check, passed as CDL_FUNCS_H) and
   the real _CFFI_GETOP/_CFFI_GETARG macros of parse_c_type.h. Input: 8 hex digits per line.
   Output: "<cdl_4bytes> <GETOP> <GETARG>" per line. */
#include <stdint.h>
#include <stddef.h>
#include <stdio.h>
#include <string.h>
#include <sys/types.h>
typedef ssize_t Py_ssize_t;
#include "parse_c_type.h"
#include CDL_FUNCS_H

int main(void) {
    char line[64];
    while (fgets(line, sizeof line, stdin)) {
        char buf[8]; unsigned int b[4]; int i; _cffi_opcode_t op; Py_ssize_t v;
        if (sscanf(line, "%2x%2x%2x%2x", &b[0], &b[1], &b[2], &b[3]) != 4) continue;
        for (i = 0; i < 4; i++) buf[i] = (char)b[i];
        v = cdl_4bytes(buf);
        op = cdl_opcode(buf);
        printf("%lld %d %lld\n", (long long)v, (int)_CFFI_GETOP(op), (long long)_CFFI_GETARG(op));
    }
    return 0;
}
