/* C05 oracle: what the platform C compiler's conversions give.  Loaded with ctypes by the check
   itself (tools/props/c05.py); never goes through cffi. */
#include <string.h>

void conv_d2f(const double *in, float *out, long n)
{ long i; for (i = 0; i < n; i++) out[i] = (float)in[i]; }

void conv_f2d(const float *in, double *out, long n)
{ long i; for (i = 0; i < n; i++) out[i] = (double)in[i]; }

/* 10 value bytes per long double */
void conv_d2ld(const double *in, unsigned char *out, long n)
{ long i; for (i = 0; i < n; i++) { long double r = (long double)in[i]; memcpy(out + 10 * i, &r, 10); } }

void conv_ld2d(const unsigned char *in, double *out, long n)
{ long i; for (i = 0; i < n; i++) { long double r = 0; memcpy(&r, in + 10 * i, 10); out[i] = (double)r; } }
