/* C36 helper: threads NOT created by Python that invoke a cffi callback on command.
   c36_start(i, cb)      create thread i (idle)
   c36_call_async(i)     thread i calls cb(i); returns immediately (the callback body blocks in Python)
   c36_wait(i)           wait until that callback has returned; returns its result
   c36_call(i)           = c36_call_async + c36_wait
   c36_exit(i)           thread i terminates (pthread key destructors run); joined
   c36_own(i, arg)       thread i does PyGILState_Ensure(); cb(arg); PyGILState_Release() (Python API via dlsym)
   c36_direct(cb, x)     call cb(x) in the calling (Python) thread */
#define _GNU_SOURCE
#include <dlfcn.h>
#include <pthread.h>
#include <semaphore.h>
#include <stdlib.h>

typedef int (*c36_cb_t)(int);
#define C36_MAXT 65536
static struct c36_th { pthread_t th; sem_t go, done; int id, cmd, result, started, arg; c36_cb_t cb; } T[C36_MAXT];

static void *c36_main(void *arg)
{
    struct c36_th *t = (struct c36_th *)arg;
    for (;;) {
        sem_wait(&t->go);
        if (t->cmd == 1) { t->result = t->cb(t->id); sem_post(&t->done); }
        else if (t->cmd == 3) {
            /* the thread brackets the call with its OWN PyGILState_Ensure/Release: the cffi callback is
               entered with the GIL already held (gil_ensure returns PyGILState_LOCKED) */
            int (*ensure)(void) = (int (*)(void))dlsym(RTLD_DEFAULT, "PyGILState_Ensure");
            void (*release)(int) = (void (*)(int))dlsym(RTLD_DEFAULT, "PyGILState_Release");
            if (ensure == NULL || release == NULL) t->result = -12345;
            else { int st = ensure(); t->result = t->cb(t->arg); release(st); }
            sem_post(&t->done);
        }
        else break;
    }
    return NULL;
}

int c36_start(int i, c36_cb_t cb)
{
    if (i < 0 || i >= C36_MAXT || T[i].started) return -1;
    T[i].id = i; T[i].cb = cb; T[i].started = 1;
    sem_init(&T[i].go, 0, 0); sem_init(&T[i].done, 0, 0);
    return pthread_create(&T[i].th, NULL, c36_main, &T[i]);
}
int c36_call_async(int i) { T[i].cmd = 1; sem_post(&T[i].go); return 0; }
int c36_wait(int i) { sem_wait(&T[i].done); return T[i].result; }
int c36_call(int i) { c36_call_async(i); return c36_wait(i); }
int c36_exit(int i) { T[i].cmd = 2; sem_post(&T[i].go); return pthread_join(T[i].th, NULL); }
int c36_own(int i, int arg) { T[i].cmd = 3; T[i].arg = arg; sem_post(&T[i].go); sem_wait(&T[i].done); return T[i].result; }
int c36_direct(c36_cb_t cb, int x) { return cb(x); }
