/* C07 harness: the unmodified parse_c_type.c (+ commontypes.c, as _cffi_backend.c includes them),
   driven on type strings read from stdin, against a type context given on stdin.

   input lines:
     C <ntypenames> <nstructs> <nenums> <nglobals> <output_size>
        followed by  ntypenames lines "<hexname>"
                     nstructs   lines "<hexname> <is_union>"
                     nenums     lines "<hexname>"
                     nglobals   lines "<hexname> <kind 0 other|1 constant_int|2 enum> <neg> <value u64>"
        (all tables must be given sorted by name, as the code generator emits them)
     S <hex string>
   output, one line per S:
     OK <result index> <n> <op_0> ... <op_n-1>      (opcodes as signed 64-bit integers)
     ERR <message number> <error_location>
*/
#include <Python.h>
#include <stdint.h>
#include <stddef.h>
#include PARSE_C_TYPE_C
#include COMMONTYPES_C
#include <stdio.h>

static const char *messages[] = {
    "",
    "internal type complexity limit reached",            /* 1 */
    "expected ')'",
    "expected '('",
    "invalid number",
    "number too large",                                  /* 5 */
    "integer constant too large",
    "disagreement about this constant's value",
    "expected a positive integer constant",
    "expected ']'",
    "'short' after another 'short' or 'long'",           /* 10 */
    "'long' after 'short'",
    "'long long long' is too long",
    "multiple 'signed' or 'unsigned'",
    "invalid combination of types",
    "internal error, please report!",                    /* 15 */
    "undefined type name",
    "struct or union name expected",
    "undefined struct/union name",
    "wrong kind of tag: struct vs union",
    "enum name expected",                                /* 20 */
    "undefined enum name",
    "identifier expected",
    "_Complex type combination unsupported",
    "unexpected symbol",                                 /* 24 */
};

static char *unhex(const char *h) {
    size_t n = 0, i;
    char *r;
    while (h[n] && h[n] != ' ' && h[n] != '\n') n++;
    n /= 2;
    r = malloc(n + 1);
    for (i = 0; i < n; i++) { unsigned int b; sscanf(h + 2*i, "%2x", &b); r[i] = (char)b; }
    r[n] = 0;
    return r;
}

static int *g_neg; static unsigned long long *g_val;
static int getconst(struct _cffi_getconst_s *gc) {
    gc->value = g_val[gc->gindex];
    return g_neg[gc->gindex];
}

int main(void) {
    static char line[1 << 20];
    struct _cffi_type_context_s ctx;
    struct _cffi_global_s *g = NULL; struct _cffi_struct_union_s *su = NULL;
    struct _cffi_typename_s *tn = NULL; struct _cffi_enum_s *en = NULL;
    unsigned int output_size = 1200;
    int i;
    memset(&ctx, 0, sizeof(ctx));
    while (fgets(line, sizeof line, stdin)) {
        if (line[0] == 'C') {
            int nt, ns, ne, ng;
            sscanf(line + 2, "%d %d %d %d %u", &nt, &ns, &ne, &ng, &output_size);
            tn = calloc(nt + 1, sizeof *tn); su = calloc(ns + 1, sizeof *su);
            en = calloc(ne + 1, sizeof *en); g = calloc(ng + 1, sizeof *g);
            g_neg = calloc(ng + 1, sizeof *g_neg); g_val = calloc(ng + 1, sizeof *g_val);
            for (i = 0; i < nt; i++) { fgets(line, sizeof line, stdin); tn[i].name = unhex(line); tn[i].type_index = i; }
            for (i = 0; i < ns; i++) {
                int u = 0; char *sp;
                fgets(line, sizeof line, stdin); su[i].name = unhex(line);
                sp = strchr(line, ' '); if (sp) sscanf(sp, "%d", &u);
                su[i].flags = u ? _CFFI_F_UNION : 0;
            }
            for (i = 0; i < ne; i++) { fgets(line, sizeof line, stdin); en[i].name = unhex(line); }
            for (i = 0; i < ng; i++) {
                int kind = 0, neg = 0; unsigned long long v = 0; char *sp;
                fgets(line, sizeof line, stdin); g[i].name = unhex(line);
                sp = strchr(line, ' '); if (sp) sscanf(sp, "%d %d %llu", &kind, &neg, &v);
                g[i].type_op = kind == 1 ? _CFFI_OP(_CFFI_OP_CONSTANT_INT, -1)
                             : kind == 2 ? _CFFI_OP(_CFFI_OP_ENUM, -1)
                             : _CFFI_OP(_CFFI_OP_GLOBAL_VAR, 0);
                g[i].address = (void *)getconst;
                g_neg[i] = neg; g_val[i] = v;
            }
            ctx.typenames = tn; ctx.num_typenames = nt; ctx.struct_unions = su; ctx.num_struct_unions = ns;
            ctx.enums = en; ctx.num_enums = ne; ctx.globals = g; ctx.num_globals = ng;
        } else if (line[0] == 'S') {
            char *s = unhex(line + 2);
            struct _cffi_parse_info_s info;
            /* exact-size heap buffer so that a sanitizer build sees any access outside it */
            _cffi_opcode_t *buf = malloc((output_size ? output_size : 1) * sizeof(_cffi_opcode_t));
            size_t len = strlen(s);
            char *exact = malloc(len + 1);       /* exact-size copy: reads past the NUL are visible too */
            int r;
            memcpy(exact, s, len + 1);
            memset(buf, 0x55, (output_size ? output_size : 1) * sizeof(_cffi_opcode_t));
            info.ctx = &ctx; info.output = buf; info.output_size = output_size;
            info.error_location = 0; info.error_message = NULL;
            r = parse_c_type(&info, exact);
            if (r < 0) {
                int code = 0;
                for (i = 1; i < (int)(sizeof messages / sizeof *messages); i++)
                    if (info.error_message && !strcmp(info.error_message, messages[i])) code = i;
                printf("ERR %d %zu\n", code, info.error_location);
            } else {
                /* how many opcodes were written: parse_c_type does not say; recompute by
                   looking for the untouched filler from the end */
                size_t n = output_size;
                while (n > 0 && buf[n-1] == (_cffi_opcode_t)0x5555555555555555ULL) n--;
                printf("OK %d %zu", r, n);
                for (i = 0; i < (int)n; i++) printf(" %lld", (long long)(intptr_t)buf[i]);
                printf("\n");
            }
            free(buf); free(exact); free(s);
        }
    }
    return 0;
}
