/* C29: call callbacks from C; report the allocator geometry the model needs. */
#include <ffi.h>
#include <unistd.h>

int c29_call_i(int (*f)(int), int x) { return f(x); }
long long c29_call_l(long long (*f)(int, long long), int a, long long b) { return f(a, b); }
double c29_call_d(double (*f)(double), double x) { return f(x); }
long c29_sizeof_closure(void) { return (long)sizeof(ffi_closure); }
long c29_pagesize(void) { long p = sysconf(_SC_PAGESIZE); return p > 0 ? p : 4096; }

/* callbacks taking char32_t / wchar_t / _Bool, invoked with an arbitrary raw value (possibly one that
   convert_to_object rejects: a code point above 0x10FFFF, a _Bool byte other than 0/1) */
int c29_call_raw32(int (*f)(unsigned int), unsigned int raw) { return f(raw); }
int c29_call_raw8(int (*f)(unsigned char), unsigned char raw) { return f(raw); }
