/* C06 harness: the unmodified parse_c_type.c; search_standard_typename driven on hex-encoded,
   length-delimited strings read from stdin (one per line; an empty line is the empty string).
   Output: one int per line (-1 = not a standard type name). */
#include <stdint.h>
#include <stddef.h>
#include PARSE_C_TYPE_C
#include <stdio.h>

int main(void) {
    static char line[1 << 12];
    while (fgets(line, sizeof line, stdin)) {
        size_t n, i;
        char *k;
        line[strcspn(line, "\n")] = 0;
        n = strlen(line) / 2;
        /* exact-size heap block followed by non-NUL filler, so that the function cannot rely on a terminator */
        k = malloc(n + 8);
        for (i = 0; i < n; i++) { unsigned int b; sscanf(line + 2*i, "%2x", &b); k[i] = (char)b; }
        memset(k + n, 'Z', 7); k[n + 7] = 0;
        printf("%d\n", search_standard_typename(k, n));
        free(k);
    }
    return 0;
}
