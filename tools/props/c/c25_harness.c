/* C25 harness: the unmodified parse_c_type.c, driven on tables read from stdin.
   input:  "T <kind> <n>\n" then n hex-encoded names; "K <hex>\n" per key; output one int per key */
#include <stdint.h>
#include <stddef.h>
#include PARSE_C_TYPE_C
#include <stdio.h>

static char *unhex(const char *h, size_t *len) {
    size_t n = strlen(h) / 2, i;
    char *r = malloc(n + 1);
    for (i = 0; i < n; i++) { unsigned int b; sscanf(h + 2*i, "%2x", &b); r[i] = (char)b; }
    r[n] = 0; *len = n; return r;
}

int main(void) {
    static char line[1 << 16];
    struct _cffi_type_context_s ctx;
    struct _cffi_global_s *g = NULL; struct _cffi_struct_union_s *su = NULL;
    struct _cffi_typename_s *tn = NULL; struct _cffi_enum_s *en = NULL;
    int kind = 0, n = 0, i;
    memset(&ctx, 0, sizeof(ctx));
    while (fgets(line, sizeof line, stdin)) {
        line[strcspn(line, "\n")] = 0;
        if (line[0] == 'T') {
            sscanf(line + 2, "%d %d", &kind, &n);
            g = calloc(n + 1, sizeof *g); su = calloc(n + 1, sizeof *su);
            tn = calloc(n + 1, sizeof *tn); en = calloc(n + 1, sizeof *en);
            for (i = 0; i < n; i++) {
                size_t l; char *s;
                if (!fgets(line, sizeof line, stdin)) return 2;
                line[strcspn(line, "\n")] = 0;
                s = unhex(line, &l);
                g[i].name = s; su[i].name = s; tn[i].name = s; en[i].name = s;
            }
            ctx.globals = g; ctx.num_globals = n; ctx.struct_unions = su; ctx.num_struct_unions = n;
            ctx.typenames = tn; ctx.num_typenames = n; ctx.enums = en; ctx.num_enums = n;
        } else if (line[0] == 'K') {
            /* "K <hexkey> <hexbyte>": the key is length-delimited; <hexbyte> is the character that
               follows it in the caller's buffer (a type string continues after an identifier) */
            char *sp = strchr(line + 2, ' '); unsigned int trail = 'Z';
            if (sp) { *sp = 0; sscanf(sp + 1, "%2x", &trail); }
            size_t l; char *s = unhex(line + 2, &l);
            char *k = malloc(l + 8); memcpy(k, s, l); memset(k + l, (int)trail, 7); k[l + 7] = 0;
            int r;
            switch (kind) {
            case 0: r = search_in_globals(&ctx, k, l); break;
            case 1: r = search_in_struct_unions(&ctx, k, l); break;
            case 2: r = search_in_typenames(&ctx, k, l); break;
            default: r = search_in_enums(&ctx, k, l); break;
            }
            printf("%d\n", r);
            free(k); free(s);
        }
    }
    return 0;
}
