/* C28 driver: threads run small scripts that call into embedded libraries; semaphores let the
   scripts and the libraries' init code (through dlopen(None)) force an interleaving; every event
   is logged under a mutex; a watchdog reports a deadlock instead of hanging.
   Built with -rdynamic: Py_InitializeEx below interposes on libpython's (call counter). */
#define _GNU_SOURCE
#include <dlfcn.h>
#include <errno.h>
#include <pthread.h>
#include <semaphore.h>
#include <stdio.h>
#include <stdlib.h>
#include <string.h>
#include <time.h>
#include <unistd.h>

extern int f0(int);
extern int f1(int);

#define NSEM 16
static sem_t sems[NSEM];
static sem_t done;
static pthread_mutex_t logmu = PTHREAD_MUTEX_INITIALIZER;
static __thread int label = -1;          /* -1: main or a thread not started by us */
static pthread_barrier_t barrier;

void c28_event(const char *text)
{
    pthread_mutex_lock(&logmu);
    printf("EV %d %s\n", label, text);
    fflush(stdout);
    pthread_mutex_unlock(&logmu);
}

void c28_post(int i) { sem_post(&sems[i]); }

void c28_wait(int i)
{
    struct timespec ts;
    clock_gettime(CLOCK_REALTIME, &ts);
    ts.tv_sec += 40;                       /* never the verdict: the watchdog fires first */
    while (sem_timedwait(&sems[i], &ts) == -1 && errno == EINTR)
        ;
}

void Py_InitializeEx(int initsigs)
{
    void (*real)(int) = (void (*)(int))dlsym(RTLD_NEXT, "Py_InitializeEx");
    c28_event("PYINIT");
    real(initsigs);
}

static void run_script(const char *script)
{
    char buf[512];
    char *tok, *save = NULL;
    strncpy(buf, script, sizeof(buf) - 1);
    buf[sizeof(buf) - 1] = 0;
    for (tok = strtok_r(buf, ",", &save); tok; tok = strtok_r(NULL, ",", &save)) {
        if (tok[0] == 'c') {               /* c<lib>:<arg> */
            int lib = tok[1] - '0', arg = atoi(tok + 3), r;
            char msg[64];
            snprintf(msg, sizeof msg, "CALL %d %d", lib, arg);
            c28_event(msg);
            r = lib == 0 ? f0(arg) : f1(arg);
            snprintf(msg, sizeof msg, "RES %d %d %d", lib, arg, r);
            c28_event(msg);
        }
        else if (tok[0] == 'w') c28_wait(atoi(tok + 1));
        else if (tok[0] == 'p') c28_post(atoi(tok + 1));
        else if (tok[0] == 'b') pthread_barrier_wait(&barrier);
        else if (tok[0] == 'd') usleep(1000 * atoi(tok + 1));
    }
}

struct targ { int label; const char *script; };

static void *thread_main(void *p)
{
    struct targ *a = p;
    label = a->label;
    run_script(a->script);
    sem_post(&done);
    return NULL;
}

int main(int argc, char **argv)
{
    /* argv[1] = script of main (posts / delays), argv[2..] = one script per thread */
    int n = argc - 2, i;
    struct targ args[16];
    pthread_t th[16];
    struct timespec ts;
    if (n < 1 || n > 16) return 2;
    for (i = 0; i < NSEM; i++) sem_init(&sems[i], 0, 0);
    sem_init(&done, 0, 0);
    pthread_barrier_init(&barrier, NULL, n);
    for (i = 0; i < n; i++) {
        args[i].label = i;
        args[i].script = argv[2 + i];
        pthread_create(&th[i], NULL, thread_main, &args[i]);
    }
    run_script(argv[1]);
    clock_gettime(CLOCK_REALTIME, &ts);
    ts.tv_sec += atoi(getenv("C28_WATCHDOG") ? getenv("C28_WATCHDOG") : "20");
    for (i = 0; i < n; i++) {
        int r;
        while ((r = sem_timedwait(&done, &ts)) == -1 && errno == EINTR)
            ;
        if (r == -1) {
            c28_event("DEADLOCK");
            _exit(3);
        }
    }
    c28_event("ALLDONE");
    fflush(stdout);
    _exit(0);          /* no Py_Finalize: not the subject */
}
