"""C35 worker: runs the real cffi.pkgconfig functions from the scratch copy.
kinds: flags (pkgconfig.call replaced by a table), flags-stub / call (real `pkg-config` stub first on PATH,
tools/props/c/c35_stub.c), merge (merge_flags on generated dictionaries)."""
import os
import shutil
import subprocess

import cffi
from cffi import pkgconfig
from cffi.error import PkgConfigError
from lib.vlib import worker_main

assert os.path.dirname(cffi.__file__).startswith(os.environ["VERIF_SCRATCH"]), cffi.__file__

NONLIST = {1: "a string", 2: ("t", "u"), 3: None, 4: 7, 5: {"d": 1}}


def canon_flag(f):
    if isinstance(f, str):
        return f
    if isinstance(f, tuple) and all(x is None or isinstance(x, str) for x in f):
        return list(f)
    return {"unexpected": repr(f)}


def canon_cfg(d):
    out = []
    for k, v in d.items():
        if isinstance(v, list):
            out.append([k, [canon_flag(f) for f in v]])
        else:
            tag = [t for t, o in NONLIST.items() if o is v or (type(o) is type(v) and o == v)]
            out.append([k, {"x": tag[0] if tag else 0}])
    return out


def build_cfg(items):
    d = {}
    for k, v in items:
        if isinstance(v, dict):
            d[k] = NONLIST[v["x"]]
        else:
            d[k] = [tuple(f) if isinstance(f, list) else f for f in v]
    return d


def outcome(fn, canon):
    """canonical result: canon(value) or the exception's class name (a str)"""
    try:
        v = fn()
    except BaseException as e:      # class only
        return type(e).__name__
    return canon(v)


def main(payload):
    work = os.environ["VERIF_WORK"]
    stubdir = os.path.join(work, "c35stub")
    bindir = os.path.join(stubdir, "bin")
    emptydir = os.path.join(stubdir, "empty")
    noexecdir = os.path.join(stubdir, "noexec")
    for d in (bindir, emptydir, noexecdir):
        os.makedirs(d, exist_ok=True)
    stub = os.path.join(bindir, "pkg-config")
    if any(c["kind"] in ("flags-stub", "call") for c in payload["cases"]):
        src = os.path.join(os.environ["VERIF_ROOT"], "tools", "props", "c", "c35_stub.c")
        subprocess.run(["gcc", "-O1", "-w", "-o", stub, src], check=True)
        shutil.copy(stub, os.path.join(noexecdir, "pkg-config"))
        os.chmod(os.path.join(noexecdir, "pkg-config"), 0o644)
    os.environ["C35_STUB_DIR"] = stubdir
    real_call = pkgconfig.call
    log = os.path.join(stubdir, "log")
    results = []

    def set_table(table):
        with open(os.path.join(stubdir, "table.txt"), "w") as f:
            for key, e in table.items():
                f.write("%s %d %s\n" % (key.encode("utf-8").hex(), e["rc"], e["out"]))
        if os.path.exists(log):
            os.unlink(log)

    def read_log():
        if not os.path.exists(log):
            return []
        return [[bytes.fromhex(a).decode("utf-8", "surrogateescape") for a in l.split()] for l in open(log)]

    for c in payload["cases"]:
        kind = c["kind"]
        r = {}
        if kind == "flags":
            table = c["table"]

            def fake_call(libname, flag, encoding=None):
                e = table[libname + "\0" + flag]
                if e["rc"] != 0:
                    raise PkgConfigError("stub failure")
                return "".join(chr(x) for x in e["text"])
            pkgconfig.call = fake_call
            try:
                r["result"] = outcome(lambda: pkgconfig.flags_from_pkgconfig(list(c["libs"])), canon_cfg)
            finally:
                pkgconfig.call = real_call
        elif kind == "flags-stub":
            set_table(c["table"])
            os.environ["PATH"] = bindir
            r["result"] = outcome(lambda: pkgconfig.flags_from_pkgconfig(list(c["libs"])), canon_cfg)
            r["argv"] = read_log()
        elif kind == "call":
            set_table({c["lib"] + "\0" + c["flag"]: c["entry"]})
            os.environ["PATH"] = {"ok": bindir, "nostub": emptydir, "noexec": noexecdir}[c["spawn"]]
            r["result"] = outcome(lambda: pkgconfig.call(c["lib"], c["flag"]),
                                  lambda v: {"text": v} if isinstance(v, str) else {"unexpected": repr(v)})
            r["argv"] = read_log()
        elif kind == "merge":
            c1, c2 = build_cfg(c["cfg1"]), build_cfg(c["cfg2"])
            r["result"] = outcome(lambda: pkgconfig.merge_flags(c1, c2),
                                  lambda v: canon_cfg(v) if v is c1 else {"unexpected": "result is not cfg1"})
        results.append(r)
    return dict(results=results)


if __name__ == "__main__":
    worker_main(main)
