"""C18 worker (runs inside the scratch build): ffi.unpack(p, n) and [p[i] for i in range(n)] on the same
memory, for pointer cdata at a chosen misalignment and for array cdata (from_buffer)."""
import struct

import cffi
from lib.vlib import worker_main

CDEF = """
struct s3 { char a[3]; };
struct s8 { int a; float b; };
struct s0 { };
union u4 { int i; char c[3]; };
enum e_s { ES_A = -5, ES_B = 7 };
enum e_u { EU_A = 0, EU_B = 0xFFFFFFFF };
enum e_l { EL_A = -1, EL_B = 0x100000000 };
struct opq;
"""

REL = 4096   # addresses are reported relative to a 64-aligned base, shifted by REL


def dbits(x):
    return struct.unpack("<Q", struct.pack("<d", x))[0]


class Canon:
    def __init__(self, ffi, base, itemtype):
        self.ffi, self.base, self.itemtype = ffi, base, itemtype

    def item(self, x):
        ffi = self.ffi
        if isinstance(x, bool):
            return ["b", int(x)]
        if isinstance(x, int):
            return ["i", x]
        if isinstance(x, float):
            return ["f", dbits(x)]
        if isinstance(x, complex):
            return ["c", dbits(x.real), dbits(x.imag)]
        if isinstance(x, bytes):
            return ["bytes", list(x)]
        if isinstance(x, str):
            return ["str", [ord(c) for c in x]]
        if isinstance(x, ffi.CData):
            t = ffi.typeof(x)
            if t.kind == "primitive":            # long double
                if t is not self.itemtype:
                    return ["badtype", t.cname]
                q = ffi.new("long double *", x)
                return ["ld", list(bytes(ffi.buffer(q, 10)))]
            if t.kind in ("pointer", "function"):
                if t is not self.itemtype:
                    return ["badtype", t.cname]
                return ["p", int(ffi.cast("uintptr_t", x))]
            if t.kind in ("struct", "union"):
                if t is not self.itemtype:
                    return ["badtype", t.cname]
                return ["v", int(ffi.cast("uintptr_t", ffi.addressof(x))) - self.base + REL]
            if t.kind == "array":
                if t is not self.itemtype:
                    return ["badtype", t.cname]
                return ["v", int(ffi.cast("uintptr_t", x)) - self.base + REL]
        return ["unknown", repr(x)]

    def whole(self, r):
        if isinstance(r, list):
            return ["list", [self.item(x) for x in r]]
        return self.item(r)


def run_case(ffi, c):
    content = bytes.fromhex(c["content"])
    k, n = c["k"], c["n"]
    itemtype = ffi.typeof(c["ctype"])
    if c["mode"] == "ptr":
        keep = ffi.new("char[]", len(content) + 192)
        a0 = int(ffi.cast("uintptr_t", keep))
        base = (a0 + 63) & ~63
        start = base + k
        ffi.memmove(ffi.cast("char *", start), content, len(content))
        p = ffi.cast(ffi.getctype(c["ctype"], "*"), start)
    else:
        ba = bytearray(len(content) + 192)
        probe = ffi.from_buffer("char[]", ba)
        a0 = int(ffi.cast("uintptr_t", probe))
        base = (a0 + 63) & ~63
        off = base - a0 + k
        ba[off:off + len(content)] = content
        size = ffi.sizeof(itemtype)
        keep = memoryview(ba)[off:off + n * size]
        p = ffi.from_buffer(ffi.getctype(c["ctype"], "[]"), keep)
        if len(p) != n and size:
            return dict(error="from_buffer length %d != %d" % (len(p), n))
        start = base + k
        if int(ffi.cast("uintptr_t", p)) != start:
            return dict(error="from_buffer address")
    canon = Canon(ffi, base, itemtype)
    try:
        u = canon.whole(ffi.unpack(p, n))
    except Exception as e:
        u = ["err", type(e).__name__]
    try:
        items = [p[i] for i in range(n)]
        if itemtype.kind == "primitive" and itemtype.cname == "char":
            ew = canon.whole(b"".join(items))
        elif itemtype.kind == "primitive" and itemtype.cname in ("char16_t", "char32_t", "wchar_t"):
            ew = canon.whole("".join(items))
        else:
            ew = canon.whole(items)
    except Exception as e:
        ew = ["err", type(e).__name__]
    return dict(unpack=u, elementwise=ew)


def describe(ffi, name):
    t = ffi.typeof(name)
    d = dict(kind=t.kind, cname=t.cname)
    try:
        d["size"] = ffi.sizeof(t)
        d["align"] = ffi.alignof(t)
    except Exception:
        d["size"], d["align"] = -1, 1
    if t.kind in ("primitive", "enum") and t.cname not in ("float", "double", "long double", "float _Complex",
                                                            "double _Complex"):
        try:
            d["signed"] = int(ffi.cast(t, -1)) < 0
        except Exception:
            d["signed"] = None
    return d


def main(payload):
    ffi = cffi.FFI()
    ffi.cdef(CDEF)
    out = dict(types={n: describe(ffi, n) for n in payload["types"]},
               sizes={n: ffi.sizeof(n) for n in ("signed char", "short", "int", "long", "long long", "float",
                                                 "double", "long double", "void *")},
               results=[])
    for c in payload["cases"]:
        try:
            out["results"].append(run_case(ffi, c))
        except Exception as e:
            out["results"].append(dict(error="%s: %s" % (type(e).__name__, e)))
    return out


worker_main(main)
