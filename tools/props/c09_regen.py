"""Regeneration of coq/C09/Gen.v from src/cffi/cparser.py (tie A, fail closed).

Translated: Parser._c_div (whole body, statement translator below), the unary and binary operator
dispatch of Parser._parse_constant (shape-matched; the holes are the operator strings and the returned
expressions), the table _simple_escapes, and the pattern text of _r_int_literal.
Everything is translated into the result monad of C09/Prim.v so that Python's implicit exceptions
(ZeroDivisionError, ValueError of a negative shift count) are explicit.

The parts of _parse_constant that are modelled by hand (literal scanning, identifiers) are compared
with a recorded shape; if they changed the translation fails closed and the committed snapshot is used.
"""
import ast
import hashlib
import os

from lib import py2coq
from lib.py2coq import Untranslatable

TOTAL = {ast.Add: "Z.add", ast.Sub: "Z.sub", ast.Mult: "Z.mul", ast.BitAnd: "Z.land", ast.BitOr: "Z.lor",
         ast.BitXor: "Z.lxor"}
PARTIAL = {ast.FloorDiv: "py_floordiv", ast.Mod: "py_mod", ast.LShift: "py_lshift", ast.RShift: "py_rshift"}
CMP = {ast.Lt: "Z.ltb", ast.LtE: "Z.leb", ast.Eq: "Z.eqb", ast.Gt: "Z.gtb", ast.GtE: "Z.geb"}


class M:
    """monadic expression translator: Python int expression -> Gallina term of type `res Z`"""

    def __init__(self, names, calls=None):
        self.names = dict(names)          # python name -> Gallina variable of type Z
        self.calls = dict(calls or {})    # dotted callee -> Gallina function Z -> Z -> res Z (binary)

    def dotted(self, node):
        if isinstance(node, ast.Name):
            return node.id
        if isinstance(node, ast.Attribute):
            return self.dotted(node.value) + "." + node.attr
        raise Untranslatable("not a dotted name: " + ast.dump(node)[:100])

    def z(self, node):
        if isinstance(node, ast.Constant) and isinstance(node.value, int) and not isinstance(node.value, bool):
            return "(Ok (%d))" % node.value
        if isinstance(node, (ast.Name, ast.Attribute)):
            d = self.dotted(node)
            if d in self.names:
                return "(Ok %s)" % self.names[d]
            raise Untranslatable("unknown name " + d)
        if isinstance(node, ast.UnaryOp) and isinstance(node.op, ast.USub):
            return "(bind %s (fun v => Ok (Z.opp v)))" % self.z(node.operand)
        if isinstance(node, ast.UnaryOp) and isinstance(node.op, ast.UAdd):
            return "(bind %s (fun v => Ok v))" % self.z(node.operand)
        if isinstance(node, ast.UnaryOp) and isinstance(node.op, ast.Invert):
            return "(bind %s (fun v => Ok (Z.lnot v)))" % self.z(node.operand)
        if isinstance(node, ast.BinOp) and type(node.op) in TOTAL:
            return "(bind2 %s %s (fun x y => Ok (%s x y)))" % (self.z(node.left), self.z(node.right), TOTAL[type(node.op)])
        if isinstance(node, ast.BinOp) and type(node.op) in PARTIAL:
            return "(bind2 %s %s %s)" % (self.z(node.left), self.z(node.right), PARTIAL[type(node.op)])
        if isinstance(node, ast.Call) and not node.keywords and len(node.args) == 2:
            d = self.dotted(node.func)
            if d in self.calls:
                return "(bind2 %s %s %s)" % (self.z(node.args[0]), self.z(node.args[1]), self.calls[d])
            raise Untranslatable("call to " + d)
        raise Untranslatable("expression " + ast.dump(node)[:160])

    def b(self, node):
        """-> term of type res bool"""
        if isinstance(node, ast.Compare) and len(node.ops) == 1:
            op = node.ops[0]
            l, r = self.z(node.left), self.z(node.comparators[0])
            if type(op) in CMP:
                return "(bind2 %s %s (fun x y => Ok (%s x y)))" % (l, r, CMP[type(op)])
            if isinstance(op, ast.NotEq):
                return "(bind2 %s %s (fun x y => Ok (negb (Z.eqb x y))))" % (l, r)
            raise Untranslatable("comparison " + type(op).__name__)
        if isinstance(node, ast.BoolOp) and isinstance(node.op, ast.And):
            out = self.b(node.values[-1])
            for v in reversed(node.values[:-1]):
                out = "(and_then %s %s)" % (self.b(v), out)
            return out
        if isinstance(node, ast.BinOp) and isinstance(node.op, ast.BitXor):
            return "(bind2 %s %s (fun x y => Ok (xorb x y)))" % (self.b(node.left), self.b(node.right))
        if isinstance(node, ast.UnaryOp) and isinstance(node.op, ast.Not):
            return "(bind %s (fun t => Ok (negb t)))" % self.b(node.operand)
        raise Untranslatable("condition " + ast.dump(node)[:160])


def pure_b(node, names):
    """guard conditions of the BinaryOp block: comparisons of left/right with constants, tests on exprnode.op;
    no partial operation may occur -> a plain Gallina bool"""
    def z(n):
        if isinstance(n, ast.Constant) and isinstance(n.value, int) and not isinstance(n.value, bool):
            return "(%d)" % n.value
        if isinstance(n, ast.Name) and n.id in names:
            return names[n.id]
        if isinstance(n, ast.UnaryOp) and isinstance(n.op, ast.USub):
            return "(Z.opp %s)" % z(n.operand)
        raise Untranslatable("guard operand " + ast.dump(n)[:120])

    def is_op(n):
        return py2coq.shape(n) == py2coq.shape(ast.parse("exprnode.op", mode="eval").body)

    if isinstance(node, ast.BoolOp):
        f = "andb" if isinstance(node.op, ast.And) else "orb"
        out = pure_b(node.values[0], names)
        for v in node.values[1:]:
            out = "(%s %s %s)" % (f, out, pure_b(v, names))
        return out
    if isinstance(node, ast.UnaryOp) and isinstance(node.op, ast.Not):
        return "(negb %s)" % pure_b(node.operand, names)
    if isinstance(node, ast.Compare):
        if len(node.ops) == 1 and is_op(node.left):
            c = node.comparators[0]
            if isinstance(node.ops[0], ast.Eq) and isinstance(c, ast.Constant) and isinstance(c.value, str):
                return "(String.eqb op %s)" % coq_string(c.value)
            if isinstance(node.ops[0], ast.In) and isinstance(c, (ast.Tuple, ast.List)) and c.elts and all(
                    isinstance(e, ast.Constant) and isinstance(e.value, str) for e in c.elts):
                out = "(String.eqb op %s)" % coq_string(c.elts[0].value)
                for e in c.elts[1:]:
                    out = "(orb %s (String.eqb op %s))" % (out, coq_string(e.value))
                return out
            raise Untranslatable("guard test on exprnode.op")
        parts, left = [], node.left
        for op, right in zip(node.ops, node.comparators):
            if type(op) in CMP:
                parts.append("(%s %s %s)" % (CMP[type(op)], z(left), z(right)))
            elif isinstance(op, ast.NotEq):
                parts.append("(negb (Z.eqb %s %s))" % (z(left), z(right)))
            else:
                raise Untranslatable("guard comparison")
            left = right
        out = parts[0]
        for q in parts[1:]:
            out = "(andb %s %s)" % (out, q)
        return out
    raise Untranslatable("guard " + ast.dump(node)[:120])


def exn_of_raise(stmt):
    if not isinstance(stmt, ast.Raise) or stmt.exc is None:
        raise Untranslatable("raise form")
    exc = stmt.exc
    name = exc.func.id if isinstance(exc, ast.Call) and isinstance(exc.func, ast.Name) else \
        exc.id if isinstance(exc, ast.Name) else None
    if name not in ("CDefError", "FFIError", "ValueError", "ZeroDivisionError", "TypeError"):
        raise Untranslatable("raise of %r" % (name,))
    return name


def stmts(m, body):
    """statement list -> term of type res Z.  Accepted: `if C: raise E(...)`, `x = E`, `x op= E`,
    `if C: x op= E` / `if C: x = E` (no else), `return E`."""
    if not body:
        raise Untranslatable("function body falls off the end")
    s, rest = body[0], body[1:]
    if isinstance(s, ast.Expr) and isinstance(s.value, ast.Constant) and isinstance(s.value.value, str):
        return stmts(m, rest)                                  # docstring
    if isinstance(s, ast.Return) and s.value is not None:
        return m.z(s.value)
    if isinstance(s, ast.Assign) and len(s.targets) == 1 and isinstance(s.targets[0], ast.Name):
        v = s.targets[0].id
        rhs = m.z(s.value)
        m2 = M(dict(m.names, **{v: v}), m.calls)
        return "(bind %s (fun %s =>\n   %s))" % (rhs, v, stmts(m2, rest))
    if isinstance(s, ast.AugAssign) and isinstance(s.target, ast.Name) and s.target.id in m.names:
        v = s.target.id
        rhs = m.z(ast.BinOp(left=ast.Name(id=v, ctx=ast.Load()), op=s.op, right=s.value))
        return "(bind %s (fun %s =>\n   %s))" % (rhs, v, stmts(m, rest))
    if isinstance(s, ast.If) and not s.orelse and len(s.body) == 1:
        inner = s.body[0]
        if isinstance(inner, ast.Raise):
            return "(bind %s (fun t => if t then Err %s else\n   %s))" % (m.b(s.test), exn_of_raise(inner), stmts(m, rest))
        if isinstance(inner, ast.AugAssign) and isinstance(inner.target, ast.Name) and inner.target.id in m.names:
            v = inner.target.id
            rhs = m.z(ast.BinOp(left=ast.Name(id=v, ctx=ast.Load()), op=inner.op, right=inner.value))
            return "(bind %s (fun t => bind (if t then %s else Ok %s) (fun %s =>\n   %s)))" % (
                m.b(s.test), rhs, m.names[v], v, stmts(m, rest))
        if isinstance(inner, ast.Assign) and len(inner.targets) == 1 and isinstance(inner.targets[0], ast.Name) \
                and inner.targets[0].id in m.names:
            v = inner.targets[0].id
            return "(bind %s (fun t => bind (if t then %s else Ok %s) (fun %s =>\n   %s)))" % (
                m.b(s.test), m.z(inner.value), m.names[v], v, stmts(m, rest))
    raise Untranslatable("statement " + ast.dump(s)[:200])


def coq_string(s):
    if any(ord(c) < 32 or ord(c) > 126 for c in s):
        raise Untranslatable("operator string %r" % s)
    return '"%s"%%string' % s.replace('"', '""')


def is_op_test(test, cls=None):
    """`exprnode.op == 'X'`  or  `isinstance(exprnode, pycparser.c_ast.CLS) and exprnode.op == 'X'` -> 'X'"""
    if cls is not None:
        if not (isinstance(test, ast.BoolOp) and isinstance(test.op, ast.And) and len(test.values) == 2):
            return None
        isi, test = test.values
        if py2coq.shape(isi) != py2coq.shape(ast.parse("isinstance(exprnode, pycparser.c_ast.%s)" % cls, mode="eval").body):
            return None
    if (isinstance(test, ast.Compare) and len(test.ops) == 1 and isinstance(test.ops[0], ast.Eq)
            and py2coq.shape(test.left) == py2coq.shape(ast.parse("exprnode.op", mode="eval").body)
            and isinstance(test.comparators[0], ast.Constant) and isinstance(test.comparators[0].value, str)):
        return test.comparators[0].value
    return None


# recorded shapes of the hand-modelled parts of _parse_constant (sha1 of ast.dump without attributes)
HAND_SHAPES = {
    "constant": None,     # filled by record_shapes() below when the snapshot is (re)recorded
}
SHAPES_FILE = os.path.join(os.path.dirname(os.path.abspath(__file__)), "c09_shapes.txt")


def sha(node_or_nodes):
    if isinstance(node_or_nodes, list):
        text = "|".join(py2coq.shape(n) for n in node_or_nodes)
    else:
        text = py2coq.shape(node_or_nodes)
    return hashlib.sha1(text.encode()).hexdigest()


def load_shapes():
    out = {}
    if os.path.exists(SHAPES_FILE):
        for line in open(SHAPES_FILE):
            if line.strip() and not line.startswith("#"):
                k, v = line.split()
                out[k] = v
    return out


def translate(repo, record=False):
    """returns the text of Gen.v; raises Untranslatable"""
    path = os.path.join(repo, "src", "cffi", "cparser.py")
    tree = py2coq.parse_source(path)
    shapes = {}
    # ---- _c_div
    f = py2coq.find_function(tree, "_c_div", cls="Parser")
    args = [a.arg for a in f.args.args]
    if args != ["self", "a", "b"] or f.args.vararg or f.args.kwarg or f.args.defaults:
        raise Untranslatable("_c_div signature %r" % args)
    c_div = stmts(M({"a": "a", "b": "b"}), f.body)
    # ---- _parse_constant
    f = py2coq.find_function(tree, "_parse_constant", cls="Parser")
    unary, binary, other = [], None, []
    for s in f.body:
        if isinstance(s, ast.If) and not s.orelse:
            op = is_op_test(s.test, "UnaryOp")
            if op is not None:
                if len(s.body) != 1 or not isinstance(s.body[0], ast.Return):
                    raise Untranslatable("unary branch body")
                # the operand: self._parse_constant(exprnode.expr)  ->  variable v
                class Sub(ast.NodeTransformer):
                    n = 0

                    def visit_Call(self, node):
                        if py2coq.shape(node) == py2coq.shape(
                                ast.parse("self._parse_constant(exprnode.expr)", mode="eval").body):
                            Sub.n += 1
                            return ast.Name(id="v", ctx=ast.Load())
                        return self.generic_visit(node)
                e = Sub().visit(s.body[0].value)
                if Sub.n != 1:
                    raise Untranslatable("unary branch must evaluate its operand exactly once")
                unary.append((op, M({"v": "v"}).z(e)))
                continue
            if py2coq.shape(s.test) == py2coq.shape(
                    ast.parse("isinstance(exprnode, pycparser.c_ast.BinaryOp)", mode="eval").body):
                if binary is not None:
                    raise Untranslatable("two BinaryOp blocks")
                b = s.body
                want = ["left = self._parse_constant(exprnode.left)", "right = self._parse_constant(exprnode.right)"]
                if len(b) < 3 or [py2coq.shape(x) for x in b[:2]] != [py2coq.shape(ast.parse(w).body[0]) for w in want]:
                    raise Untranslatable("BinaryOp block: operands are not evaluated as left, right first")
                # optional guards `if COND: raise E(...)` between the operands and the dispatch
                guards = []
                for g in b[2:-1]:
                    if not (isinstance(g, ast.If) and not g.orelse and len(g.body) == 1 and isinstance(g.body[0], ast.Raise)):
                        raise Untranslatable("BinaryOp block: unexpected statement before the dispatch")
                    guards.append((pure_b(g.test, {"left": "left", "right": "right"}), exn_of_raise(g.body[0])))
                chain, node = [], b[-1]
                m = M({"left": "left", "right": "right"}, {"self._c_div": "c_div"})
                while True:
                    if not isinstance(node, ast.If):
                        raise Untranslatable("BinaryOp dispatch is not an if/elif chain")
                    op = is_op_test(node.test)
                    if op is None or len(node.body) != 1 or not isinstance(node.body[0], ast.Return):
                        raise Untranslatable("BinaryOp dispatch branch")
                    chain.append((op, m.z(node.body[0].value)))
                    if not node.orelse:
                        break
                    if len(node.orelse) != 1:
                        raise Untranslatable("BinaryOp dispatch else branch")
                    node = node.orelse[0]
                binary = chain
                continue
        other.append(s)
    binary_guards = guards if binary is not None else []
    if binary is None or not unary:
        raise Untranslatable("operator dispatch not found")
    shapes["parse_constant_rest"] = sha(other)          # Constant branch, ID branches, final raise (hand model)
    # ---- tables
    esc = py2coq.find_assign(tree, "_simple_escapes")
    if not isinstance(esc, ast.Dict):
        raise Untranslatable("_simple_escapes is not a dict literal")
    table = []
    for k, v in zip(esc.keys, esc.values):
        if not (isinstance(k, ast.Constant) and isinstance(k.value, str) and len(k.value) == 1
                and isinstance(v, ast.Constant) and isinstance(v.value, int) and not isinstance(v.value, bool)):
            raise Untranslatable("_simple_escapes entry")
        table.append((ord(k.value), v.value))
    lit = py2coq.find_assign(tree, "_r_int_literal")
    if not (isinstance(lit, ast.Call) and py2coq.shape(lit.func) == py2coq.shape(ast.parse("re.compile", mode="eval").body)
            and lit.args and isinstance(lit.args[0], ast.Constant) and isinstance(lit.args[0].value, str)):
        raise Untranslatable("_r_int_literal form")
    shapes["r_int_literal"] = hashlib.sha1((lit.args[0].value + "|" + py2coq.shape(lit)).encode()).hexdigest()
    f = py2coq.find_function(tree, "_add_integer_constant", cls="Parser")
    shapes["add_integer_constant"] = sha(f.body)
    f = py2coq.find_function(tree, "_process_macros", cls="Parser")
    shapes["process_macros"] = sha(f.body)
    if record:
        with open(SHAPES_FILE, "w") as out:
            out.write("# shapes of the hand-modelled code (C09/Model.v, C30/Model.v); rewritten only with --record\n")
            for k in sorted(shapes):
                out.write("%s %s\n" % (k, shapes[k]))
    else:
        rec = load_shapes()
        for k in sorted(shapes):
            if rec.get(k) != shapes[k]:
                raise Untranslatable("hand-modelled code changed: %s" % k)

    def chain_text(name, params, entries, wrap, pre=()):
        out = "Definition %s (op : string) %s :=\n" % (name, params)
        for cond, exn in pre:
            out += "  if %s then Some (Err %s) else\n" % (cond, exn)
        for op, term in entries:
            out += "  if String.eqb op %s then Some %s else\n" % (coq_string(op), wrap(term))
        return out + "  None.\n"

    text = ("(* GENERATED from src/cffi/cparser.py by tools/props/c09_regen.py -- do not edit.\n"
            "   Parser._c_div, the operator dispatch of Parser._parse_constant, _simple_escapes. *)\n"
            "From Coq Require Import ZArith NArith String List Bool.\nImport ListNotations.\n"
            "From Cffi Require Import C09.Prim.\nOpen Scope Z_scope.\n\n"
            "Definition c_div (a b : Z) : res Z :=\n  %s.\n\n" % c_div)
    text += "(* None: no branch of _parse_constant handles this operator (falls through to the final raise) *)\n"
    text += chain_text("unop", ": option (Z -> res Z)", unary, lambda t: "(fun v : Z => %s)" % t) + "\n"
    text += chain_text("binop", "(left right : Z) : option (res Z)", binary, lambda t: t, binary_guards) + "\n"
    text += "Definition simple_escapes : list (N * Z) :=\n  [%s].\n" % "; ".join("(%d%%N, %d)" % kv for kv in table)
    return text


def regen(ctx, coqdir, repo):
    try:
        from props import c09_lenpath
    except ImportError:
        import c09_lenpath
    gen = os.path.join(coqdir, "C09", "Gen.v")
    # the array-length path (realize_c_type.c -> new_array_type) is regenerated independently of the cparser.py part:
    # it never falls back to the snapshot (what cannot be followed becomes a hop of width 0 = broken obligation)
    lenpath = c09_lenpath.coq_text(c09_lenpath.length_path(repo))
    try:
        text = translate(repo) + lenpath
    except (Untranslatable, OSError, SyntaxError) as e:
        try:
            old = open(gen).read()
            cut = old.find(c09_lenpath.MARKER)
            py2coq.write_if_changed(gen, (old[:cut] if cut >= 0 else old) + lenpath)
        except OSError:
            pass
        ctx.translator("C09/Gen.v", "fallback: %s (length_path regenerated)" % e)
        return False
    ctx.translator("C09/Gen.v", py2coq.write_if_changed(gen, text))
    return True


if __name__ == "__main__":
    import sys
    sys.path.insert(0, os.path.dirname(os.path.dirname(os.path.abspath(__file__))))
    print(translate(os.environ.get("VERIF_REPO", "/repo"), record="--record" in sys.argv))
