"""C32 — verify() module names are deterministic and input-sensitive.

Tie A (regeneration): coq/C32/Gen.v is rebuilt on every run from src/cffi/ffiplatform.py (_flatten, flatten:
generic translator tools/props/c35_trans.py) and src/cffi/verifier.py (Verifier.__init__, the branch that
assembles key, k1, k2 and the module name: shape-matched driver below), and coq/C32/Props.v is re-checked.
Tie B (correspondence): ffiplatform.flatten and Verifier(...).get_module_name() from the scratch copy vs the
regenerated model evaluated in Coq (CRC32 supplied as data); the property itself is evaluated on the
implementation: same name across processes / PYTHONHASHSEED values / keyword orders, and distinct keys for
pairs of inequivalent inputs (including near-collisions built by re-splitting strings).
"""
import ast
import copy
import json
import os
import re
import zlib

from lib import py2coq, vlib
from lib.py2coq import Untranslatable
from lib.vlib import cbool, cbytes, clist, cn, copt, cpair, cstr, cz
from props import c35_trans as T
from props import c35

ID = "C32"
GEN = os.path.join(vlib.COQ, "C32", "Gen.v")
SRC_F = "src/cffi/ffiplatform.py"
SRC_V = "src/cffi/verifier.py"
SRC_A = "src/cffi/api.py"


# ---------------------------------------------------------------------------- regeneration

def int_or_long_is_int(tree):
    """ffiplatform.py binds int_or_long = int on Python 3 (try: int_or_long = (int, long) except NameError: ...)"""
    for node in tree.body:
        if isinstance(node, ast.Try):
            for h in node.handlers:
                for s in h.body:
                    if isinstance(s, ast.Assign) and len(s.targets) == 1 and isinstance(s.targets[0], ast.Name) \
                            and s.targets[0].id == "int_or_long" and isinstance(s.value, ast.Name) and s.value.id == "int":
                        return True
    return False


class Subst(ast.NodeTransformer):
    """replace recorded sub-expressions (by dump) with plain names"""

    def __init__(self, table):
        self.table = table
        self.used = set()

    def generic_visit(self, node):
        d = ast.dump(node)
        if d in self.table:
            self.used.add(d)
            return ast.copy_location(ast.Name(id=self.table[d], ctx=ast.Load()), node)
        return super().generic_visit(node)

    def visit(self, node):
        d = ast.dump(node)
        if d in self.table:
            self.used.add(d)
            return ast.copy_location(ast.Name(id=self.table[d], ctx=ast.Load()), node)
        return super().visit(node)


def _expr(src):
    return ast.dump(ast.parse(src, mode="eval").body)


def translate_verifier(tree):
    """Verifier.__init__: `if not modulename: flattened_kwds = ffiplatform.flatten(kwds)` and the else-branch of
    `if modulename:` computing key/k1/k2/modulename.  Fail closed on any other shape."""
    init = py2coq.find_function(tree, "__init__", cls="Verifier")
    if init.args.kwarg is None or init.args.kwarg.arg != "kwds":
        raise Untranslatable("Verifier.__init__ no longer collects **kwds")
    want_flat = ast.dump(ast.parse("if not modulename:\n    flattened_kwds = ffiplatform.flatten(kwds)").body[0])
    pos_flat = [i for i, s in enumerate(init.body) if ast.dump(s) == want_flat]
    if len(pos_flat) != 1:
        raise Untranslatable("`if not modulename: flattened_kwds = ffiplatform.flatten(kwds)` not found")
    # kwds must not be modified before it is flattened
    for s in init.body[:pos_flat[0]]:
        for sub in ast.walk(s):
            if isinstance(sub, ast.Name) and sub.id == "kwds":
                raise Untranslatable("kwds is used before it is flattened")
    branch = [s for s in init.body if isinstance(s, ast.If) and ast.dump(s.test) == _expr("modulename")]
    if len(branch) != 1 or not branch[0].orelse:
        raise Untranslatable("`if modulename: ... else:` not found")
    block = copy.deepcopy(branch[0].orelse)
    # the version test is constant on Python 3
    out = []
    for s in block:
        if isinstance(s, ast.If) and ast.dump(s.test) == _expr("sys.version_info >= (3,)") and not s.orelse:
            out += s.body
        else:
            out.append(s)
    sub = Subst({
        _expr("'%d.%d' % sys.version_info[:2]"): "version",
        _expr("__version_verifier_modules__"): "vvm",
        _expr("ffi._cdefsources"): "cdefsources",
        _expr("self._vengine._class_key"): "class_key",
    })
    out = [sub.visit(s) for s in out]
    if len(sub.used) != 4:
        raise Untranslatable("key assembly: an expected input (version, __version_verifier_modules__, "
                             "ffi._cdefsources, _class_key) is missing")
    for s in out:
        ast.fix_missing_locations(s)
    # first statement: key = <expr>
    if not (out and isinstance(out[0], ast.Assign) and isinstance(out[0].targets[0], ast.Name)
            and out[0].targets[0].id == "key"):
        raise Untranslatable("key assembly: first statement is not `key = ...`")
    if not (isinstance(out[-1], ast.Assign) and isinstance(out[-1].targets[0], ast.Name)
            and out[-1].targets[0].id == "modulename"):
        raise Untranslatable("key assembly: last statement is not `modulename = ...`")
    env_key = {"version": T.STR, "vvm": T.STR, "preamble": T.STR, "flattened_kwds": T.STR,
               "cdefsources": T.LIST(T.STR)}
    tr = T.Trans()
    tr.pure = True
    ktext, kty = tr.ex(out[0].value, env_key, None)
    if kty != T.STR:
        raise Untranslatable("key is not a str")
    res = ["(* %s:31 Verifier.__init__: the text that is hashed *)" % SRC_V,
           "Definition verify_key (version vvm preamble flattened_kwds : str) (cdefsources : list str) : str :=\n%s.\n" % ktext]
    # rest: module name from key
    fns = {"crc32": T.Fn("crc32", [T.BYTES], T.INT, monadic=False)}
    rest = out[1:]
    subc = Subst({_expr("binascii.crc32"): "crc32"})
    rest = [subc.visit(s) for s in rest]
    for s in rest:
        ast.fix_missing_locations(s)
    tr2 = T.Trans(functions=fns)
    tr2.pure, tr2.ret = False, T.STR
    env = {"key": T.STR, "tag": T.STR, "class_key": T.STR}
    body = tr2.block(rest, env, lambda e: "Ok %s" % tr2.var("modulename"))
    res.append("Section WithCrc.\n(* binascii.crc32 is not interpreted *)\nVariable crc32 : list N -> Z.\n")
    res.append("Definition module_name (tag class_key key : str) : res str :=\n%s.\n" % body)
    res.append("End WithCrc.\n")
    return "\n".join(res)


def translate_module_file(tree):
    """Verifier.__init__: `self.modulefilename = os.path.join(self.tmpdir, modulename + suffix)` (the only assignment
    of that attribute in the class), and the whole body of Verifier.get_module_name.  os.path.join / os.path.basename
    are the primitives py_path_join / py_basename (C32/PyStr.v, posixpath); `hasattr(sys, 'gettotalrefcount')` — a
    debug build of CPython — is the parameter debug_build.  Fail closed on any other shape."""
    cls = [n for n in tree.body if isinstance(n, ast.ClassDef) and n.name == "Verifier"]
    if len(cls) != 1:
        raise Untranslatable("class Verifier not found")
    assigns = []
    for fn in cls[0].body:
        if not isinstance(fn, ast.FunctionDef):
            continue
        for node in ast.walk(fn):
            tgs = node.targets if isinstance(node, ast.Assign) else [node.target] if isinstance(node, (ast.AugAssign, ast.AnnAssign)) else []
            for tg in tgs:
                for sub in ast.walk(tg):
                    if isinstance(sub, ast.Attribute) and sub.attr == "modulefilename":
                        assigns.append((fn.name, node))
    # _locate_module may replace it by the file that find_module() found for this very get_module_name()
    loc = py2coq.find_function(tree, "_locate_module", cls="Verifier")
    relocated = [a for a in assigns if a[0] == "_locate_module"]
    for _, node in relocated:
        finds = [st for st in ast.walk(loc) if isinstance(st, ast.Assign) and len(st.targets) == 1
                 and ast.unparse(st.targets[0]) == "filename"]
        if not (isinstance(node, ast.Assign) and ast.unparse(node) == "self.modulefilename = filename" and len(finds) == 1
                and ast.unparse(finds[0].value).replace(" ", "").replace("\n", "").startswith(
                    "self._vengine.find_module(self.get_module_name(),")):
            raise Untranslatable("_locate_module assigns self.modulefilename in an unexpected way")
    assigns = [a for a in assigns if a[0] != "_locate_module"]
    if len(relocated) > 1 or len(assigns) != 1 or assigns[0][0] != "__init__" or not isinstance(assigns[0][1], ast.Assign) \
            or len(assigns[0][1].targets) != 1 or ast.unparse(assigns[0][1].targets[0]) != "self.modulefilename":
        raise Untranslatable("self.modulefilename is not assigned exactly once, in Verifier.__init__")
    init = py2coq.find_function(tree, "__init__", cls="Verifier")
    if assigns[0][1] not in init.body:
        raise Untranslatable("self.modulefilename is assigned conditionally")
    pos = init.body.index(assigns[0][1])
    branch = [i for i, s in enumerate(init.body) if isinstance(s, ast.If) and ast.dump(s.test) == _expr("modulename")]
    if len(branch) != 1 or branch[0] > pos:
        raise Untranslatable("modulefilename is assembled before the module name is chosen")
    # between the choice of the name and the assembly, modulename must not be rebound
    for s in init.body[branch[0] + 1:pos]:
        for sub in ast.walk(s):
            if isinstance(sub, ast.Name) and sub.id == "modulename" and isinstance(sub.ctx, ast.Store):
                raise Untranslatable("modulename is rebound before modulefilename is assembled")
    fns = {"path_join": T.Fn("py_path_join", [T.STR, T.STR], T.STR, monadic=False),
           "path_basename": T.Fn("py_basename", [T.STR], T.STR, monadic=False)}
    sub = Subst({_expr("os.path.join"): "path_join", _expr("self.tmpdir"): "tmpdir"})
    val = sub.visit(copy.deepcopy(assigns[0][1].value))
    ast.fix_missing_locations(val)
    if len(sub.used) != 2:
        raise Untranslatable("modulefilename is not os.path.join(self.tmpdir, ...)")
    tr = T.Trans(functions=fns)
    tr.pure = True
    text, ty = tr.ex(val, {"tmpdir": T.STR, "modulename": T.STR, "suffix": T.STR}, None)
    if ty != T.STR:
        raise Untranslatable("modulefilename is not a str")
    out = ["(* %s:%d Verifier.__init__: self.modulefilename *)" % (SRC_V, assigns[0][1].lineno),
           "Definition module_filename (tmpdir modulename suffix : str) : str :=\n%s.\n" % text]
    g = py2coq.find_function(tree, "get_module_name", cls="Verifier")
    if [a.arg for a in g.args.args] != ["self"] or g.args.vararg or g.args.kwarg or g.args.kwonlyargs or g.decorator_list:
        raise Untranslatable("signature of get_module_name")
    sub2 = Subst({_expr("os.path.basename"): "path_basename", _expr("self.modulefilename"): "modulefilename",
                  _expr("hasattr(sys, 'gettotalrefcount')"): "debug_build"})
    body = [sub2.visit(copy.deepcopy(st)) for st in g.body]
    for st in body:
        ast.fix_missing_locations(st)
    if len(sub2.used) != 3:
        raise Untranslatable("get_module_name: os.path.basename / self.modulefilename / hasattr(sys, 'gettotalrefcount') expected")
    for st in body:
        for n in ast.walk(st):
            if isinstance(n, ast.Name) and n.id in ("self", "os", "sys"):
                raise Untranslatable("get_module_name reads %s in an unexpected way" % n.id)
    tr2 = T.Trans(functions=fns)
    tr2.pure, tr2.ret, tr2.tmp, tr2.in_loop, tr2.mut_param = True, T.STR, 0, 0, None
    btext = tr2.block(body, {"modulefilename": T.STR, "debug_build": T.BOOL}, None)
    out.append("(* %s:%d Verifier.get_module_name; debug_build = hasattr(sys, 'gettotalrefcount') *)" % (SRC_V, g.lineno))
    out.append("Definition get_module_name (debug_build : bool) (modulefilename : str) : str :=\n%s.\n" % btext)
    return "\n".join(out)


def translate_class_keys(repo, tv):
    """the `_class_key` class attributes of the two engines that _locate_engine_class can return"""
    loc = py2coq.find_function(tv, "_locate_engine_class")
    rets = [ast.unparse(n.value) for n in ast.walk(loc) if isinstance(n, ast.Return)]
    if sorted(rets) != ["vengine_cpy.VCPythonEngine", "vengine_gen.VGenericEngine"]:
        raise Untranslatable("_locate_engine_class returns %s" % rets)
    keys = []
    for mod, cname in (("vengine_cpy", "VCPythonEngine"), ("vengine_gen", "VGenericEngine")):
        tree = py2coq.parse_source(os.path.join(repo, "src/cffi/%s.py" % mod))
        cls = [n for n in tree.body if isinstance(n, ast.ClassDef) and n.name == cname]
        if len(cls) != 1:
            raise Untranslatable("class %s not found" % cname)
        vals = [n.value for n in ast.walk(cls[0]) if isinstance(n, ast.Assign)
                and any("_class_key" in ast.unparse(t) for t in n.targets)]
        if len(vals) != 1 or not (isinstance(vals[0], ast.Constant) and isinstance(vals[0].value, str)):
            raise Untranslatable("%s._class_key is not a single string constant" % cname)
        keys.append(T.lit(vals[0].value))
    return ("(* src/cffi/vengine_cpy.py, src/cffi/vengine_gen.py: _class_key of the engines returned by "
            "_locate_engine_class *)\nDefinition class_keys : list str := [%s].\n" % "; ".join(keys))


def translate_cdefsources(tree):
    """FFI.__init__ / FFI._cdef / FFI.include: every statement that touches self._cdefsources, fail closed.
    _cdef must append its source; include must append a literal, extend with the included FFI's list, append a
    literal, in some order that is taken from the code."""
    uses = []
    cls = [n for n in tree.body if isinstance(n, ast.ClassDef) and n.name == "FFI"]
    if len(cls) != 1:
        raise Untranslatable("class FFI not found")
    for fn in cls[0].body:
        if not isinstance(fn, ast.FunctionDef):
            continue
        for node in ast.walk(fn):
            if isinstance(node, ast.Attribute) and node.attr == "_cdefsources" and ast.unparse(node.value) == "self":
                uses.append((fn.name, node))
    parents = {}
    for node in ast.walk(tree):
        for ch in ast.iter_child_nodes(node):
            parents[ch] = node
    by_fn = {}
    for fname, node in uses:
        par = parents[node]
        if isinstance(par, ast.Assign) and node in par.targets:
            by_fn.setdefault(fname, []).append(("assign", par.value))
        elif isinstance(par, ast.Attribute) and isinstance(parents.get(par), ast.Call) and parents[par].func is par \
                and par.attr in ("append", "extend") and len(parents[par].args) == 1 and not parents[par].keywords:
            by_fn.setdefault(fname, []).append((par.attr, parents[par].args[0], parents[par].lineno))
        else:
            raise Untranslatable("self._cdefsources is used in an unexpected way in FFI.%s" % fname)
    if set(by_fn) != {"__init__", "_cdef", "include"}:
        raise Untranslatable("self._cdefsources is touched by %s" % sorted(by_fn))
    init = by_fn["__init__"]
    if len(init) != 1 or init[0][0] != "assign" or ast.unparse(init[0][1]) != "[]":
        raise Untranslatable("FFI.__init__ does not start with an empty _cdefsources")
    cd = by_fn["_cdef"]
    cfn = [f for f in cls[0].body if isinstance(f, ast.FunctionDef) and f.name == "_cdef"][0]
    src_param = cfn.args.args[1].arg
    if len(cd) != 1 or cd[0][0] != "append" or ast.unparse(cd[0][1]) != src_param:
        raise Untranslatable("FFI._cdef does not append its source to _cdefsources exactly once")
    inc = sorted(by_fn["include"], key=lambda u: u[2])
    ifn = [f for f in cls[0].body if isinstance(f, ast.FunctionDef) and f.name == "include"][0]
    other = ifn.args.args[1].arg
    parts = []
    for u in inc:
        if u[0] == "append" and isinstance(u[1], ast.Constant) and isinstance(u[1].value, str):
            parts.append("[%s]" % T.lit(u[1].value))
        elif u[0] == "extend" and ast.unparse(u[1]) == "%s._cdefsources" % other:
            parts.append("included")
        else:
            raise Untranslatable("FFI.include: unexpected update of _cdefsources: %s" % ast.unparse(u[1]))
    if parts.count("included") != 1 or len(parts) != 3:
        raise Untranslatable("FFI.include: expected one literal, the included list, one literal")
    lits = [q for q in parts if q != "included"]
    return "\n".join([
        "(* %s: FFI._cdef appends its source; FFI.include appends a marker, the included FFI's list, a marker *)" % SRC_A,
        "Definition cdef_block (csource : str) : list str := [csource].",
        "Definition include_first : str := %s." % lits[0][1:-1],
        "Definition include_last : str := %s." % lits[1][1:-1],
        "Definition include_block (included : list str) : list str :=\n  %s." % " ++ ".join(
            q if q == "included" else ("[include_first]" if q is parts[[i for i, x in enumerate(parts) if x != "included"][0]] else "[include_last]")
            for q in parts),
        "Fixpoint cdefsources_item (it : ffi_item) : list str :=",
        "  match it with",
        "  | ICdef s => cdef_block s",
        "  | IInclude u => include_block (flat_map cdefsources_item u)",
        "  end.",
        "Definition cdefsources (t : list ffi_item) : list str := flat_map cdefsources_item t.", ""])


def translate(repo):
    tf = py2coq.parse_source(os.path.join(repo, SRC_F))
    tv = py2coq.parse_source(os.path.join(repo, SRC_V))
    out = ["(* GENERATED by tools/props/c32.py from %s and %s — do not edit; regenerated on every run. *)" % (SRC_F, SRC_V),
           "From Coq Require Import List NArith ZArith Bool.", "Import ListNotations.",
           "From Cffi Require Import C35.PyStr C35.Model C32.PyStr C32.Model.", ""]
    if not int_or_long_is_int(tf):
        raise Untranslatable("int_or_long = int (Python 3 branch) not found")
    glob = {"int_or_long": ("class", "int")}
    sig = T.Fn("_flatten", [T.PYVAL, T.BUF], T.BUF, monadic=True, mutates=1, fuel=True)
    fl = py2coq.find_function(tf, "_flatten")
    if T.free_names(fl) - {"isinstance", "str", "dict", "list", "tuple", "sorted", "len", "int_or_long",
                           "TypeError", "_flatten"}:
        raise Untranslatable("_flatten uses %s" % sorted(T.free_names(fl)))
    out.append("(* %s:91 *)" % SRC_F)
    out.append(T.Trans(functions={"_flatten": sig}, globals_=glob).function(fl, sig, fuel=True))
    f2 = py2coq.find_function(tf, "flatten")
    sig2 = T.Fn("flatten", [T.PYVAL], T.STR, monadic=True, fuel=True)
    out.append("(* %s:110 *)" % SRC_F)
    out.append(T.Trans(functions={"_flatten": sig}, globals_=glob).function(f2, sig2, extra_binders="(fuel : nat) "))
    out.append(translate_verifier(tv))
    out.append(translate_module_file(tv))
    out.append(translate_class_keys(repo, tv))
    out.append(translate_cdefsources(py2coq.parse_source(os.path.join(repo, SRC_A))))
    return "\n".join(out)


def regen(ctx):
    c35.regen_file(ctx, GEN, translate)


# ---------------------------------------------------------------------------- generators

STRS = ["", "a", "ab", "m", "1s", "2l", "0d", "1sa", "-1i", "12", "s", "é", "中", "a\x00b", "\x00", "x y",
        "foo", "-lm", "A", "1", "\U0001f600", "a" * 11, "1s1"]
KEYS = ["libraries", "define_macros", "include_dirs", "extra_compile_args", "a", "b", "ab", "é", "x1", "sources"]


def gen_value(rng, depth=0, allow_other=True):
    r = rng.random()
    if depth >= 3:
        r *= 0.55
    if r < 0.3:
        if rng.random() < 0.03:
            return {"s": "x\ud800"}
        return {"s": rng.choice(STRS) if rng.random() < 0.7 else
                "".join(rng.choice("ab1sld0-i\x00é") for _ in range(rng.randrange(0, 14)))}
    if r < 0.45:
        return {"i": rng.choice([0, 1, -1, 9, 10, 11, -12, 255, 2 ** 31, -2 ** 63, 2 ** 70 + 3, rng.randrange(-1000, 1000)])}
    if r < 0.52:
        return {"b": rng.random() < 0.5}
    if r < 0.55 and allow_other:
        return {"o": rng.randrange(5)}
    if r < 0.75:
        return {"l": [gen_value(rng, depth + 1, allow_other) for _ in range(rng.choice([0, 1, 2, 2, 3, 11]) if depth < 2 else rng.choice([0, 1, 2]))]}
    if r < 0.87:
        return {"t": [gen_value(rng, depth + 1, allow_other) for _ in range(rng.choice([0, 1, 2, 3]))]}
    keys = rng.sample(sorted(set(KEYS + STRS[:8])), rng.choice([0, 1, 2, 3, 4]))
    return {"d": [[k, gen_value(rng, depth + 1, allow_other)] for k in keys]}


DECLS = ["int v%d;", "typedef int t%d;", "struct s%d { int x; };", "int f%d(int);", "// comment %d é\nint w%d;",
         "enum e%d { E%d };", "/* c%d */ extern long g%d;"]


def gen_sources(rng):
    n = rng.choice([0, 1, 1, 2, 3])
    out = []
    ids = rng.sample(range(100), n)
    for i in ids:
        d = rng.choice(DECLS)
        s = d.replace("%d", str(i))
        if rng.random() < 0.3:
            s = rng.choice(["", " ", "\n"]) + s + rng.choice(["", " ", "\n", "//"])
        out.append(s)
    return out


# tags: plain, with a '.', (get_module_name keeps what precedes the first '.'), ending in "_d" / being "_d" (the
# debug-build rule of get_module_name)
TAGS = ["", "", "t", "foo", "a.b", "x_d", "_d", "v1.2", "d", "t_"]


def gen_input(rng, allow_other=False):
    nk = rng.choice([0, 0, 1, 2, 3, 5])
    keys = rng.sample(KEYS, nk)
    return dict(sources=gen_sources(rng),
                preamble=rng.choice(["", "#include <math.h>", "int x;", "a", "a\x00b", "é", "static int f(void){return 1;}"]),
                kwds=[[k, gen_value(rng, 1, allow_other and rng.random() < 0.3)] for k in keys],
                tag=rng.choice(TAGS), generic=rng.random() < 0.3, debug=rng.random() < 0.25)


def resplit(rng, strs):
    """another list of strings with the same concatenation"""
    whole = "".join(strs)
    if not whole:
        return strs + [""]
    cuts = sorted(rng.sample(range(len(whole) + 1), min(len(whole) + 1, rng.choice([0, 1, 2]))))
    out, prev = [], 0
    for c in cuts + [len(whole)]:
        out.append(whole[prev:c])
        prev = c
    return out


def gen_pair(rng):
    """two inputs that are close to one another (and usually inequivalent)"""
    a = gen_input(rng)
    b = copy.deepcopy(a)
    r = rng.random()
    if r < 0.12:      # the recorded NUL family: one source with a NUL inside a line comment vs two sources
        i = rng.randrange(100)
        a["sources"] = ["int p%d; //\x00\nint q%d;" % (i, i)]
        b["sources"] = ["int p%d; //" % i, "\nint q%d;" % i]
    elif r < 0.25:    # sources joined / split
        i = rng.randrange(100)
        a["sources"] = ["int p%d;" % i, "int q%d;" % i]
        b["sources"] = [rng.choice(["int p%d;int q%d;", "int p%d; int q%d;", "int p%d;\nint q%d;"]) % (i, i)]
    elif r < 0.4:     # text moved between preamble and kwds / sources
        b["preamble"] = a["preamble"] + rng.choice(["\x000d", "\x00", " ", "0d", "\x000d\x00int z;"])
    elif r < 0.75 or not a["kwds"]:    # re-split strings inside a keyword value
        strs = [rng.choice(STRS) for _ in range(rng.choice([1, 2, 3]))]
        a["kwds"] = [["libraries", {"l": [{"s": s} for s in strs]}]]
        alt = resplit(rng, strs)
        form = rng.random()
        if form < 0.6:
            b["kwds"] = [["libraries", {"l": [{"s": s} for s in alt]}]]
        elif form < 0.8:
            b["kwds"] = [["libraries", {"t": [{"s": s} for s in strs]}]]      # equivalent: tuple for list
        else:
            b["kwds"] = [["libraries", {"s": "".join(strs)}]]
    else:             # one value changed to a look-alike
        k, v = a["kwds"][0]
        alts = [{"s": "1"}, {"i": 1}, {"b": True}, {"l": []}, {"t": []}, {"d": []}, {"s": ""}, {"l": [{"s": ""}]},
                {"i": 0}, {"b": False}, {"s": "0"}, {"l": [v]}, {"d": [["a", v]]}]
        b["kwds"] = [[k, rng.choice(alts)]] + copy.deepcopy(a["kwds"][1:])
        if rng.random() < 0.5:
            a["kwds"] = [[k, rng.choice(alts)]] + a["kwds"][1:]
    return dict(kind="pair", a=a, b=b)


def leaves_of(tree):
    out = []
    for it in tree:
        out += leaves_of(it["inc"]) if isinstance(it, dict) else [it]
    return out


def rand_tree(rng, leaves, depth=0):
    """some include structure over the given cdef strings, keeping their linear order"""
    out, i = [], 0
    while i < len(leaves):
        if depth < 3 and rng.random() < 0.45:
            n = rng.randrange(0, len(leaves) - i + 1) if rng.random() < 0.9 else 0
            out.append({"inc": rand_tree(rng, leaves[i:i + n], depth + 1)})
            i += n
        else:
            out.append(leaves[i])
            i += 1
    if depth < 2 and rng.random() < 0.1:
        out.append({"inc": []})
    return out


def gen_include_pair(rng):
    """two FFIs with the same cdef strings in the same linear order but (usually) different include structure"""
    ids = rng.sample(range(100, 1000), rng.choice([1, 2, 3, 3, 4, 5]))
    leaves = [rng.choice(["typedef int t%d;", "struct s%d { int x; };", "enum e%d { E%d };", "typedef struct o%d o%d_t;"]
                         ).replace("%d", str(i)) for i in ids]
    base = gen_input(rng)
    base.pop("sources")
    r = rng.random()
    if r < 0.3 and len(leaves) >= 3:
        # A.include(B1[a]); A.cdef(b); A.include(B2[c])   vs   A.include(B[a, include(C[b]), c])
        a, b, c = leaves[0], leaves[1], leaves[2:]
        t1 = [{"inc": [a]}, b, {"inc": c}]
        t2 = [{"inc": [a, {"inc": [b]}] + c}]
    elif r < 0.4:
        t1, t2 = [{"inc": leaves}], [{"inc": [{"inc": leaves}]}]
    elif r < 0.5:
        t1, t2 = list(leaves), [{"inc": leaves}]
    else:
        t1, t2 = rand_tree(rng, leaves), rand_tree(rng, leaves)
    return dict(kind="pair", a=dict(base, tree=t1), b=dict(copy.deepcopy(base), tree=t2))


def generate(ctx, big=False):
    rng = ctx.rng
    cases = [dict(kind="prims", seed=rng.randrange(10 ** 9), n=150 if not big else 1500)]
    cases += [dict(kind="flatten", value=gen_value(rng)) for _ in range(300 if not big else 3000)]
    for _ in range(60 if not big else 500):
        inp = gen_input(rng, allow_other=True)
        cases.append(dict(kind="name", input=inp, order_seed=rng.randrange(10 ** 9)))
    cases += [gen_pair(rng) for _ in range(150 if not big else 1500)]
    cases += [gen_include_pair(rng) for _ in range(40 if not big else 400)]
    return cases


# ---------------------------------------------------------------------------- oracle

def canon(v):
    """what flatten is allowed to see (recorded reading): tuple = list, bool = int, dict order irrelevant"""
    (k, x), = v.items()
    if k == "s":
        return ("s", x)
    if k in ("i", "b"):
        return ("i", int(x))
    if k in ("l", "t"):
        return ("l", tuple(canon(e) for e in x))
    if k == "d":
        return ("d", tuple(sorted((key, canon(e)) for key, e in x)))
    return ("o", x)


def canon_tree(tree):
    return tuple(("inc", canon_tree(it["inc"])) if isinstance(it, dict) else it for it in tree)


def canon_input(i):
    return (canon_tree(i["tree"]) if "tree" in i else tuple(i["sources"]), i["preamble"], canon({"d": i["kwds"]}))


def has_other(v):
    (k, x), = v.items()
    if k == "o":
        return True
    if k in ("l", "t"):
        return any(has_other(e) for e in x)
    if k == "d":
        return any(has_other(e) for _, e in x)
    return False


def finding_key_name(case):
    """known-finding class of two inequivalent inputs with one get_module_name() and different CRC pairs: both were
    given a tag that contains a '.' (get_module_name cuts the file name at its first '.')"""
    if "." in case["a"].get("tag", "") and "." in case["b"].get("tag", ""):
        return "dotted_tag"
    return None


def finding_key(case):
    """known-finding class of a colliding pair: the two inputs agree on everything but the cdef sources,
    and a source contains a NUL character"""
    a, b = case["a"], case["b"]
    if a["preamble"] == b["preamble"] and canon({"d": a["kwds"]}) == canon({"d": b["kwds"]}) \
            and "sources" in a and "sources" in b and any("\x00" in s for s in a["sources"] + b["sources"]):
        return "nul_in_source"
    return None


# ---------------------------------------------------------------------------- Coq literals

def cval(v):
    (k, x), = v.items()
    if k == "s":
        return "(PStr %s)" % cstr(x)
    if k == "i":
        return "(PInt %s)" % cz(x)
    if k == "b":
        return "(PBool %s)" % cbool(x)
    if k == "l":
        return "(PList %s)" % clist([cval(e) for e in x])
    if k == "t":
        return "(PTuple %s)" % clist([cval(e) for e in x])
    if k == "d":
        return "(PDict %s)" % ckvs(x)
    return "(POther %s)" % cn(x)


def ctree(tree):
    return "(%s : list ffi_item)" % clist(["(IInclude %s)" % ctree(it["inc"]) if isinstance(it, dict) else "(ICdef %s)" % cstr(it)
                                         for it in tree])


def csources(inp):
    if "tree" in inp:
        return "(cdefsources %s)" % ctree(inp["tree"])
    return clist([cstr(x) for x in inp["sources"]])


def ckvs(kvs):
    return "(%s : list (str * pyval))" % clist([cpair(cstr(k), cval(e)) for k, e in kvs])


PRELUDE = """
From Cffi Require Import C35.PyStr C35.Model C24.Utf8 C32.PyStr C32.Model C32.Gen.
Definition exc_eqb (a b : exc) := match a, b with TypeError, TypeError | KeyError, KeyError | ValueError, ValueError
  | PkgConfigError, PkgConfigError | OutOfFuel, OutOfFuel | OtherError, OtherError => true | _, _ => false end.
Definition res_eqb {A} (e : A -> A -> bool) (x y : res A) := match x, y with Ok a, Ok b => e a b | Err a, Err b => exc_eqb a b | _, _ => false end.
Definition crc_tab (ev : list N) (c1 c2 : Z) (b : list N) : Z := if list_eqb N.eqb b ev then c1 else c2.
Definition key_model (fuel : nat) (version vvm preamble : str) (kwds : list (str * pyval)) (sources : list str) : res str :=
  bind (flatten fuel (PDict kwds)) (fun fk => Ok (verify_key version vvm preamble fk sources)).
Definition name_model (fuel : nat) (version vvm preamble : str) (kwds : list (str * pyval)) (sources : list str)
    (tag ck : str) (ev : list N) (c1 c2 : Z) : res str :=
  bind (flatten fuel (PDict kwds)) (fun fk =>
  module_name (crc_tab ev c1 c2) tag ck (verify_key version vvm preamble fk sources)).
Definition observed_model (fuel : nat) (version vvm preamble : str) (kwds : list (str * pyval)) (sources : list str)
    (tag ck : str) (ev : list N) (c1 c2 : Z) (debug : bool) (tmpdir suffix : str) : res str :=
  bind (name_model fuel version vvm preamble kwds sources tag ck ev c1 c2) (fun n =>
  Ok (get_module_name debug (module_filename tmpdir n suffix))).
Definition pathprims (x : str * str) := (py_basename (fst x), py_path_join (fst x) (snd x), py_endswith (fst x) (snd x),
  py_item0 (py_split1 46 (fst x)), py_slice_to_neg 2 (fst x)).
Definition hexnames (z : Z) := (py_rstrip (py_lstrip (py_hex z) [48;120]%N) [76]%N, py_rstrip (py_lstrip (py_hex z) [48]%N) [76]%N).
Definition halves (l : list N) := (py_slice_step2 0 l, py_slice_step2 1 l).
"""
FUEL = 12
EXCS = ("TypeError", "KeyError", "ValueError")


def cres(r, ok):
    if "exc" in r:
        return "(Err %s)" % (r["exc"] if r["exc"] in EXCS else "OtherError")
    return "(Ok %s)" % ok(r)


# ---------------------------------------------------------------------------- evaluation

def prim_groups(ctx, c):
    import random
    rng = random.Random(c["seed"])
    n = c["n"]
    ints = [0, 1, -1, 9, 10, 99, 100, -100, 2 ** 31, 2 ** 32 - 1, 2 ** 64, -2 ** 63, 10 ** 30] + \
           [rng.randrange(-10 ** rng.randrange(1, 25), 10 ** rng.randrange(1, 25)) for _ in range(n)]
    u32 = [0, 1, 15, 16, 255, 256, 0xfffffff, 0x10000000, 0xffffffff, 0xabcdef, 0x0a0b0c] + \
          [rng.randrange(2 ** rng.randrange(1, 33)) for _ in range(n)]
    strs = [[rng.choice(STRS + ["b", "B", "aa", "a\x00", "\U0010ffff", "é", "ё"]) for _ in range(rng.randrange(0, 7))]
            for _ in range(n)]
    texts = ["".join(chr(rng.choice([0, 65, 0x7f, 0x80, 0x7ff, 0x800, 0xd7ff, 0xd800, 0xdfff, 0xe000, 0xffff, 0x10000,
                                     0x10ffff, rng.randrange(0x110000)])) for _ in range(rng.randrange(0, 6)))
             for _ in range(n)]
    blobs = [bytes(rng.choice([0, 0x41, 0x7f, 0x80, 0xbf, 0xc0, 0xc1, 0xc2, 0xdf, 0xe0, 0xed, 0xef, 0xf0, 0xf4, 0xf5, 0xff,
                               0x9f, 0xa0, 0x8f, 0x90, rng.randrange(256)]) for _ in range(rng.randrange(0, 6)))
             for _ in range(n)] + [t.encode("utf-8", "surrogatepass") for t in texts[:n // 2]]

    import posixpath
    pieces = ["", "/", "a", "_d", "a_d", ".", "a.b", "/tmp/x", "/tmp/x/", "x/", "_cffi_t_x1x2", ".so", "d", "_", "//", "a/b.c/d.e",
              ".cpython-312.so", "é", "a.", "/a"]
    paths = [(rng.choice(pieces) + rng.choice(pieces + [""] * 8), rng.choice(pieces) + rng.choice(pieces + [""] * 8))
             for _ in range(n)] + [(x, y) for x in pieces[:12] for y in pieces[:12]]

    def enc(t):
        try:
            return "(Some %s)" % cbytes(t.encode("utf-8"))
        except UnicodeEncodeError:
            return "None"

    def dec(b):
        try:
            return "(Some %s)" % cstr(b.decode("utf-8"))
        except UnicodeDecodeError:
            return "None"
    ctx.count(len(ints) + len(u32) + 2 * len(strs) + len(texts) + len(blobs) + len(paths))
    own = [c]
    return [
        ("py_dec", "py_dec", "list_eqb N.eqb", [(cz(z), cstr("%d" % z)) for z in ints], own * len(ints), "C32.PyStr.py_dec vs '%d' %"),
        ("py_hex", "hexnames", "pair_eqb (list_eqb N.eqb) (list_eqb N.eqb)",
         [(cz(z), cpair(cstr(hex(z).lstrip("0x").rstrip("L")), cstr(hex(z).lstrip("0").rstrip("L")))) for z in u32],
         own * len(u32), "C32.PyStr.py_hex/py_lstrip/py_rstrip vs CPython"),
        ("sorted", "py_sorted_str", "list_eqb (list_eqb N.eqb)",
         [(clist([cstr(s) for s in l]), clist([cstr(s) for s in sorted(l)])) for l in strs], own * len(strs),
         "C32.PyStr.py_sorted_str vs sorted()"),
        ("join", "py_join [0]%N", "list_eqb N.eqb",
         [(clist([cstr(s) for s in l]), cstr("\x00".join(l))) for l in strs], own * len(strs), "C32.PyStr.py_join vs str.join"),
        ("halves", "halves", "pair_eqb (list_eqb N.eqb) (list_eqb N.eqb)",
         [(cbytes(b), cpair(cbytes(b[0::2]), cbytes(b[1::2]))) for b in blobs], own * len(blobs), "py_slice_step2 vs x[k::2]"),
        ("pathprims", "pathprims",
         "fun a b => match a, b with (a1, a2, a3, a4, a5), (b1, b2, b3, b4, b5) => list_eqb N.eqb a1 b1 && list_eqb N.eqb a2 b2 "
         "&& Bool.eqb a3 b3 && list_eqb N.eqb a4 b4 && list_eqb N.eqb a5 b5 end",
         [("(%s, %s)" % (cstr(x), cstr(y)),
           "(%s, %s, %s, %s, %s)" % (cstr(posixpath.basename(x)), cstr(posixpath.join(x, y)), cbool(x.endswith(y)),
                                     cstr(x.split(".", 1)[0]), cstr(x[:-2])))
          for x, y in paths], own * len(paths), "C32.PyStr path primitives vs posixpath / str methods"),
        ("utf8_encode", "utf8_encode", "opt_eqb (list_eqb N.eqb)", [(cstr(t), enc(t)) for t in texts], own * len(texts),
         "C24.Utf8.utf8_encode vs str.encode('utf-8')"),
        ("utf8_decode", "utf8_decode", "opt_eqb (list_eqb N.eqb)", [(cbytes(b), dec(b)) for b in blobs], own * len(blobs),
         "C24.Utf8.utf8_decode vs bytes.decode('utf-8')"),
    ]


def orders_for(case, proc):
    import random
    r = random.Random(case["order_seed"] * 7 + proc)
    n = len(case["input"]["kwds"])
    out = []
    for _ in range(2):
        p = list(range(n))
        r.shuffle(p)
        out.append(p)
    if proc == 0:
        out[0] = list(range(n))
    return out


def describe(inp):
    if "tree" in inp:
        return "FFI built by cdef()/include() as %s, source %r, keywords %s" % (
            json.dumps(inp["tree"]), inp["preamble"], json.dumps(inp["kwds"]))
    return "cdef sources %r, source %r, keywords %s" % (inp["sources"], inp["preamble"], json.dumps(inp["kwds"]))


def evaluate(ctx, cases):
    groups = []
    for c in cases:
        if c["kind"] == "prims":
            groups += prim_groups(ctx, c)
    s = ctx.scratch()
    fl = [c for c in cases if c["kind"] == "flatten"]
    names = [c for c in cases if c["kind"] == "name"]
    pairs = [c for c in cases if c["kind"] == "pair"]
    version = vvm = None
    # flatten + pairs: one process
    if fl or pairs:
        out, p = s.run_worker("c32_worker.py", dict(cases=fl + pairs), timeout=1200)
        if out is None:
            ctx.violation((fl + pairs)[0], "worker failed: " + (p.stderr[-1500:] or p.stdout[-500:]))
            return
        version, vvm = out["version"], out["vvm"]
        coq = []
        for c, r in zip(fl, out["results"][:len(fl)]):
            ctx.count()
            ctx.hist("flatten_outcome", r.get("exc", "ok"))
            coq.append(("(flatten %d %s)" % (FUEL, cval(c["value"])), cres(r, lambda r: cbytes(r["text"]))))
            # property on the implementation: unsupported objects are refused, everything else is encoded
            if ("exc" in r) != has_other(c["value"]) and not (r.get("exc") == "TypeError" and has_other(c["value"])):
                ctx.violation(c, "flatten(%s) -> %s" % (json.dumps(c["value"]), r.get("exc", "a string")))
            if "text" in r and list(c["value"])[0] in "ltd":
                ctx.nontrivial(("flatten", c["value"]))
        groups.append(("flatten", "fun x => x", "res_eqb (list_eqb N.eqb)", coq, fl,
                       "C32.Gen.flatten vs cffi.ffiplatform.flatten"))
        kcoq, kown, scoq, sown = [], [], [], []
        for c, r in zip(pairs, out["results"][len(fl):]):
            ctx.count()
            a, b = r["a"], r["b"]
            same_input = canon_input(c["a"]) == canon_input(c["b"])
            ctx.hist("pair", "equivalent" if same_input else "distinct")
            if "key" in a and "key" in b:
                if not same_input and a["name"] == b["name"] and a["crc"] != b["crc"]:
                    ctx.violation(c, "two different inputs get the same verify() module name %s although neither CRC32 "
                                  "collides (crc pairs %s and %s): [%s] and [%s]" % (
                                      a["name"], ["%08x" % x for x in a["crc"]], ["%08x" % x for x in b["crc"]],
                                      describe(c["a"]), describe(c["b"])) + " (tags %r, %r)" % (c["a"].get("tag"), c["b"].get("tag")),
                                  key=finding_key_name(c))
                elif not same_input and a["key"] == b["key"]:
                    ctx.violation(c, "two different inputs give the same verify() key (and module name %s): [%s] and [%s]"
                                  % (a["name"], describe(c["a"]), describe(c["b"])), key=finding_key(c))
                elif same_input and a["key"] != b["key"]:
                    ctx.violation(c, "equivalent inputs (tuple/list, True/1) give different keys: [%s] and [%s]"
                                  % (describe(c["a"]), describe(c["b"])))
                else:
                    ctx.nontrivial(("pair", canon_input(c["a"]), canon_input(c["b"])))
            for side, rr in (("a", a), ("b", b)):
                inp = c[side]
                if "tree" in inp:
                    if "cdefsources" in rr:
                        scoq.append((ctree(inp["tree"]), clist([cstr(x) for x in rr["cdefsources"]])))
                        sown.append(c)
                        if any(isinstance(it, dict) for it in inp["tree"]):
                            ctx.hist("include_depth", json.dumps(inp["tree"]).count("inc"))
                elif rr.get("cdefsources", inp["sources"]) != inp["sources"]:
                    ctx.mismatch(c, "ffi._cdefsources is not the list of cdef() arguments", "harness assumption")
                if str(rr.get("exc", "")).startswith("cdef:"):
                    ctx.mismatch(c, "the generated cdef/include structure is refused: %s" % rr["exc"], "harness: generator")
                    continue
                lit = "(key_model %d %s %s %s %s %s)" % (FUEL, cstr(version), cstr(vvm), cstr(inp["preamble"]),
                                                       ckvs(inp["kwds"]), csources(inp))
                if "key" in rr:
                    try:
                        exp = "(Ok %s)" % cstr(bytes.fromhex(rr["key"]).decode("utf-8"))
                    except UnicodeDecodeError:
                        ctx.mismatch(c, "hashed key is not UTF-8", "harness assumption")
                        continue
                elif rr.get("exc") == "ValueError":
                    continue        # UnicodeEncodeError when encoding: covered by the name group
                else:
                    exp = cres(rr, None)
                kcoq.append((lit, exp))
                kown.append(c)
        groups.append(("verify_key", "fun x => x", "res_eqb (list_eqb N.eqb)", kcoq, kown,
                       "C32.Gen.verify_key/flatten vs the bytes passed to crc32 by Verifier.__init__"))
        groups.append(("cdefsources", "cdefsources", "list_eqb (list_eqb N.eqb)", scoq, sown,
                       "C32.Gen.cdefsources vs ffi._cdefsources after the same cdef()/include() calls"))
    # names: three processes with different hash seeds and keyword orders
    if names:
        per_proc = []
        for proc, seed in enumerate(("0", "1", "4242")):
            payload = dict(cases=[dict(kind="name", input=c["input"], orders=orders_for(c, proc)) for c in names])
            out, p = s.run_worker("c32_worker.py", payload, timeout=1200, hashseed=seed)
            if out is None:
                ctx.violation(names[0], "worker failed: " + (p.stderr[-1500:] or p.stdout[-500:]))
                return
            version, vvm = out["version"], out["vvm"]
            per_proc.append(out["results"])
        ncoq = []
        for i, c in enumerate(names):
            runs = [r for proc in per_proc for r in proc[i]["runs"]]
            ctx.count(len(runs))
            obs = {json.dumps({k: r.get(k) for k in ("name", "key", "exc")}, sort_keys=True) for r in runs}
            ctx.hist("name_outcome", runs[0].get("exc", "ok"))
            if len(obs) != 1:
                ctx.violation(c, "verify() module name depends on the process / hash seed / keyword order for [%s]: %s"
                              % (describe(c["input"]), sorted(obs)[:3]))
            elif "name" in runs[0] and len(c["input"]["kwds"]) >= 2:
                ctx.nontrivial(("name", canon_input(c["input"]), c["input"]["tag"], c["input"]["generic"]))
            r = runs[0]
            inp = c["input"]
            if "key" in r:
                kb = bytes.fromhex(r["key"])
                extra = "%s %s %s %s" % (cstr(r["class_key"]), cbytes(kb[0::2]), cz(r["crc"][0]), cz(r["crc"][1]))
                if r["crc"] != [zlib.crc32(kb[0::2]) & 0xffffffff, zlib.crc32(kb[1::2]) & 0xffffffff]:
                    ctx.mismatch(c, "captured CRCs are not those of the even/odd bytes", "harness assumption")
            else:
                extra = "%s %s %s %s" % (cstr("x"), cbytes(b""), cz(0), cz(0))
            lit = "(observed_model %d %s %s %s %s %s %s %s %s %s %s)" % (
                FUEL, cstr(version), cstr(vvm), cstr(inp["preamble"]), ckvs(inp["kwds"]),
                clist([cstr(x) for x in inp["sources"]]), cstr(inp["tag"]), extra,
                cbool(bool(inp.get("debug"))), cstr(r.get("tmpdir", "")), cstr(r.get("suffix", "")))
            ncoq.append((lit, cres(r, lambda r: cstr(r["name"]))))
            ctx.hist("tag", inp["tag"])
            if "name" in r:
                chosen = os.path.basename(r["modulefilename"])[:-len(r["suffix"])]
                ctx.hist("observed_name", "the chosen name" if r["name"] == chosen else "cut")
        groups.append(("module_name", "fun x => x", "res_eqb (list_eqb N.eqb)", ncoq, names,
                       "C32.Gen.module_name + module_filename + get_module_name vs Verifier(...).get_module_name()"))
    groups = [g for g in groups if g[3]]
    res = c35.multi_mismatches([g[:4] for g in groups], PRELUDE)
    for name, fexpr, eqb, cs, own, corr in groups:
        bad, outs, err = res[name]
        if err:
            ctx.obligation_broken("C32 model evaluation (%s)" % name, err)
        for i in bad:
            ctx.mismatch(dict(own[i], model_input=cs[i][0][:3000]),
                         "model %s = %s; implementation: %s" % (name, outs.get(i), cs[i][1][:600]), corr)
    for k in (fl[:1], names[:1], pairs[:1]):
        for c in k:
            ctx.sample(c)
    ctx.violations.sort(key=lambda v: (v[2] is not None, len(json.dumps(v[0], default=str))))
    ctx.mismatches.sort(key=lambda v: len(json.dumps(v[0], default=str)))


# ---------------------------------------------------------------------------- names without a CRC collision

CRC_VALUES = [0, 1, 2, 0xa, 0xf, 0x10, 0x12, 0x1f, 0x23, 0xab, 0xb0, 0x100, 0x123, 0xabc, 0xfff, 0x1000, 0xabcd, 0xbcde,
              0xabcde, 0xabcdef, 0xabcdef1, 0xbcdef12, 0x2345678, 0x10000000, 0x12345678, 0x89abcdef, 0xabcdef12,
              0xffffffff, 0xfffffff, 0xf0000000]


def gf2_solve(vectors, target):
    """subset of `vectors` (32-bit ints) whose XOR is `target`, as a list of indices; None if not in the span"""
    basis = []          # (pivot bit, vector, mask of contributing indices)
    for i, v in enumerate(vectors):
        m = 1 << i
        for pb, bv, bm in basis:
            if v >> pb & 1:
                v ^= bv
                m ^= bm
        if v:
            basis.append((v.bit_length() - 1, v, m))
    t, mask = target, 0
    for pb, bv, bm in sorted(basis, reverse=True):
        if t >> pb & 1:
            t ^= bv
            mask ^= bm
    if t:
        return None
    return [i for i in range(len(vectors)) if mask >> i & 1]


def forge_filler(key, lo, n, targets):
    """key: the bytes hashed for a source whose comment holds n 'a' characters at key[lo:lo+n].  Returns the n
    characters over {'a','c'} for which crc32(key[0::2]) and crc32(key[1::2]) become `targets` (CRC32 is affine:
    each half is solved separately by Gaussian elimination over GF(2))."""
    filler = bytearray(b"a" * n)
    for parity in (0, 1):
        half = bytearray(key[parity::2])
        idx = [i for i in range(lo, lo + n) if i % 2 == parity]
        c0 = zlib.crc32(bytes(half)) & 0xffffffff
        deltas = []
        for i in idx:
            half[i // 2] = ord("c")
            deltas.append((zlib.crc32(bytes(half)) & 0xffffffff) ^ c0)
            half[i // 2] = ord("a")
        sol = gf2_solve(deltas, targets[parity] ^ c0)
        if sol is None:
            return None
        for j in sol:
            filler[idx[j] - lo] = ord("c")
    return filler.decode()


def name_collision_search(ctx):
    """Names are formatted from the two CRCs; look, on the real formatting code (crc32 replaced by chosen constants),
    for two different CRC pairs with the same name.  If there are any, forge two real inputs with those CRC pairs
    (no patching) and report them: they share a module name without any CRC32 collision."""
    s = ctx.scratch()
    pairs = [[a, b] for a in CRC_VALUES for b in CRC_VALUES]
    out, p = s.run_worker("c32_worker.py", dict(cases=[dict(kind="fmt", pairs=pairs)]), timeout=600)
    if out is None:
        ctx.mismatch(dict(kind="fmt"), "worker failed: " + p.stderr[-800:], "harness: name formatting probe")
        return
    names = out["results"][0]["names"]
    ctx.count(len(names))
    groups = {}
    for pr, nm in zip(pairs, names):
        groups.setdefault(nm, []).append(pr)
    clashes = [g for nm, g in sorted(groups.items()) if len(g) > 1 and not nm.startswith("!")]
    ctx.extra["name_formatting_probe"] = dict(pairs=len(pairs), distinct_names=len(groups), clashes=len(clashes))
    if not clashes:
        return
    n = 96
    base = dict(sources=["int forged;"], preamble="/*" + "a" * n + "*/", kwds=[], tag="", generic=False)
    out, p = s.run_worker("c32_worker.py", dict(cases=[dict(kind="pair", a=base, b=base)]), timeout=600)
    key = bytes.fromhex(out["results"][0]["a"]["key"]) if out and "key" in out["results"][0]["a"] else None
    lo = key.find(b"/*" + b"a" * n) + 2 if key else -1
    if lo < 2:
        ctx.mismatch(dict(kind="fmt"), "cannot locate the filler in the hashed key", "harness: CRC forging")
        return
    cases = []
    for g in clashes[:4]:
        (a1, a2), (b1, b2) = g[0], g[1]
        fa, fb = forge_filler(key, lo, n, (a1, a2)), forge_filler(key, lo, n, (b1, b2))
        if fa is None or fb is None:
            continue
        cases.append(dict(kind="pair", forged_crcs=[[a1, a2], [b1, b2]],
                          a=dict(base, preamble="/*" + fa + "*/"), b=dict(base, preamble="/*" + fb + "*/")))
    if cases:
        evaluate(ctx, cases)


def run(ctx):
    ctx.cov["rule"] = (
        "prims: py_dec / hex+strip / sorted / join / step slices / UTF-8 codec of the model vs CPython on random and "
        "boundary inputs; flatten: random nested values (str incl. digit/tag look-alikes, NUL, non-ASCII; ints incl. "
        "big/negative; bool; list; tuple; dict; unsupported objects) through the real ffiplatform.flatten vs the "
        "regenerated model; name: random (cdef list, source, kwargs, tag incl. dotted and _d tags, engine, simulated debug build) through Verifier(...) in three "
        "processes with PYTHONHASHSEED 0/1/4242, two keyword orders each and a repeated call — name and hashed bytes "
        "must coincide — and vs the model with the observed CRCs; pair: two close inputs (strings re-split across list "
        "items, list/tuple, True/1, text moved between source, kwargs and cdefs, sources joined/split, NUL in a comment) — "
        "hashed keys must differ iff the inputs differ (up to the recorded reading), and equal names require equal CRC pairs; "
        "include pairs: two FFIs with the same cdef strings in the same linear order and different include() nesting / "
        "sibling structure (up to 3 levels, empty includes) — keys must differ, and ffi._cdefsources must be the model's; "
        "fmt: the real name formatting probed with 900 chosen CRC pairs (crc32 replaced by constants) — any two pairs with "
        "one name are turned into two real inputs by CRC32 forgery and reported. Non-trivial = container value / "
        ">= 2 keywords / any pair; distinct by canonical input.")
    ctx.assumptions += [
        "translator tools/props/c35_trans.py + shape-matched driver for Verifier.__init__; primitives C32/PyStr.v, "
        "C35/PyStr.v, C24/Utf8.v validated against CPython on every run",
        "an FFI is modelled as the tree of its cdef() strings and include()d FFIs in call order (include takes the included "
        "FFI as it is at that moment); override/packed options of cdef do not enter the key",
        "binascii.crc32 is an uninterpreted function (Section variable); observed values are supplied to the model",
        "dict keys of keyword values are str (the model's universe); reading: injectivity up to list=tuple, True=1, "
        "dict order, for NUL-free source/cdefs (DESIGN Appendix B)",
        "Python version text and __version_verifier_modules__ are inputs of the key"]
    evaluate(ctx, generate(ctx))
    name_collision_search(ctx)
    if not [v for v in ctx.violations if v[2] is None] and (ctx.thorough or ctx.tier_search == "thorough" or ctx.mismatches):
        evaluate(ctx, generate(ctx, big=True))


MANIFEST = dict(
    technique="Coq proof about a model regenerated from ffiplatform.py / verifier.py by a fail-closed Python-AST "
              "translator on every run + differential correspondence across processes, hash seeds and keyword orders",
    text="Proof (all values, any nesting): the regenerated flatten equals the specified tagged, length-prefixed encoding; "
         "it is a prefix code, hence injective up to list=tuple / True=1 / dict order; dict order never matters (sorted "
         "keys); the hashed key (version, verifier version, source, flattened kwargs, cdef sources joined by NUL) is "
         "injective for NUL-free source and cdefs, and its UTF-8 bytes too; refuted with a NUL in a cdef source "
         "(witness replayed on the real code: known finding); ffi._cdefsources, regenerated from FFI._cdef / FFI.include, "
         "determines the FFI's cdef strings AND its include() structure (bracket matching; needs the two markers to differ "
         "and no cdef string to be a marker — cdef() refuses '[' and ']'), so the key is injective in the inputs the "
         "property names (C32_cdefsources_injective, C32_user_key_injective); the name is a function of tag, engine and the two CRCs and, "
         "through hex()/lstrip/rstrip and the 'x' left between the two numbers, injective in that pair: inequivalent inputs "
         "share a name only if two different byte strings have the same CRC pair (C32_same_name_only_by_crc_collision). "
         "Tag and engine free on both sides: the name also determines tag and engine key (last-underscore decoding, "
         "C32_name_injective_in_tag_engine; hypotheses discharged for the regenerated engine keys 'x'/'g' by C32_class_keys; "
         "C32_same_name_only_by_crc_collision_any_tag). What the property observes, Verifier.get_module_name(), is regenerated "
         "together with the assembly of self.modulefilename (Gen.v get_module_name, module_filename; os.path.join/basename are "
         "posixpath primitives of C32/PyStr.v, hasattr(sys,'gettotalrefcount') is the parameter debug_build): it returns the "
         "chosen name for every '.'-free tag, debug build or not (C32_get_module_name, C32_get_module_name_of_chosen); with a '.' "
         "in the tag it returns '_cffi_' + the tag's part before the dot for EVERY key (C32_dotted_tag_collapses, "
         "C32_dotted_tag_refuted; replayed on the real code: known finding dotted_tag). C32_key_deterministic is "
         "C32_order_independent under equal fields. "
         "The real formatting code is probed on every run with chosen CRC pairs; a clash is turned into two real inputs by "
         "CRC32 forgery (GF(2) elimination over a comment in the source).",
    note="Trusted: Coq kernel; translator + primitive libraries (validated against CPython each run, incl. the path "
         "primitives vs posixpath); CRC32 uninterpreted. Regenerated: _flatten, flatten, verify_key, module_name, "
         "module_filename, get_module_name, class_keys, cdefsources. Hand-written: key_of (Proofs.v), the suffix "
         "(_get_so_suffixes()[0], assumed to start with '.'), _locate_engine_class's choice between the two engines, "
         "_locate_module's replacement of modulefilename by the file found under the same get_module_name() (shape pinned "
         "by the driver, not modelled). Correspondence only: equality of names across processes / hash seeds / keyword "
         "orders; tags now include 'a.b', 'v1.2', 'x_d', '_d' and a simulated debug build. Known findings nul_in_source, "
         "dotted_tag.",
    design_ref="DESIGN.md §4 C32")
