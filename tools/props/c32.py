"""C32 — verify() module names are deterministic and input-sensitive.

Tie A (regeneration): coq/C32/Gen.v is rebuilt on every run from src/cffi/ffiplatform.py (_flatten, flatten:
generic translator tools/props/c35_trans.py) and src/cffi/verifier.py (Verifier.__init__, the branch that
assembles key, k1, k2 and the module name: shape-matched driver below), and coq/C32/Props.v is re-checked.
Tie B (correspondence): ffiplatform.flatten and Verifier(...).get_module_name() from the scratch copy vs the
regenerated model evaluated in Coq (CRC32 supplied as data); the property itself is evaluated on the
implementation: same name across processes / PYTHONHASHSEED values / keyword orders, and distinct keys for
pairs of inequivalent inputs (including near-collisions built by re-splitting strings).
"""
import ast
import copy
import json
import os
import re
import zlib

from lib import py2coq, vlib
from lib.py2coq import Untranslatable
from lib.vlib import cbool, cbytes, clist, cn, copt, cpair, cstr, cz
from props import c35_trans as T
from props import c35

ID = "C32"
GEN = os.path.join(vlib.COQ, "C32", "Gen.v")
SRC_F = "src/cffi/ffiplatform.py"
SRC_V = "src/cffi/verifier.py"


# ---------------------------------------------------------------------------- regeneration

def int_or_long_is_int(tree):
    """ffiplatform.py binds int_or_long = int on Python 3 (try: int_or_long = (int, long) except NameError: ...)"""
    for node in tree.body:
        if isinstance(node, ast.Try):
            for h in node.handlers:
                for s in h.body:
                    if isinstance(s, ast.Assign) and len(s.targets) == 1 and isinstance(s.targets[0], ast.Name) \
                            and s.targets[0].id == "int_or_long" and isinstance(s.value, ast.Name) and s.value.id == "int":
                        return True
    return False


class Subst(ast.NodeTransformer):
    """replace recorded sub-expressions (by dump) with plain names"""

    def __init__(self, table):
        self.table = table
        self.used = set()

    def generic_visit(self, node):
        d = ast.dump(node)
        if d in self.table:
            self.used.add(d)
            return ast.copy_location(ast.Name(id=self.table[d], ctx=ast.Load()), node)
        return super().generic_visit(node)

    def visit(self, node):
        d = ast.dump(node)
        if d in self.table:
            self.used.add(d)
            return ast.copy_location(ast.Name(id=self.table[d], ctx=ast.Load()), node)
        return super().visit(node)


def _expr(src):
    return ast.dump(ast.parse(src, mode="eval").body)


def translate_verifier(tree):
    """Verifier.__init__: `if not modulename: flattened_kwds = ffiplatform.flatten(kwds)` and the else-branch of
    `if modulename:` computing key/k1/k2/modulename.  Fail closed on any other shape."""
    init = py2coq.find_function(tree, "__init__", cls="Verifier")
    if init.args.kwarg is None or init.args.kwarg.arg != "kwds":
        raise Untranslatable("Verifier.__init__ no longer collects **kwds")
    want_flat = ast.dump(ast.parse("if not modulename:\n    flattened_kwds = ffiplatform.flatten(kwds)").body[0])
    pos_flat = [i for i, s in enumerate(init.body) if ast.dump(s) == want_flat]
    if len(pos_flat) != 1:
        raise Untranslatable("`if not modulename: flattened_kwds = ffiplatform.flatten(kwds)` not found")
    # kwds must not be modified before it is flattened
    for s in init.body[:pos_flat[0]]:
        for sub in ast.walk(s):
            if isinstance(sub, ast.Name) and sub.id == "kwds":
                raise Untranslatable("kwds is used before it is flattened")
    branch = [s for s in init.body if isinstance(s, ast.If) and ast.dump(s.test) == _expr("modulename")]
    if len(branch) != 1 or not branch[0].orelse:
        raise Untranslatable("`if modulename: ... else:` not found")
    block = copy.deepcopy(branch[0].orelse)
    # the version test is constant on Python 3
    out = []
    for s in block:
        if isinstance(s, ast.If) and ast.dump(s.test) == _expr("sys.version_info >= (3,)") and not s.orelse:
            out += s.body
        else:
            out.append(s)
    sub = Subst({
        _expr("'%d.%d' % sys.version_info[:2]"): "version",
        _expr("__version_verifier_modules__"): "vvm",
        _expr("ffi._cdefsources"): "cdefsources",
        _expr("self._vengine._class_key"): "class_key",
    })
    out = [sub.visit(s) for s in out]
    if len(sub.used) != 4:
        raise Untranslatable("key assembly: an expected input (version, __version_verifier_modules__, "
                             "ffi._cdefsources, _class_key) is missing")
    for s in out:
        ast.fix_missing_locations(s)
    # first statement: key = <expr>
    if not (out and isinstance(out[0], ast.Assign) and isinstance(out[0].targets[0], ast.Name)
            and out[0].targets[0].id == "key"):
        raise Untranslatable("key assembly: first statement is not `key = ...`")
    if not (isinstance(out[-1], ast.Assign) and isinstance(out[-1].targets[0], ast.Name)
            and out[-1].targets[0].id == "modulename"):
        raise Untranslatable("key assembly: last statement is not `modulename = ...`")
    env_key = {"version": T.STR, "vvm": T.STR, "preamble": T.STR, "flattened_kwds": T.STR,
               "cdefsources": T.LIST(T.STR)}
    tr = T.Trans()
    tr.pure = True
    ktext, kty = tr.ex(out[0].value, env_key, None)
    if kty != T.STR:
        raise Untranslatable("key is not a str")
    res = ["(* %s:31 Verifier.__init__: the text that is hashed *)" % SRC_V,
           "Definition verify_key (version vvm preamble flattened_kwds : str) (cdefsources : list str) : str :=\n%s.\n" % ktext]
    # rest: module name from key
    fns = {"crc32": T.Fn("crc32", [T.BYTES], T.INT, monadic=False)}
    rest = out[1:]
    subc = Subst({_expr("binascii.crc32"): "crc32"})
    rest = [subc.visit(s) for s in rest]
    for s in rest:
        ast.fix_missing_locations(s)
    tr2 = T.Trans(functions=fns)
    tr2.pure, tr2.ret = False, T.STR
    env = {"key": T.STR, "tag": T.STR, "class_key": T.STR}
    body = tr2.block(rest, env, lambda e: "Ok %s" % tr2.var("modulename"))
    res.append("Section WithCrc.\n(* binascii.crc32 is not interpreted *)\nVariable crc32 : list N -> Z.\n")
    res.append("Definition module_name (tag class_key key : str) : res str :=\n%s.\n" % body)
    res.append("End WithCrc.\n")
    return "\n".join(res)


def translate(repo):
    tf = py2coq.parse_source(os.path.join(repo, SRC_F))
    tv = py2coq.parse_source(os.path.join(repo, SRC_V))
    out = ["(* GENERATED by tools/props/c32.py from %s and %s — do not edit; regenerated on every run. *)" % (SRC_F, SRC_V),
           "From Coq Require Import List NArith ZArith Bool.", "Import ListNotations.",
           "From Cffi Require Import C35.PyStr C35.Model C32.PyStr C32.Model.", ""]
    if not int_or_long_is_int(tf):
        raise Untranslatable("int_or_long = int (Python 3 branch) not found")
    glob = {"int_or_long": ("class", "int")}
    sig = T.Fn("_flatten", [T.PYVAL, T.BUF], T.BUF, monadic=True, mutates=1, fuel=True)
    fl = py2coq.find_function(tf, "_flatten")
    if T.free_names(fl) - {"isinstance", "str", "dict", "list", "tuple", "sorted", "len", "int_or_long",
                           "TypeError", "_flatten"}:
        raise Untranslatable("_flatten uses %s" % sorted(T.free_names(fl)))
    out.append("(* %s:91 *)" % SRC_F)
    out.append(T.Trans(functions={"_flatten": sig}, globals_=glob).function(fl, sig, fuel=True))
    f2 = py2coq.find_function(tf, "flatten")
    sig2 = T.Fn("flatten", [T.PYVAL], T.STR, monadic=True, fuel=True)
    out.append("(* %s:110 *)" % SRC_F)
    out.append(T.Trans(functions={"_flatten": sig}, globals_=glob).function(f2, sig2, extra_binders="(fuel : nat) "))
    out.append(translate_verifier(tv))
    return "\n".join(out)


def regen(ctx):
    c35.regen_file(ctx, GEN, translate)
