"""C14 worker: ONE API-mode module per batch containing, for every signature i,
     extern "Python" R xf_i(T...)                       (def_extern'ed per scenario)
     void call_x_i(unsigned char *out)                  calls xf_i(constants) from C, stores the result bytes
     void call_c_i(void *fp, unsigned char *out, int wide)
                                                        calls an ffi.callback() function pointer with the same constants;
                                                        wide=1 reads EAX (32 bits) for results narrower than int
and runs the scenarios (body x error= x onerror=), reporting what Python received, what C received, how many
reports went through sys.unraisablehook, and whether anything escaped.
"""
import importlib
import os
import struct
import sys
import warnings

import cffi
from lib.vlib import worker_main
import c13_common as cc

warnings.simplefilter("ignore")

COMPLEX = {'float _Complex': 8, 'double _Complex': 16}


def ckind(t):
    if t in cc.UNIONS:
        return 'union'
    if t in COMPLEX:
        return 'complex'
    if t == 'void':
        return 'void'
    return cc.kind(t)


def csize(t):
    if t in cc.UNIONS:
        return cc.UNIONS[t][2]
    if t in COMPLEX:
        return COMPLEX[t]
    if t == 'void':
        return 0
    return cc.sizeof(t)


def c_const(t, v):
    k = ckind(t)
    if k == 'complex':
        suf = 'f' if t.startswith('float') else ''
        re, im = [struct.unpack('<d', bytes.fromhex(h))[0] for h in v]
        return "__builtin_complex((%s)%s, (%s)%s)" % (t.split()[0], re.hex(), t.split()[0], im.hex())
    if k == 'ptr':
        return "(%s)0" % t if v is None else "(%s)(c14_gbuf + %d)" % (t, v)
    if k == 'union':        # first member
        return "(%s){ %s }" % (t, cc.c_literal(cc.UNIONS[t][1], v))
    return cc.c_literal(t, v)


def gen_source(sigs):
    pre = ["#include <stdint.h>", "#include <stddef.h>", "#include <string.h>", "#include <uchar.h>", "#include <wchar.h>",
           "#include <complex.h>", "#include <sys/types.h>", cc.PRELUDE_DECLS, cc.UNION_DECLS, "unsigned char c14_gbuf[64];"]
    body = []
    for i, s in enumerate(sigs):
        params = ", ".join(s["args"]) or "void"
        consts = ", ".join(c_const(t, v) for t, v in zip(s["args"], s["consts"]))
        R = s["res"]
        pre.append("static %s xf_%d(%s);" % (R, i, params))
        fpt = "%s (*)(%s)" % (R, params)
        if R == 'void':
            body.append("void call_x_%d(unsigned char *out) { xf_%d(%s); }" % (i, i, consts))
            body.append("void call_c_%d(void *fp, unsigned char *out, int wide) { ((%s)fp)(%s); }" % (i, fpt, consts))
        else:
            body.append("void call_x_%d(unsigned char *out) { %s r = xf_%d(%s); memcpy(out, &r, sizeof r); }" % (i, R, i, consts))
            wide = ""
            if ckind(R) in ('int', 'bool', 'char') and csize(R) < 4:
                wide = ("if (wide) { unsigned int w = ((unsigned int (*)(%s))fp)(%s); memcpy(out, &w, 4); return; } "
                        % (params, consts))
            body.append("void call_c_%d(void *fp, unsigned char *out, int wide) { %s%s r = ((%s)fp)(%s); memcpy(out, &r, sizeof r); }"
                        % (i, wide, R, fpt, consts))
    return "\n".join(pre) + "\n" + "\n".join(body) + "\n"


def gen_cdef(sigs):
    out = [cc.PRELUDE_DECLS, cc.UNION_DECLS.replace("char pad[16];", "char pad[16];").replace("char c[3];", "char c[3];"),
           "extern unsigned char c14_gbuf[64];"]
    for i, s in enumerate(sigs):
        params = ", ".join(s["args"]) or "void"
        out.append('extern "Python" %s xf_%d(%s);' % (s["res"], i, params))
        out.append("void call_x_%d(unsigned char *out);" % i)
        out.append("void call_c_%d(void *fp, unsigned char *out, int wide);" % i)
    return "\n".join(out) + "\n"


def fbits(x):
    return struct.pack("<d", x).hex()


def canon(ffi, lib, v):
    if v is None:
        return ["none"]
    if v is True or v is False:
        return ["bool", int(v)]
    if isinstance(v, int):
        return ["int", v]
    if isinstance(v, float):
        return ["float", fbits(v)]
    if isinstance(v, complex):
        return ["complex", fbits(v.real), fbits(v.imag)]
    if isinstance(v, bytes):
        return ["bytes", v.hex()]
    if isinstance(v, str):
        return ["str", [ord(c) for c in v]]
    if isinstance(v, ffi.CData):
        ct = ffi.typeof(v)
        if ct.kind == "pointer":
            a = int(ffi.cast("uintptr_t", v))
            if a == 0:
                return ["ptr", None]
            g = int(ffi.cast("uintptr_t", ffi.addressof(lib, "c14_gbuf")))
            return ["ptr", a - g] if g <= a < g + 64 else ["ptr", "other"]
        if ct.kind == "struct":
            return ["struct", [canon(ffi, lib, getattr(v, fn)) for fn, fld in ct.fields]]
        if ct.kind == "union":          # value of the first member
            return ["union", canon(ffi, lib, getattr(v, ct.fields[0][0]))]
        if ct.kind == "primitive":
            return ["ld", fbits(float(v))]
    return ["other", type(v).__name__]


def mkret(ffi, lib, t, spec):
    """Python object for a return / error / onerror value spec"""
    k = spec[0]
    if k == "none":
        return None
    if k == "int":
        return spec[1]
    if k == "bool":
        return bool(spec[1])
    if k == "float":
        return struct.unpack("<d", bytes.fromhex(spec[1]))[0]
    if k == "complex":
        return complex(struct.unpack("<d", bytes.fromhex(spec[1]))[0], struct.unpack("<d", bytes.fromhex(spec[2]))[0])
    if k == "bytes":
        return bytes.fromhex(spec[1])
    if k == "str":
        return "".join(chr(c) for c in spec[1])
    if k == "ptr":
        return ffi.NULL if spec[1] is None else ffi.cast(t, ffi.cast("char *", ffi.addressof(lib, "c14_gbuf")) + spec[1])
    if k == "struct":        # list initializer -> struct cdata
        return ffi.new(t + " *", [mkret(ffi, lib, ft, fs) for (fn, ft), fs in zip(cc.STRUCTS[t], spec[1])])[0]
    if k == "union":         # union cdata whose first member has the given value
        return ffi.new(t + " *", [mkret(ffi, lib, cc.UNIONS[t][1], spec[1])])[0]
    if k == "structp":       # PARTIAL list initializer (plain Python list): the first len(spec[1]) fields
        return [mkret(ffi, lib, ft, fs) for (fn, ft), fs in zip(cc.STRUCTS[t], spec[1])]
    if k == "structd":       # PARTIAL dict initializer naming some fields
        types = dict(cc.STRUCTS[t])
        return dict((fn, mkret(ffi, lib, types[fn], fs)) for fn, fs in spec[1])
    if k == "unionp":        # list initializer of a union: sets the first member only
        return [mkret(ffi, lib, cc.UNIONS[t][1], spec[1])]
    if k == "list":
        return [mkret(ffi, lib, None, s) for s in spec[1]]
    if k == "obj":
        return object()
    raise ValueError(spec)


class Hook(object):
    def __init__(self):
        self.n = 0

    def __call__(self, unraisable):
        self.n += 1


def run_scenario(ffi, lib, sigs, sc, progress):
    i = sc["sig"]
    sig = sigs[i]
    R = sig["res"]
    received = []
    state = dict(onerror_calls=0)

    def body(*args):
        received.append([canon(ffi, lib, a) for a in args])
        if sc["body"][0] == "raise":
            raise ValueError("C14 body raises")
        return mkret(ffi, lib, R, sc["body"][1])

    def onerror(exc, val, tb):
        state["onerror_calls"] += 1
        if sc["onerror"][0] == "raise":
            raise KeyError("C14 onerror raises")
        if sc["onerror"][0] == "retnone":
            return None
        return mkret(ffi, lib, R, sc["onerror"][1])

    kw = {}
    if sc["error"] is not None:
        kw["error"] = mkret(ffi, lib, R, sc["error"])
    if sc["onerror"][0] != "none":
        kw["onerror"] = onerror
    if sc.get("dirty"):
        # the error value is stored in a fresh bytes object of max(sizeof(result), 8) bytes: make it likely that this
        # block is recycled memory that is not zero
        n = max(csize(R), 8)
        junk = [bytes([0xA5]) * n for _ in range(8)]
        del junk
    out = ffi.new("unsigned char[64]", b"\xee" * 64)
    hook = Hook()
    old_hook, old_err = sys.unraisablehook, sys.stderr
    sys.unraisablehook = hook
    res = dict(created=True, create_exc=None, escaped=None)
    progress(sc)
    try:
        try:
            if sc["path"] == "externpy":
                ffi.def_extern(name="xf_%d" % i, **kw)(body)
            else:
                params = ", ".join(sig["args"]) or "void"
                cb = ffi.callback("%s(*)(%s)" % (R, params), body, **kw)
        except Exception as e:
            res["created"] = False
            res["create_exc"] = type(e).__name__
            return res
        try:
            if sc["path"] == "externpy":
                getattr(lib, "call_x_%d" % i)(out)
            else:
                getattr(lib, "call_c_%d" % i)(ffi.cast("void *", cb), out, 1 if sc.get("wide") else 0)
        except BaseException as e:
            res["escaped"] = type(e).__name__
    finally:
        sys.unraisablehook = old_hook
    res["out"] = bytes(ffi.buffer(out)).hex()
    res["received"] = received
    res["printed"] = hook.n
    res["onerror_calls"] = state["onerror_calls"]
    return res


def main(payload):
    work = os.environ["VERIF_WORK"]
    tag = payload.get("tag", "m")
    sigs = payload["sigs"]
    asan = bool(payload.get("asan"))
    cflags = ["-O0", "-w"] + (["-fsanitize=address,undefined", "-fno-omit-frame-pointer",
                                "-fno-sanitize-recover=undefined"] if asan else [])
    ffi = cffi.FFI()
    ffi.cdef(gen_cdef(sigs))
    modname = "_c14_mod_" + tag
    ffi.set_source(modname, gen_source(sigs), extra_compile_args=cflags,
                   extra_link_args=(["-fsanitize=address,undefined"] if asan else []))
    ffi.compile(tmpdir=work)
    if work not in sys.path:
        sys.path.insert(0, work)
    mod = importlib.import_module(modname)
    pf = open(os.path.join(work, "c14_progress_%s.txt" % tag), "w")

    def progress(sc):
        pf.seek(0)
        pf.write("%d      \n" % sc["id"])
        pf.flush()

    # platform facts used as hypotheses of the buffer theorem: sizeof of every primitive type cffi knows
    from cffi import model as cmodel
    sizes = {}
    for t in sorted(cmodel.PrimitiveType.ALL_PRIMITIVE_TYPES):
        cname = {"_cffi_float_complex_t": "float _Complex", "_cffi_double_complex_t": "double _Complex"}.get(t, t)
        try:
            sizes[t] = mod.ffi.sizeof(cname)
        except Exception as e:
            sizes[t] = "%s" % type(e).__name__
    gbuf = int(mod.ffi.cast("uintptr_t", mod.ffi.addressof(mod.lib, "c14_gbuf")))
    results = [run_scenario(mod.ffi, mod.lib, sigs, sc, progress) for sc in payload["scenarios"]]
    pf.seek(0)
    pf.write("done      \n")
    pf.close()
    return dict(results=results, sizes=sizes, gbuf=gbuf)


worker_main(main)
