"""C22 — errno is passed to and from C calls and is thread-local.

Model coq/C22/Model.v: per thread two cells (C errno, cffi's saved copy), operations ffi.errno
get/set, C call enter/exit (restore/save), callback enter/exit (save/restore), C code reading and
assigning errno, interpreter noise.  Theorems: for every schedule over any number of threads each
thread observes ONE logical errno of its own (Spec.v) — non-interference + refinement; the same
code with a process-wide saved cell is refuted.
Tie: correspondence.  2-4 real threads run generated programs (ffi.errno, C helper called through
ffi.dlopen and through a compiled API-mode module, callbacks / extern "Python" that themselves
read/assign ffi.errno and call C again) under model-chosen interleavings with hand-over points also
in the middle of C calls; per-thread observations are compared with the Coq model (run inside Coq)
and the property is decided on the implementation against the one-cell specification and against
the same programs run without interleaving.
"""
import concurrent.futures

from lib import vlib

ID = "C22"
OVERFLOW = -999999
INT_MIN, INT_MAX = -2 ** 31, 2 ** 31 - 1
SET_VALUES = [0, 1, 2, 11, 13, 22, 34, 95, 255, 1000, 65535, 12345678, -1, -2, -4095, INT_MAX, INT_MIN,
              INT_MAX - 1, INT_MIN + 1]
OVER_VALUES = [INT_MAX + 1, INT_MIN - 1, 2 ** 32, 2 ** 63, -2 ** 63, 2 ** 64 + 5, -2 ** 40]
C_VALUES = [0, 1, 2, 4, 9, 11, 17, 28, 32, 110, 4095, -1, -7, INT_MAX, INT_MIN, 424242]


# ------------------------------------------------------------------ programs

def gen_py(rng, depth, mode, budget):
    ops = []
    for _ in range(rng.choice([1, 2, 2, 3, 3, 4, 5])):
        if budget[0] <= 0:
            break
        budget[0] -= 1
        r = rng.random()
        if r < 0.22:
            v = rng.choice(OVER_VALUES) if rng.random() < 0.12 else (
                rng.choice(SET_VALUES) if rng.random() < 0.6 else rng.randrange(INT_MIN, INT_MAX + 1))
            ops.append(["set", v])
        elif r < 0.45:
            ops.append(["get"])
        elif r < 0.55:
            ops.append(["clobber"])
        elif r < 0.60 and mode == "api":
            ops.append(["glob"])
        elif depth < 3:
            cops = []
            for _ in range(rng.choice([1, 1, 2, 3, 4])):
                q = rng.random()
                if q < 0.35:
                    cops.append(["cread"])
                elif q < 0.65:
                    cops.append(["cset", rng.choice(C_VALUES) if rng.random() < 0.7
                                 else rng.randrange(INT_MIN, INT_MAX + 1)])
                elif depth < 2:
                    cops.append(["cb", gen_py(rng, depth + 1, mode, budget)])
                else:
                    cops.append(["cread"])
            ops.append(["call", cops])
        else:
            ops.append(["get"])
        if rng.random() < 0.5:
            ops.append(["sync"])
    return ops


def count_syncs(ops):
    n = 0
    for op in ops:
        if op[0] == "sync":
            n += 1
        elif op[0] == "call":
            for c in op[1]:
                if c[0] == "cb":
                    n += count_syncs(c[1])
    return n


def flatten(ops, out):
    """model operations (code, value) with None as the turn separator"""
    for op in ops:
        k = op[0]
        if k == "set":
            out.append((0, op[1]))
        elif k == "get":
            out.append((1, 0))
        elif k == "clobber":
            out.append((2, 2))
        elif k == "sync":
            out.append(None)
        elif k == "glob":
            out += [(3, 0), (6, 0)]
        elif k == "call":
            out.append((3, 0))
            for c in op[1]:
                if c[0] == "cset":
                    out.append((4, c[1]))
                elif c[0] == "cread":
                    out.append((5, 0))
                else:
                    out.append((7, 0))
                    flatten(c[1], out)
                    out.append((8, 0))
            out.append((6, 0))
    return out


def model_schedule(case):
    segs = []
    for t, p in enumerate(case["progs"]):
        flat = flatten(p, [])
        cur, mine = [], []
        for x in flat:
            if x is None:
                mine.append(cur)
                cur = []
            else:
                cur.append(x)
        mine.append(cur)
        segs.append(mine)
    pos = [0] * len(segs)
    out = []
    for t in case["sched"]:
        out += [(t, c, v) for (c, v) in segs[t][pos[t]]]
        pos[t] += 1
    return out


def spec_obs(ops):
    """the one-cell specification (property text): observations of one thread"""
    z, obs = 0, []
    for (c, v) in [x for x in flatten(ops, []) if x is not None]:
        if c == 0:
            if INT_MIN <= v <= INT_MAX:
                z = v
            else:
                obs.append(OVERFLOW)
        elif c in (1, 5):
            obs.append(z)
        elif c == 4:
            z = v
    return obs


def directed(mode):
    cs = []
    # the schedule that separates a per-thread from a process-wide saved cell
    cs.append(dict(mode=mode, progs=[[["set", 5], ["sync"], ["call", [["cread"]]], ["get"]],
                                     [["set", 7], ["sync"], ["get"]]], sched=[0, 1, 0, 1]))
    # a thread parked in the middle of a C call (inside a callback) while another one uses errno
    cs.append(dict(mode=mode, progs=[[["call", [["cset", 11], ["cb", [["get"], ["sync"], ["set", 12], ["sync"]]],
                                                ["cread"]]], ["get"]],
                                     [["set", 3], ["sync"], ["call", [["cread"], ["cset", 4]]], ["sync"], ["get"]]],
                   sched=[0, 1, 0, 1, 0, 1]))
    cs.append(dict(mode=mode, progs=[[["get"], ["set", INT_MAX], ["clobber"], ["call", [["cread"], ["cset", INT_MIN]]],
                                      ["clobber"], ["get"], ["get"], ["set", 2 ** 31], ["get"]]], sched=[0]))
    cs.append(dict(mode=mode, progs=[[["call", [["cset", 9], ["cb", [["call", [["cread"], ["cset", 17],
                                                                               ["cb", [["get"], ["set", 28]]],
                                                                               ["cread"]]], ["get"]]],
                                                ["cread"]]], ["get"]]], sched=[0]))
    return cs


def generate(ctx):
    rng = ctx.rng
    cases = []
    for mode in ("abi", "api"):
        cases += directed(mode)
        for _ in range(ctx.n(120, 1400)):
            n = rng.choice([1, 2, 2, 3, 3, 4])
            progs = [gen_py(rng, 0, mode, [rng.choice([4, 8, 12])]) for _ in range(n)]
            turns = []
            for t, p in enumerate(progs):
                turns += [t] * (count_syncs(p) + 1)
            # a random interleaving that keeps each thread's turns in order
            rng.shuffle(turns)
            cases.append(dict(mode=mode, progs=progs, sched=turns))
    return cases


# ------------------------------------------------------------------ evaluation

def enc_step(t, c, v):
    assert -2 ** 71 <= v < 2 ** 71 and 0 <= c < 16
    return ((t * 16 + c) << 72) + (v + 2 ** 71)


def fpz(m, b, l):
    acc = 7
    for z in l:
        acc = (acc * b + (z + 2 ** 71) + 1) % m
    return acc


def run_workers(ctx, cases, timeout):
    s = ctx.scratch()
    if not getattr(ctx, "_c22_built", False):
        r, p = s.run_worker("c22_worker.py", dict(cases=[], build=["abi", "api"]), timeout=600)
        if r is None:
            raise RuntimeError("c22 helper build failed: " + (p.stderr[-2000:] or p.stdout[-500:]))
        ctx._c22_built = True
    chunks = [c for c in (cases[i::6] for i in range(6)) if c]
    out = {}

    def one(chunk):
        r, p = s.run_worker("c22_worker.py", dict(cases=chunk, timeout=timeout), timeout=3600)
        return chunk, r, p
    with concurrent.futures.ThreadPoolExecutor(max_workers=len(chunks) or 1) as ex:
        for chunk, r, p in ex.map(one, chunks):
            if r is None:
                raise RuntimeError("c22 worker failed: " + (p.stderr[-2000:] or p.stdout[-500:]))
            for c, x in zip(chunk, r["results"]):
                out[id(c)] = x
    return [out[id(c)] for c in cases]


def evaluate(ctx, cases):
    cases = [dict(mode=c["mode"], progs=c["progs"], sched=c["sched"]) for c in cases]
    results = run_workers(ctx, cases, 30)
    for i, (c, r) in enumerate(zip(cases, results)):
        if "timeout" in (r["inter"]["status"], r["alone"]["status"]):
            results[i] = run_workers(ctx, [c], 60)[0]      # retried once in a fresh process
    coqcases, owner = [], []
    for c, r in zip(cases, results):
        ctx.count()
        n = len(c["progs"])
        ctx.hist("threads", n)
        ctx.hist("mode", c["mode"])
        bad = []
        for tag in ("inter", "alone"):
            if r[tag]["status"] != "ok":
                bad.append("%s run: %s" % (tag, r[tag]["status"]))
        if bad:
            ctx.mismatch(dict(c, observed=r), "harness could not complete the case: " + "; ".join(bad),
                         "C22 harness")
            continue
        inter, alone = r["inter"]["obs"], r["alone"]["obs"]
        for t in range(n):
            want = spec_obs(c["progs"][t])
            if inter[t] and inter[t][0] == "error":
                bad.append("thread %d failed: %r" % (t, inter[t]))
            elif inter[t] != want:
                k = next((j for j in range(min(len(want), len(inter[t]))) if want[j] != inter[t][j]), None)
                bad.append("thread %d observed errno %r where its own logical errno is %r (observation #%r; all: %r, "
                           "expected %r)" % (t, inter[t][k] if k is not None else None,
                                             want[k] if k is not None else None, k, inter[t], want))
            if alone[t] != inter[t]:
                bad.append("thread %d observes %r when interleaved with the others but %r when run alone"
                           % (t, inter[t], alone[t]))
        if bad:
            ctx.violation(dict(c, observed=r), "errno (%s mode, %d threads): %s" % (c["mode"], n, "; ".join(bad[:2])))
            continue
        nobs = sum(len(x) for x in inter)
        ctx.hist("observations", min(nobs, 20))
        if nobs >= 2 and (n >= 2 or any(op[0] == "call" for op in c["progs"][0])):
            ctx.nontrivial((c["mode"], c["progs"], c["sched"]))
        flat = []
        for t in range(n):
            flat += [len(inter[t])] + inter[t]
        steps = model_schedule(c)
        coqcases.append((vlib.cpair(vlib.cnat(n), "[" + ";".join("%d" % enc_step(*s) for s in steps) + "]%Z"),
                         "(Some (%d, %d)%%Z)" % (fpz(2305843009213693951, 1000003, flat), fpz(2147483647, 48271, flat))))
        owner.append((c, r))
    badidx, outs, err = vlib.coq_mismatches(
        ["C22.Model"], "fun x => run_code (fst x) (snd x)", "opt_eqb (pair_eqb Z.eqb Z.eqb)", coqcases, shard=120)
    if err:
        ctx.obligation_broken("C22 model evaluation", err)
    for k, i in enumerate(badidx):
        c, r = owner[i]
        model = ""
        if k < 3:
            steps = model_schedule(c)
            ok, out = vlib.coq_eval(["C22.Model"], "Eval vm_compute in (run_sched false %d %s).\n" % (
                len(c["progs"]), vlib.clist(["(%d%%nat, (%s, %s))" % (t, vlib.cz(cc), vlib.cz(v)) for t, cc, v in steps])))
            model = " ".join(out.split())[:1200]
        ctx.mismatch(dict(c, observed=r), "model run_sched false: %s ; implementation: %r" % (model, r["inter"]["obs"]),
                     "C22.Model (step1/crun) vs misc_thread_common.h + _cffi_backend.c errno paths")
    ctx.extra["traces_validated_against_impl"] = len(owner) - len(badidx)
    for c, r in owner[:3]:
        ctx.sample(dict(c, observations=r["inter"]["obs"]))


def run(ctx):
    ctx.cov["rule"] = ("generated thread programs (1-4 threads; ffi.errno get/set incl. out-of-range values, interpreter "
                       "noise, C helper calls that read/assign errno and call back, callbacks that read/assign ffi.errno "
                       "and call C again, nesting <= 3; API mode adds a global-variable fetch) with hand-over points "
                       "between and inside C calls, run under a random interleaving and again serially, in ABI mode "
                       "(ffi.dlopen + ffi.callback) and API mode (compiled module + extern \"Python\"). Non-trivial = at "
                       "least 2 observations and (>= 2 threads or a C call); distinct by (mode, programs, schedule).")
    ctx.assumptions += [
        "hypothesis of the theorems: __thread storage (cffi_saved_errno) and the C library's errno are per thread "
        "(the model with a process-wide saved cell is refuted: C22_shared_saved_refuted)",
        "hand model C22/Model.v tied to the code by this run's differential test only",
        "interpreter noise on errno is what CPython happens to do between operations plus failing os.stat calls"]
    evaluate(ctx, generate(ctx))


MANIFEST = dict(
    technique="Coq proof (non-interference for all schedules and thread counts + refinement of a one-cell specification) "
              "+ differential correspondence on real threads in ABI and API mode",
    text="Proof: in the model of save_errno/restore_errno, b_get_errno/b_set_errno, C calls and callbacks, for every "
         "schedule over any number of threads every thread observes exactly one logical errno of its own: values assigned "
         "to ffi.errno reach the C code, values left by C code or assigned in callbacks reach ffi.errno, interpreter noise "
         "and other threads are invisible; out-of-range assignments are refused. The four call paths of the property "
         "(ABI call, API-mode wrapper, callbacks / extern \"Python\", global-variable fetch) share one restore/call/save "
         "bracket in the model; that each real path brackets its call this way is decided by the correspondence only. "
         "Partial: thread-locality of __thread "
         "storage and of the C errno is the hypothesis (its negation is refuted in the model and caught on the real code "
         "by the interleaved runs).",
    note="Trusted: Coq kernel; hand model tied by differential runs (ABI: b_call/invoke_callback; API: generated wrappers, "
         "cffi_call_python, global accessor); gcc; glibc TLS. Theorems closed under the global context.",
    design_ref="DESIGN.md §4 C22")
