"""C22 — errno is passed to and from C calls and is thread-local.

Model coq/C22/Model.v: per thread two cells (C errno, cffi's saved copy), operations ffi.errno
get/set, C call enter/exit (restore/save), callback enter/exit (save/restore), C code reading and
assigning errno, interpreter noise.  Theorems: for every schedule over any number of threads each
thread observes ONE logical errno of its own (Spec.v) — non-interference + refinement; the same
code with a process-wide saved cell is refuted.  C22/Micro.v: the same at statement granularity, each
operation expanded into the regenerated statements of the code path it takes; C22/Proofs2.v: every
syntactic path of cffi_call_python / invoke_callback (regenerated control-flow trees) has
save_errno() first and restore_errno() last with everything else in between.
Tie: regenerated facts (C22/Gen.v, see extract_facts) + correspondence.  1-4 real threads run
generated programs (ffi.errno, C helper called through ffi.dlopen and through a compiled API-mode
module, callbacks / extern "Python" that themselves read/assign ffi.errno and call C again, that
raise with or without onerror=, that are not attached at all, that are invoked from pthreads which
never held the GIL) under model-chosen interleavings with hand-over points also in the middle of C
calls; per-thread observations are compared with the Coq model (run inside Coq) and the property is
decided on the implementation against the one-cell specification and against the same programs run
without interleaving.
"""
import ast
import concurrent.futures
import os
import re

from lib import vlib, py2coq

ID = "C22"
OVERFLOW = -999999
INT_MIN, INT_MAX = -2 ** 31, 2 ** 31 - 1
SET_VALUES = [0, 1, 2, 11, 13, 22, 34, 95, 255, 1000, 65535, 12345678, -1, -2, -4095, INT_MAX, INT_MIN,
              INT_MAX - 1, INT_MIN + 1]
OVER_VALUES = [INT_MAX + 1, INT_MIN - 1, 2 ** 32, 2 ** 63, -2 ** 63, 2 ** 64 + 5, -2 ** 40]
C_VALUES = [0, 1, 2, 4, 9, 11, 17, 28, 32, 110, 4095, -1, -7, INT_MAX, INT_MIN, 424242]


# ------------------------------------------------------------------ regeneration of the bracketing facts (tie A)

U = py2coq.Untranslatable


def _src(rel):
    with open(os.path.join(vlib.REPO, "src", rel)) as f:
        return f.read()


def _nocomment(text):
    text = re.sub(r"/\*.*?\*/", " ", text, flags=re.S)
    return re.sub(r"//[^\n]*", " ", text)


def _one(pattern, text, what, flags=re.S):
    ms = list(re.finditer(pattern, text, flags))
    if len(ms) != 1:
        raise U("%s: expected exactly one match, found %d" % (what, len(ms)))
    return ms[0]


def _body(text, header_re, what):
    """text of the brace-balanced body that follows the unique match of header_re"""
    m = _one(header_re, text, what)
    i = text.index("{", m.end() - 1)
    depth, j = 0, i
    while True:
        if text[j] == "{":
            depth += 1
        elif text[j] == "}":
            depth -= 1
            if depth == 0:
                return text[i + 1:j]
        j += 1
        if j >= len(text):
            raise U(what + ": unbalanced braces")


def _stmts(region):
    return [" ".join(x.split()) for x in re.split(r"[;{}]", region) if x.strip()]


def _bracket(region, foreign_re, what, ignore=()):
    out = []
    for st in _stmts(region):
        if st == "restore_errno()":
            out.append("BRestore")
        elif st == "save_errno()":
            out.append("BSave")
        elif re.search(foreign_re, st):
            out.append("BForeign")
        elif any(re.fullmatch(ig, st) for ig in ignore):
            continue
        else:
            raise U("%s: unexpected statement %r" % (what, st))
    return out


def _allow_threads_region(text, anchor_re, what):
    m = _one(anchor_re, text, what)
    a = text.rfind("Py_BEGIN_ALLOW_THREADS", 0, m.start())
    b = text.find("Py_END_ALLOW_THREADS", m.end())
    if a < 0 or b < 0 or "Py_END_ALLOW_THREADS" in text[a:m.start()]:
        raise U(what + ": not inside a Py_BEGIN/END_ALLOW_THREADS region")
    return text[a + len("Py_BEGIN_ALLOW_THREADS"):b]


# ---- control flow of the callback brackets (cffi_call_python, invoke_callback), statement by statement

CALLEES = {"save_errno": "CSave", "restore_errno": "CRestore", "general_invoke_callback": "CInvoke",
           "gil_ensure": "CNoise NGilEnsure", "gil_release": "CNoise NGilRelease",
           "_update_cache_to_call_python": "CNoise NUpdateCache", "fprintf": "CNoise NReport",
           "memset": "CNoise NMemset", "read_barrier": "CPure"}
PURE_CALLEES = {"_current_interp_key"}
C_KEYWORDS = {"if", "else", "for", "while", "do", "switch", "case", "goto", "return", "sizeof", "break", "continue",
              "default"}


def _strip_strings(text, what):
    out, i = [], 0
    while i < len(text):
        ch = text[i]
        if ch in "\"'":
            j = i + 1
            while j < len(text) and text[j] != ch:
                j += 2 if text[j] == "\\" else 1
            if j >= len(text):
                raise U(what + ": unterminated literal")
            out.append(ch + ch)
            i = j + 1
        else:
            out.append(ch)
            i += 1
    return "".join(out)


def _match(text, i, what):
    """index just after the bracket that closes the one at text[i]"""
    pairs = {"(": ")", "{": "}", "[": "]"}
    stack = []
    j = i
    while j < len(text):
        ch = text[j]
        if ch in pairs:
            stack.append(pairs[ch])
        elif ch in ")}]":
            if not stack or stack.pop() != ch:
                raise U(what + ": unbalanced brackets")
            if not stack:
                return j + 1
        j += 1
    raise U(what + ": unbalanced brackets")


def _calls(st):
    return [m.group(1) for m in re.finditer(r"\b([A-Za-z_]\w*)\s*\(", st) if m.group(1) not in C_KEYWORDS]


def _classify(st, what):
    st = " ".join(st.split())
    if re.match(r"return\b", st):
        if _calls(st) or re.search(r"\berrno\b", st):
            raise U("%s: unexpected return statement %r" % (what, st))
        return "CReturn"
    if re.match(r"(goto|break|continue|case|default|do|for|while|switch)\b", st) or re.match(r"[A-Za-z_]\w*\s*:", st):
        raise U("%s: control flow the translator does not handle: %r" % (what, st))
    calls = [c for c in _calls(st) if c not in PURE_CALLEES]
    if not calls:
        if re.search(r"\berrno\b", st):
            raise U("%s: statement touches errno directly: %r" % (what, st))
        return "CPure"
    if len(calls) != 1 or calls[0] not in CALLEES:
        raise U("%s: statement calls %s, which the translator does not know: %r" % (what, ", ".join(calls), st))
    return CALLEES[calls[0]]


def _parse_stmt(text, i, what):
    """one statement starting at text[i] (whitespace skipped): returns (list of cfg items, next index)"""
    while i < len(text) and text[i].isspace():
        i += 1
    if text[i] == "{":
        j = _match(text, i, what)
        return _parse_block(text[i + 1:j - 1], what), j
    m = re.match(r"if\s*\(", text[i:])
    if m:
        a = i + m.end() - 1
        b = _match(text, a, what)
        cond = " ".join(text[a + 1:b - 1].split())
        if [c for c in _calls(cond) if c not in PURE_CALLEES] or re.search(r"\berrno\b|=(?!=)(?<![!<>=]=)", cond):
            raise U("%s: condition with side effects: %r" % (what, cond))
        then, j = _parse_stmt(text, b, what)
        k = j
        while k < len(text) and text[k].isspace():
            k += 1
        els = []
        if re.match(r"else\b", text[k:]):
            els, j = _parse_stmt(text, k + 4, what)
        return [("CIf", cond, then, els)], j
    j = i
    while j < len(text) and text[j] != ";":
        if text[j] in "({[":
            j = _match(text, j, what)
        elif text[j] in ")}]":
            raise U(what + ": unbalanced brackets")
        else:
            j += 1
    if j >= len(text):
        raise U("%s: statement without ';': %r" % (what, text[i:i + 60]))
    return [_classify(text[i:j], what)], j + 1


def _parse_block(text, what):
    out, i = [], 0
    while text[i:].strip():
        items, i = _parse_stmt(text, i, what)
        out += items
    return out


def extract_cfg(source, header_re, what):
    body = _body(source, header_re, what)
    if re.search(r"^\s*#", body, re.M):
        raise U(what + ": preprocessor directive inside the function body")
    return _parse_block(_strip_strings(body, what), what)


def cfg_coq(items):
    out = []
    for it in items:
        if isinstance(it, (tuple, list)):
            cond = re.sub(r"[^A-Za-z0-9_ !=<>&|.\-]", "", it[1].replace("->", "."))
            out.append("CIf (* %s *) %s %s" % (cond, cfg_coq(it[2]), cfg_coq(it[3])))
        else:
            out.append(it)
    return "[" + "; ".join(out) + "]"


def _norm_cfg(items):
    return [["CIf", it[1], _norm_cfg(it[2]), _norm_cfg(it[3])] if isinstance(it, (tuple, list)) else it for it in items]


def extract_facts():
    f = {}
    common = _nocomment(_src("c/misc_thread_common.h"))
    m = _one(r"static\s+(__thread\s+)?int\s+cffi_saved_errno\s*=\s*0\s*;", common, "declaration of cffi_saved_errno")
    f["gen_saved_thread_local"] = bool(m.group(1))
    # the USE__THREAD variants are the ones defined before "#else"; their whole body must be the plain copy
    use_thread = common[m.end():common.index("#else", m.end())]
    b1 = " ".join(_body(use_thread, r"static\s+void\s+save_errno_only\s*\(\s*void\s*\)\s*\{", "save_errno_only").split())
    f["gen_save_errno_only_copies_errno_to_saved"] = (b1 == "cffi_saved_errno = errno;")
    b2 = " ".join(_body(use_thread, r"static\s+void\s+restore_errno_only\s*\(\s*void\s*\)\s*\{",
                        "restore_errno_only").split())
    f["gen_restore_errno_only_copies_saved_to_errno"] = (b2 == "errno = cffi_saved_errno;")
    posix = _nocomment(_src("c/misc_thread_posix.h"))
    _one(r"#\s*define\s+save_errno\s+save_errno_only\s*$", posix, "#define save_errno", re.M)
    _one(r"#\s*define\s+restore_errno\s+restore_errno_only\s*$", posix, "#define restore_errno", re.M)
    f["gen_posix_aliases"] = True
    back = _nocomment(_src("c/_cffi_backend.c"))
    f["gen_b_call"] = _bracket(_allow_threads_region(back, r"\bffi_call\s*\(", "ffi_call in b_call"),
                               r"^ffi_call\s*\(", "b_call")
    body = _body(back, r"static\s+void\s+invoke_callback\s*\([^)]*\)\s*\{", "invoke_callback")
    f["gen_invoke_callback"] = _bracket(body, r"^general_invoke_callback\s*\(", "invoke_callback",
                                        ignore=(r"PyGILState_STATE state = gil_ensure\(\)", r"gil_release\(state\)"))
    body = _body(back, r"static\s+PyObject\s*\*\s*b_get_errno\s*\([^)]*\)\s*\{", "b_get_errno")
    seq = []
    for st in _stmts(body):
        if st == "int err":
            continue
        elif st == "restore_errno_only()":
            seq.append("ERestoreOnly")
        elif st == "err = errno":
            seq.append("EReadErrno")
        elif st == "errno = 0":
            seq.append("EZeroErrno")
        elif st == "return PyLong_FromLong(err)":
            continue
        else:
            raise U("b_get_errno: unexpected statement %r" % st)
    f["gen_get_errno"] = seq
    body = _body(back, r"static\s+PyObject\s*\*\s*b_set_errno\s*\([^)]*\)\s*\{", "b_set_errno")
    m = _one(r"else\s+if\s*\(\s*ival\s*<\s*INT_MIN\s*\|\|\s*ival\s*>\s*INT_MAX\s*\)\s*\{[^{}]*return\s+NULL\s*;\s*\}", body,
             "range check of b_set_errno")
    head = " ".join(body[:m.start()].split())
    if head != "long ival = PyLong_AsLong(arg); if (ival == -1 && PyErr_Occurred()) return NULL;":
        raise U("b_set_errno: unexpected prologue %r" % head)
    seq = []
    for st in _stmts(body[m.end():]):
        if st == "errno = (int)ival":
            seq.append("EAssignErrno")
        elif st == "save_errno_only()":
            seq.append("ESaveOnly")
        elif st == "errno = 0":
            seq.append("EZeroErrno")
        elif st in ("Py_INCREF(Py_None)", "return Py_None"):
            continue
        else:
            raise U("b_set_errno: unexpected statement %r" % st)
    f["gen_set_errno"] = seq
    f["gen_set_errno_range"] = (-2 ** 31, 2 ** 31 - 1)          # INT_MIN, INT_MAX of the x86-64 SysV ABI
    # exports used by API-mode modules
    m = _one(r"static\s+void\s*\*\s*cffi_exports\s*\[\s*\]\s*=\s*\{(.*?)\}\s*;", back, "cffi_exports[]")
    entries = [x.strip() for x in m.group(1).split(",") if x.strip()]
    inc = _nocomment(_src("cffi/_cffi_include.h")).replace("\\\n", " ")
    m1 = _one(r"#\s*define\s+_cffi_restore_errno\s+\(\(void\(\*\)\(void\)\)_cffi_exports\[(\d+)\]\)", inc,
              "_cffi_restore_errno")
    m2 = _one(r"#\s*define\s+_cffi_save_errno\s+\(\(void\(\*\)\(void\)\)_cffi_exports\[(\d+)\]\)", inc,
              "_cffi_save_errno")
    f["gen_api_export_slots_ok"] = (entries[int(m1.group(1))] == "restore_errno"
                                    and entries[int(m2.group(1))] == "save_errno")
    # call_python.c
    cp = _nocomment(_src("c/call_python.c"))
    body = _body(cp, r"static\s+void\s+cffi_call_python\s*\([^)]*\)\s*\{", "cffi_call_python")
    # textual order of the three kinds of statements (early returns, branches: see gen_call_python_cfg below)
    toks = [(mm.start(), mm.group(0)) for mm in re.finditer(r"\bsave_errno\s*\(\s*\)|\brestore_errno\s*\(\s*\)|"
                                                             r"\bgeneral_invoke_callback\s*\(", body)]
    seq = []
    for _pos, tk in toks:
        if tk.startswith("save_errno"):
            seq.append("BSave")
        elif tk.startswith("restore_errno"):
            seq.append("BRestore")
        else:
            seq.append("BForeign")
    f["gen_call_python"] = seq
    # cglob.c
    cg = _nocomment(_src("c/cglob.c"))
    f["gen_glob_fetch"] = _bracket(_allow_threads_region(cg, r"gs->gs_fetch_addr\s*\(\s*\)", "fetch_global_var_addr"),
                                   r"gs->gs_fetch_addr\s*\(\s*\)", "fetch_global_var_addr")
    # recompiler.py: what the generated wrapper contains between Py_BEGIN/END_ALLOW_THREADS
    tree = py2coq.parse_source(os.path.join(vlib.REPO, "src", "cffi", "recompiler.py"))
    fn = py2coq.find_function(tree, "_generate_cpy_function_decl", cls="Recompiler")
    emitted = []
    for node in ast.walk(fn):
        if isinstance(node, ast.Expr) and isinstance(node.value, ast.Call) and isinstance(node.value.func, ast.Name) \
                and node.value.func.id == "prnt" and node.value.args:
            a = node.value.args[0]
            if isinstance(a, ast.BinOp) and isinstance(a.op, ast.Mod):
                a = a.left
            if isinstance(a, ast.Constant) and isinstance(a.value, str):
                emitted.append((node.lineno, a.value.strip()))
    emitted.sort()
    texts = [t for _l, t in emitted]
    if texts.count("Py_BEGIN_ALLOW_THREADS") != 1 or texts.count("Py_END_ALLOW_THREADS") != 1:
        raise U("recompiler: ALLOW_THREADS region not found exactly once")
    region = texts[texts.index("Py_BEGIN_ALLOW_THREADS") + 1:texts.index("Py_END_ALLOW_THREADS")]
    seq = []
    for t in region:
        if t == "_cffi_restore_errno();":
            seq.append("BRestore")
        elif t == "_cffi_save_errno();":
            seq.append("BSave")
        elif t == "{ %s%s(%s); }":
            seq.append("BForeign")
        else:
            raise U("recompiler: unexpected line in the wrapper's call region: %r" % t)
    f["gen_api_wrapper"] = seq
    # control flow of the two functions that bracket a callback, and what lies inside the bracket
    f["gen_call_python_cfg"] = _norm_cfg(extract_cfg(cp, r"static\s+void\s+cffi_call_python\s*\([^)]*\)\s*\{",
                                                     "cffi_call_python"))
    f["gen_invoke_callback_cfg"] = _norm_cfg(extract_cfg(back, r"static\s+void\s+invoke_callback\s*\([^)]*\)\s*\{",
                                                         "invoke_callback"))
    giv = _body(back, r"static\s+void\s+general_invoke_callback\s*\([^)]*\)\s*\{", "general_invoke_callback")
    f["gen_general_invoke_callback_leaves_bracket_alone"] = not re.search(
        r"\berrno\b|\bsave_errno|\brestore_errno", giv)
    # every call of general_invoke_callback() in src/c lies in one of the two bracketing functions
    total = 0
    for fn in sorted(os.listdir(os.path.join(vlib.REPO, "src", "c"))):
        if fn.endswith((".c", ".h")):
            total += len(re.findall(r"\bgeneral_invoke_callback\s*\(", _nocomment(_src("c/" + fn))))
    inside = len(re.findall(r"\bgeneral_invoke_callback\s*\(", body)) + len(re.findall(
        r"\bgeneral_invoke_callback\s*\(", _body(back, r"static\s+void\s+invoke_callback\s*\([^)]*\)\s*\{",
                                                  "invoke_callback")))
    f["gen_general_invoke_callback_only_called_inside_brackets"] = (total == inside + 1)
    return f


SNAPSHOT_FACTS = dict(
    gen_saved_thread_local=True, gen_save_errno_only_copies_errno_to_saved=True,
    gen_restore_errno_only_copies_saved_to_errno=True, gen_posix_aliases=True,
    gen_b_call=["BRestore", "BForeign", "BSave"], gen_api_wrapper=["BRestore", "BForeign", "BSave"],
    gen_api_export_slots_ok=True, gen_glob_fetch=["BRestore", "BForeign", "BSave"],
    gen_invoke_callback=["BSave", "BForeign", "BRestore"], gen_call_python=["BSave", "BForeign", "BRestore"],
    gen_get_errno=["ERestoreOnly", "EReadErrno", "EZeroErrno"], gen_set_errno=["EAssignErrno", "ESaveOnly", "EZeroErrno"],
    gen_set_errno_range=(-2 ** 31, 2 ** 31 - 1),
    gen_call_python_cfg=[
        "CPure", "CPure", "CSave",
        ["CIf", "externpy->reserved1 == NULL", ["CPure"],
         ["CNoise NGilEnsure", ["CIf", "externpy->reserved1 != _current_interp_key()", ["CNoise NUpdateCache"], []],
          ["CIf", "!err", ["CInvoke"], []], "CNoise NGilRelease"]],
        ["CIf", "err", ["CPure", "CNoise NReport", "CNoise NMemset"], []], "CRestore"],
    gen_invoke_callback_cfg=["CSave", "CNoise NGilEnsure", "CInvoke", "CNoise NGilRelease", "CRestore"],
    gen_general_invoke_callback_leaves_bracket_alone=True,
    gen_general_invoke_callback_only_called_inside_brackets=True)
ORDER = ["gen_saved_thread_local", "gen_save_errno_only_copies_errno_to_saved",
         "gen_restore_errno_only_copies_saved_to_errno", "gen_posix_aliases", "gen_b_call", "gen_api_wrapper",
         "gen_api_export_slots_ok", "gen_glob_fetch", "gen_invoke_callback", "gen_call_python", "gen_get_errno",
         "gen_set_errno", "gen_set_errno_range", "gen_call_python_cfg", "gen_invoke_callback_cfg",
         "gen_general_invoke_callback_leaves_bracket_alone", "gen_general_invoke_callback_only_called_inside_brackets"]
WHERE = dict(gen_saved_thread_local="misc_thread_common.h: storage class of cffi_saved_errno",
             gen_b_call="_cffi_backend.c: statements around ffi_call() in b_call",
             gen_api_wrapper="recompiler.py _generate_cpy_function_decl: lines emitted between Py_BEGIN/END_ALLOW_THREADS",
             gen_api_export_slots_ok="_cffi_include.h slots of _cffi_restore_errno/_cffi_save_errno vs cffi_exports[]",
             gen_glob_fetch="cglob.c fetch_global_var_addr", gen_invoke_callback="_cffi_backend.c invoke_callback",
             gen_call_python="call_python.c cffi_call_python (textual order; control flow: gen_call_python_cfg)",
             gen_call_python_cfg="call_python.c cffi_call_python: the whole body, statement by statement",
             gen_invoke_callback_cfg="_cffi_backend.c invoke_callback: the whole body",
             gen_general_invoke_callback_leaves_bracket_alone="_cffi_backend.c general_invoke_callback: no errno / "
             "save_errno / restore_errno in its body (incl. the error: path)",
             gen_general_invoke_callback_only_called_inside_brackets="all .c and .h files of src/c: every call of "
             "general_invoke_callback() is in cffi_call_python or invoke_callback",
             gen_get_errno="_cffi_backend.c b_get_errno", gen_set_errno="_cffi_backend.c b_set_errno (after the range check)")


def gen_text(f, origin):
    out = ["(* C22/Gen.v — %s.  Do not edit: rewritten by tools/props/c22.py regen() on every run. *)" % origin,
           "From Coq Require Import ZArith List Bool.", "Import ListNotations.", "From Cffi Require Import C22.Model.", ""]
    for k in ORDER:
        v = f[k]
        if k in WHERE:
            out.append("(* %s *)" % WHERE[k])
        if isinstance(v, bool):
            out.append("Definition %s : bool := %s." % (k, "true" if v else "false"))
        elif isinstance(v, tuple):
            out.append("Definition %s : Z * Z := (%d, %d)%%Z." % (k, v[0], v[1]))
        elif k.endswith("_cfg"):
            out.append("Definition %s : list cstmt :=\n  %s." % (k, cfg_coq(v)))
        else:
            ty = "estep" if k in ("gen_get_errno", "gen_set_errno") else "bstep"
            out.append("Definition %s : list %s := [%s]." % (k, ty, "; ".join(v)))
    return "\n".join(out) + "\n"


def regen(ctx):
    try:
        facts, status, origin = extract_facts(), None, "regenerated from src/c/*.c, *.h and src/cffi/recompiler.py"
    except (U, OSError, SyntaxError, IndexError, ValueError) as e:
        facts, status = dict(SNAPSHOT_FACTS), "fallback: %s" % e
        origin = "SNAPSHOT (extraction from the current source failed)"
    st = py2coq.write_if_changed(os.path.join(vlib.COQ, "C22", "Gen.v"), gen_text(facts, origin))
    ctx.translator("C22/Gen.v", status or st)
    ctx.extra["gen_facts_equal_snapshot"] = (facts == SNAPSHOT_FACTS)
    ctx._c22_fallback = status is not None      # the correspondence carries the run: search three times as much


# ------------------------------------------------------------------ programs
# (the operation language is described at the top of tools/props/c22_worker.py)

def gen_cops(rng, depth, mode, budget, foreign=False):
    cops = []
    for _ in range(rng.choice([1, 1, 2, 3, 4])):
        q = rng.random()
        if q < 0.30:
            cops.append(["cread"])
        elif q < 0.55:
            q2 = rng.random()
            cops.append(["cset", 0 if q2 < 0.25 else rng.choice(C_VALUES) if q2 < 0.75
                         else rng.randrange(INT_MIN, INT_MAX + 1)])
        elif q < 0.64 and mode == "api":
            cops.append(["cbu"])
            cops.append(["cread"])
        elif depth < 2:
            body = gen_py(rng, depth + 1, mode, budget)
            q3 = rng.random()
            if q3 < 0.30:           # the callback raises / returns something that cannot be converted
                hb = [max(1, min(budget[0], 3))]
                budget[0] -= hb[0]
                hops = [op for op in gen_py(rng, 3 if rng.random() < 0.7 else depth + 1, mode, hb)]
                if rng.random() < 0.15:
                    hops.append([rng.choice(["raise", "badret"]), []])
                body.append([rng.choice(["raise", "raise", "badret"]), hops])
            cops.append([rng.choice(["cb", "cb", "cbe", "cbe", "cbe"]) if q3 < 0.30 else rng.choice(["cb", "cb", "cbe"]),
                         body])
            if rng.random() < 0.5:
                cops.append(["cread"])
        else:
            cops.append(["cread"])
    return cops


def gen_py(rng, depth, mode, budget):
    ops = []
    for _ in range(rng.choice([1, 2, 2, 3, 3, 4, 5])):
        if budget[0] <= 0:
            break
        budget[0] -= 1
        r = rng.random()
        if r < 0.22:
            q = rng.random()
            v = rng.choice(OVER_VALUES) if q < 0.12 else 0 if q < 0.34 else (
                rng.choice(SET_VALUES) if q < 0.75 else rng.randrange(INT_MIN, INT_MAX + 1))
            ops.append(["set", v])
        elif r < 0.45:
            ops.append(["get"])
        elif r < 0.55:
            ops.append(["clobber"])
        elif r < 0.60 and mode == "api":
            ops.append(["glob"])
        elif depth < 3:
            if rng.random() < 0.2:
                ops.append(["tcall", gen_cops(rng, depth, mode, budget, True),
                            rng.choice(C_VALUES) if rng.random() < 0.8 else rng.randrange(INT_MIN, INT_MAX + 1)])
            else:
                ops.append(["call", gen_cops(rng, depth, mode, budget)])
        else:
            ops.append(["get"])
        if rng.random() < 0.5:
            ops.append(["sync"])
    return ops


def flatten(ops, out=None, st=None, sub=0, onerr=False):
    """model operations (logical thread within the strand, code, value) in execution order, with None as the
    turn separator.  Logical thread 0 is the strand's own thread, j >= 1 its j-th pthread (tcall)."""
    if out is None:
        out = []
    if st is None:
        st = dict(nsub=1)
    for op in ops:
        k = op[0]
        if k == "set":
            out.append((sub, 0, op[1]))
        elif k == "get":
            out.append((sub, 1, 0))
        elif k == "clobber":
            out.append((sub, 2, 2))
        elif k == "sync":
            out.append(None)
        elif k == "glob":
            out += [(sub, 3, 0), (sub, 6, 0)]
        elif k in ("raise", "badret"):
            # ends the callback body (or the handler); the handler's operations run only when the
            # callback was created with onerror=, and still inside the callback's save/restore bracket
            if onerr:
                flatten(op[1], out, st, sub, False)
            break
        elif k in ("call", "tcall"):
            out.append((sub, 3, 0))
            who = sub
            if k == "tcall":
                who = st["nsub"]
                st["nsub"] += 1
            for c in op[1]:
                if c[0] == "cset":
                    out.append((who, 4, c[1]))
                elif c[0] == "cread":
                    out.append((who, 5, 0))
                elif c[0] == "cbu":
                    out += [(who, 7, 0), (who, 8, 0)]
                elif c[0] in ("cb", "cbe"):
                    out.append((who, 7, 0))
                    flatten(c[1], out, st, who, c[0] == "cbe")
                    out.append((who, 8, 0))
                else:
                    raise ValueError(c[0])
            if k == "tcall":
                out.append((sub, 4, op[2]))
            out.append((sub, 6, 0))
        else:
            raise ValueError(k)
    return out


def count_syncs(ops):
    return flatten(ops).count(None)


def nsubs(prog):
    st = dict(nsub=1)
    flatten(prog, [], st)
    return st["nsub"]


def model_tids(case):
    """(strand, logical thread) -> model thread id: strands first, then the pthreads in (strand, creation) order"""
    n = len(case["progs"])
    tid, nxt = {}, n
    for t, p in enumerate(case["progs"]):
        tid[(t, 0)] = t
        for j in range(1, nsubs(p)):
            tid[(t, j)] = nxt
            nxt += 1
    return tid, nxt


def model_schedule(case):
    tid, _ = model_tids(case)
    segs = []
    for t, p in enumerate(case["progs"]):
        cur, mine = [], []
        for x in flatten(p):
            if x is None:
                mine.append(cur)
                cur = []
            else:
                cur.append(x)
        mine.append(cur)
        segs.append(mine)
    pos = [0] * len(segs)
    out = []
    for t in case["sched"]:
        out += [(tid[(t, j)], c, v) for (j, c, v) in segs[t][pos[t]]]
        pos[t] += 1
    return out


def spec_obs(ops):
    """the one-cell specification (property text): observations of the strand's logical threads"""
    flat = [x for x in flatten(ops) if x is not None]
    res = []
    for j in range(nsubs(ops)):
        z, obs = 0, []
        for (jj, c, v) in flat:
            if jj != j:
                continue
            if c == 0:
                if INT_MIN <= v <= INT_MAX:
                    z = v
                else:
                    obs.append(OVERFLOW)
            elif c in (1, 5):
                obs.append(z)
            elif c == 4:
                z = v
        res.append(obs)
    return res


OP_TEXT = {0: "Python: ffi.errno = %d", 1: "Python reads ffi.errno", 2: "interpreter noise (failing os.stat)",
           3: "C function called through cffi", 4: "C: errno = %d", 5: "C reads errno", 6: "C function returns",
           7: "C invokes the callback", 8: "callback returns to C"}


def obs_context(ops, j, k):
    """the operations of logical thread j that lead to its observation #k (for messages)"""
    hist, n = [], 0
    for x in flatten(ops):
        if x is None or x[0] != j:
            continue
        _j, c, v = x
        hist.append(OP_TEXT[c] % v if "%" in OP_TEXT[c] else OP_TEXT[c])
        if c in (1, 5) or (c == 0 and not INT_MIN <= v <= INT_MAX):
            if n == k:
                return " -> ".join(hist[-5:])
            n += 1
    return "?"


def scenario(mode, kind, x, w):
    """C sets errno = x, invokes a callback of the given kind, reads errno; Python reads ffi.errno afterwards"""
    if kind == "cbu":
        cb = [["cbu"]]
    elif kind == "raise":
        cb = [["cb", [["get"], ["set", w], ["sync"], ["raise", [["set", w + 1]]]]]]
    elif kind == "raise0":
        cb = [["cb", [["clobber"], ["raise", []]]]]
    elif kind == "onerror":
        cb = [["cbe", [["get"], ["set", w], ["raise", [["get"], ["sync"], ["clobber"], ["set", w + 1]]]]]]
    elif kind == "onerror-keep":
        cb = [["cbe", [["raise", [["clobber"], ["get"]]]]]]
    elif kind == "badret":
        cb = [["cbe", [["set", w], ["badret", [["get"], ["set", w + 2], ["raise", []]]]]]]
    elif kind == "nested":
        cb = [["cb", [["get"], ["call", [["cread"], ["cset", w], ["cbe", [["get"], ["set", w + 1], ["sync"],
                                                                          ["raise", [["set", w + 2]]]]],
                                         ["cread"]] + ([["cbu"], ["cread"]] if mode == "api" else [])],
                      ["get"]]]]
    else:
        raise ValueError(kind)
    return [["call", [["cset", x]] + cb + [["cread"]]], ["get"]]


def interleave2(a, b):
    out = []
    while a or b:
        if a:
            out.append(0)
            a -= 1
        if b:
            out.append(1)
            b -= 1
    return out


def directed(mode):
    cs = []
    # the schedule that separates a per-thread from a process-wide saved cell
    cs.append(dict(mode=mode, progs=[[["set", 5], ["sync"], ["call", [["cread"]]], ["get"]],
                                     [["set", 7], ["sync"], ["get"]]], sched=[0, 1, 0, 1]))
    # a thread parked in the middle of a C call (inside a callback) while another one uses errno
    cs.append(dict(mode=mode, progs=[[["call", [["cset", 11], ["cb", [["get"], ["sync"], ["set", 12], ["sync"]]],
                                                ["cread"]]], ["get"]],
                                     [["set", 3], ["sync"], ["call", [["cread"], ["cset", 4]]], ["sync"], ["get"]]],
                   sched=[0, 1, 0, 1, 0, 1]))
    cs.append(dict(mode=mode, progs=[[["get"], ["set", INT_MAX], ["clobber"], ["call", [["cread"], ["cset", INT_MIN]]],
                                      ["clobber"], ["get"], ["get"], ["set", 2 ** 31], ["get"]]], sched=[0]))
    cs.append(dict(mode=mode, progs=[[["call", [["cset", 9], ["cb", [["call", [["cread"], ["cset", 17],
                                                                               ["cb", [["get"], ["set", 28]]],
                                                                               ["cread"]]], ["get"]]],
                                                ["cread"]]], ["get"]]], sched=[0]))
    # errno value 0 in every direction, with a non-zero errno left behind by the interpreter / by C before
    cs.append(dict(mode=mode, progs=[[["set", 7], ["clobber"], ["set", 0], ["clobber"], ["call", [["cread"]]], ["get"]]],
                   sched=[0]))
    cs.append(dict(mode=mode, progs=[[["set", 7], ["call", [["cread"], ["cset", 0]]], ["clobber"], ["get"], ["get"]]],
                   sched=[0]))
    cs.append(dict(mode=mode, progs=[[["set", 9], ["call", [["cset", 5], ["cb", [["get"], ["set", 0], ["clobber"]]],
                                                            ["cread"], ["cset", 0], ["cb", [["clobber"], ["get"]]],
                                                            ["cread"]]], ["get"]]], sched=[0]))
    cs.append(dict(mode=mode, progs=[[["set", 0], ["sync"], ["clobber"], ["call", [["cread"]]], ["get"]],
                                     [["set", 13], ["sync"], ["call", [["cread"], ["cset", 0]]], ["get"]]],
                   sched=[0, 1, 1, 0]))
    if mode == "api":
        cs.append(dict(mode=mode, progs=[[["set", 0], ["clobber"], ["glob"], ["get"], ["set", 4], ["glob"], ["get"]]],
                       sched=[0]))
    # every way a callback can end, in every thread: "C sets errno = x, invokes the callback, reads errno;
    # Python reads ffi.errno" — un-attached extern "Python" (API), exception with and without onerror,
    # unconvertible result, nested callbacks; single-threaded, then in all threads of 2-4 thread interleavings
    kinds = (["cbu"] if mode == "api" else []) + ["raise", "raise0", "onerror", "onerror-keep", "badret", "nested"]
    for kd in kinds:
        p0 = [["set", 5]] + scenario(mode, kd, 11, 20)
        cs.append(dict(mode=mode, progs=[p0], sched=[0] * (count_syncs(p0) + 1)))
        p0 = [["set", 5], ["sync"]] + scenario(mode, kd, 11, 20)
        p1 = [["set", 7], ["sync"]] + scenario(mode, kd, 13, 30) + [["sync"], ["get"]]
        cs.append(dict(mode=mode, progs=[p0, p1], sched=interleave2(count_syncs(p0) + 1, count_syncs(p1) + 1)))
    one = []
    for i, kd in enumerate(kinds):
        one += [["set", 70 + i]] + scenario(mode, kd, 100 + 10 * i, 200 + 10 * i)
    cs.append(dict(mode=mode, progs=[one], sched=[0] * (count_syncs(one) + 1)))
    for n in (2, 3, 4):
        progs = []
        for t in range(n):
            p = []
            for i, kd in enumerate(kinds[t % 2:] + kinds[:t % 2]):
                p += [["set", 1000 * (t + 1) + i], ["sync"]] + scenario(mode, kd, 1000 * (t + 1) + 100 + 10 * i,
                                                                        1000 * (t + 1) + 200 + 10 * i) + [["sync"]]
            progs.append(p)
        turns = [count_syncs(p) + 1 for p in progs]
        sched = []
        while any(turns):
            for t in range(n):
                if turns[t]:
                    sched.append(t)
                    turns[t] -= 1
        cs.append(dict(mode=mode, progs=progs, sched=sched))
    # callbacks invoked from threads that never held the GIL, while another thread uses errno
    inner = [["cread"], ["cset", 21]] + ([["cbu"], ["cread"]] if mode == "api" else []) + [
        ["cb", [["get"], ["sync"], ["set", 22], ["clobber"]]], ["cread"], ["cset", 23],
        ["cbe", [["get"], ["raise", [["get"], ["set", 24], ["sync"]]]]], ["cread"],
        ["cb", [["tcall", [["cread"], ["cset", 31], ["cb", [["get"], ["set", 32]]], ["cread"]], 41], ["get"]]], ["cread"]]
    cs.append(dict(mode=mode, progs=[[["set", 5], ["tcall", inner, 33], ["get"], ["call", [["cread"]]]],
                                     [["set", 7], ["sync"], ["call", [["cread"], ["cset", 8]]], ["sync"], ["get"], ["sync"],
                                      ["tcall", [["cread"], ["cb", [["get"], ["set", 9]]], ["cread"]], 10], ["get"]]],
                   sched=[0, 1, 0, 1, 0, 1, 1]))
    return cs


def generate(ctx):
    rng = ctx.rng
    cases = []
    for mode in ("abi", "api"):
        cases += directed(mode)
        for _ in range(ctx.n(120, 1000) * (3 if getattr(ctx, "_c22_fallback", False) else 1)):
            n = rng.choice([1, 2, 2, 3, 3, 4])
            progs = [gen_py(rng, 0, mode, [rng.choice([4, 8, 12])]) for _ in range(n)]
            turns = []
            for t, p in enumerate(progs):
                turns += [t] * (count_syncs(p) + 1)
            # a random interleaving that keeps each thread's turns in order
            rng.shuffle(turns)
            cases.append(dict(mode=mode, progs=progs, sched=turns))
    return cases


# ------------------------------------------------------------------ evaluation

def enc_step(t, c, v):
    assert -2 ** 71 <= v < 2 ** 71 and 0 <= c < 16
    return ((t * 16 + c) << 72) + (v + 2 ** 71)


def fpz(m, b, l):
    acc = 7
    for z in l:
        acc = (acc * b + (z + 2 ** 71) + 1) % m
    return acc


def run_workers(ctx, cases, timeout):
    s = ctx.scratch()
    if not getattr(ctx, "_c22_built", False):
        r, p = s.run_worker("c22_worker.py", dict(cases=[], build=["abi", "api"]), timeout=600)
        if r is None:
            raise RuntimeError("c22 helper build failed: " + (p.stderr[-2000:] or p.stdout[-500:]))
        ctx._c22_built = True
    chunks = [c for c in (cases[i::6] for i in range(6)) if c]
    out = {}

    def one(chunk):
        r, p = s.run_worker("c22_worker.py", dict(cases=chunk, timeout=timeout), timeout=3600)
        return chunk, r, p
    with concurrent.futures.ThreadPoolExecutor(max_workers=len(chunks) or 1) as ex:
        for chunk, r, p in ex.map(one, chunks):
            if r is None:
                raise RuntimeError("c22 worker failed: " + (p.stderr[-2000:] or p.stdout[-500:]))
            for c, x in zip(chunk, r["results"]):
                out[id(c)] = x
    return [out[id(c)] for c in cases]


def features(progs):
    f = set()

    def walk(ops, in_cb, onerr):
        for op in ops:
            k = op[0]
            if k in ("raise", "badret"):
                f.add(k + ("+onerror" if onerr else ""))
                if onerr:
                    walk(op[1], in_cb, False)
                break
            if k == "tcall":
                f.add("foreign-thread")
            if k in ("call", "tcall"):
                for c in op[1]:
                    if c[0] == "cbu":
                        f.add("unattached")
                    elif c[0] in ("cb", "cbe"):
                        f.add("nested-callback" if in_cb else "callback")
                        if k == "tcall":
                            f.add("callback-in-foreign-thread")
                        walk(c[1], True, c[0] == "cbe")
    for p in progs:
        walk(p, False, False)
    return f


def describe(t, j):
    return "thread %d" % t if j == 0 else "pthread #%d started by thread %d" % (j, t)


def evaluate(ctx, cases):
    cases = [dict(mode=c["mode"], progs=c["progs"], sched=c["sched"]) for c in cases]
    results = run_workers(ctx, cases, 30)
    for i, (c, r) in enumerate(zip(cases, results)):
        if "timeout" in (r["inter"]["status"], r["alone"]["status"]):
            results[i] = run_workers(ctx, [c], 60)[0]      # retried once in a fresh process
    coqcases, owner = [], []
    for c, r in zip(cases, results):
        ctx.count()
        n = len(c["progs"])
        ctx.hist("threads", n)
        ctx.hist("mode", c["mode"])
        feats = features(c["progs"])
        for ft in feats:
            ctx.hist("callback paths", ft)
        bad = []
        for tag in ("inter", "alone"):
            if r[tag]["status"] != "ok":
                bad.append("%s run: %s" % (tag, r[tag]["status"]))
        if bad:
            ctx.mismatch(dict(c, observed=r), "harness could not complete the case: " + "; ".join(bad),
                         "C22 harness")
            continue
        inter, alone = r["inter"]["obs"], r["alone"]["obs"]
        for t in range(n):
            want = spec_obs(c["progs"][t])
            if inter[t] and inter[t][0] == "error":
                bad.append("thread %d failed: %r" % (t, inter[t]))
            elif inter[t] != want:
                if len(inter[t]) != len(want):
                    bad.append("thread %d started %d pthreads, expected %d" % (t, len(inter[t]) - 1, len(want) - 1))
                for j in range(min(len(want), len(inter[t]))):
                    if inter[t][j] != want[j]:
                        k = next((i for i in range(min(len(want[j]), len(inter[t][j]))) if want[j][i] != inter[t][j][i]),
                                 None)
                        bad.append("%s observed errno %r where its own logical errno is %r (observation #%r, after: %s; "
                                   "all: %r, expected %r)" % (
                                       describe(t, j), inter[t][j][k] if k is not None else None,
                                       want[j][k] if k is not None else None, k,
                                       obs_context(c["progs"][t], j, k) if k is not None else "?", inter[t][j], want[j]))
            if alone[t] != inter[t]:
                bad.append("thread %d observes %r when interleaved with the others but %r when run alone"
                           % (t, inter[t], alone[t]))
        if bad:
            ctx.violation(dict(c, observed=r), "errno (%s mode, %d threads%s): %s" % (
                c["mode"], n, "; " + ", ".join(sorted(feats)) if feats else "", "; ".join(bad[:2])))
            continue
        nobs = sum(len(y) for x in inter for y in x)
        ctx.hist("observations", min(nobs, 20))
        if nobs >= 2 and (n >= 2 or any(op[0] in ("call", "tcall") for op in c["progs"][0])):
            ctx.nontrivial((c["mode"], c["progs"], c["sched"]))
        flat = []
        for t in range(n):
            flat += [len(inter[t][0])] + inter[t][0]
        for t in range(n):
            for sub in inter[t][1:]:
                flat += [len(sub)] + sub
        steps = model_schedule(c)
        _tid, total = model_tids(c)
        coqcases.append(("(%s, %s, [%s]%%Z)" % (vlib.cnat(n), vlib.cnat(total - n), ";".join("%d" % enc_step(*s) for s in steps)),
                         "(Some (%d, %d)%%Z)" % (fpz(2305843009213693951, 1000003, flat), fpz(2147483647, 48271, flat))))
        owner.append((c, r))
    badidx, outs, err = vlib.coq_mismatches(
        ["C22.Model"], "fun x => run_code2 (fst (fst x)) (snd (fst x)) (snd x)", "opt_eqb (pair_eqb Z.eqb Z.eqb)",
        coqcases, shard=120)
    if err:
        ctx.obligation_broken("C22 model evaluation", err)
    for k, i in enumerate(badidx):
        c, r = owner[i]
        model = ""
        if k < 3:
            steps = model_schedule(c)
            _tid, total = model_tids(c)
            ok, out = vlib.coq_eval(["C22.Model"], "Eval vm_compute in (run_sched false %d %s).\n" % (
                total, vlib.clist(["(%d%%nat, (%s, %s))" % (t, vlib.cz(cc), vlib.cz(v)) for t, cc, v in steps])))
            model = " ".join(out.split())[:1200]
        ctx.mismatch(dict(c, observed=r), "model run_sched false: %s ; implementation: %r" % (model, r["inter"]["obs"]),
                     "C22.Model (step1/crun) vs misc_thread_common.h + _cffi_backend.c errno paths")
    ctx.extra["traces_validated_against_impl"] = len(owner) - len(badidx)
    for c, r in owner[:3]:
        ctx.sample(dict(c, observations=r["inter"]["obs"]))


def run(ctx):
    ctx.cov["rule"] = ("generated thread programs (1-4 threads; ffi.errno get/set incl. out-of-range values, interpreter "
                       "noise, C helper calls that read/assign errno and call back, callbacks that read/assign ffi.errno "
                       "and call C again, nesting <= 3; callbacks that raise or return an unconvertible value, with and "
                       "without onerror= (the handler reads/assigns ffi.errno too); C scripts run in a fresh pthread that "
                       "never held the GIL and calls back; API mode adds a global-variable fetch and an extern \"Python\" "
                       "function with no @ffi.def_extern() attached) with hand-over points between and inside C calls, "
                       "callbacks and onerror handlers, run under a random interleaving and again serially, in ABI mode "
                       "(ffi.dlopen + ffi.callback) and API mode (compiled module + extern \"Python\"); plus directed cases: "
                       "every way a callback can end x 'C sets errno, invokes it, reads errno; Python reads ffi.errno' in "
                       "every thread of 1-4 thread interleavings. Non-trivial = at least 2 observations and (>= 2 threads "
                       "or a C call); distinct by (mode, programs, schedule).")
    ctx.assumptions += [
        "hypothesis of the theorems: __thread storage (cffi_saved_errno) and the C library's errno are per thread "
        "(the model with a process-wide saved cell is refuted: C22_shared_saved_refuted)",
        "C22/Gen.v regenerated from the sources on every run (fail closed): bodies of save/restore_errno_only, "
        "b_get_errno, b_set_errno; statement order around ffi_call in b_call, in the generated API wrappers, in "
        "fetch_global_var_addr; the whole bodies of cffi_call_python and invoke_callback as control-flow trees "
        "(conditions uninterpreted: all syntactic paths); general_invoke_callback has no errno code of its own and no "
        "other caller. Classification of callees (gil_ensure, fprintf, memset, ... = may change errno; read_barrier, "
        "_current_interp_key = do not) is the translator's table",
        "the abstract operations of C22/Model.v and the C helper's reading of errno are tied to the code by this run's "
        "differential test",
        "interpreter noise on errno is what CPython happens to do between operations plus failing os.stat calls"]
    evaluate(ctx, generate(ctx))


MANIFEST = dict(
    technique="Coq proof (thread-locality for all schedules and thread counts at operation and at statement granularity; "
              "refinement of a one-cell specification; all syntactic paths of the callback brackets) + regenerated "
              "statement orders / control flow + differential correspondence on real threads in ABI and API mode",
    text="Proof: for every schedule over any number of threads every thread observes exactly one logical errno of its own "
         "(values assigned to ffi.errno reach the C code, values left by C code or assigned in callbacks reach ffi.errno, "
         "interpreter noise and other threads are invisible, out-of-range assignments are refused) - proved for the "
         "abstract operations and again at statement level, where each operation is expanded into the statements "
         "REGENERATED from the source of the path it takes (b_get_errno/b_set_errno; b_call, generated API wrapper, "
         "global-variable accessor; every syntactic path of cffi_call_python and invoke_callback) and threads interleave "
         "between any two statements. For the callback brackets: on every path save_errno() comes first and restore_errno() "
         "last with the Python code, error reporting, GIL operations in between, so the C errno after the callback is the "
         "logical errno at the end of the Python code, or the C errno before the call on paths that run no Python code "
         "(un-attached extern \"Python\"). Threads created by C code are covered. Partial: thread-locality of __thread "
         "storage and of the C errno is the hypothesis (its negation is refuted in the model and caught on the real code "
         "by the interleaved runs); `if` conditions are uninterpreted (all syntactic paths, a superset).",
    note="Trusted: Coq kernel; the fail-closed C statement translator in tools/props/c22.py and its callee table; the "
         "differential runs (ABI: b_call/invoke_callback; API: generated wrappers, cffi_call_python incl. the un-attached "
         "path, global accessor; callbacks raising / with onerror / from pthreads that never held the GIL / nested); gcc; "
         "glibc TLS. Theorems closed under the global context.",
    design_ref="DESIGN.md §4 C22")
