"""C22 — errno is passed to and from C calls and is thread-local.

Model coq/C22/Model.v: per thread two cells (C errno, cffi's saved copy), operations ffi.errno
get/set, C call enter/exit (restore/save), callback enter/exit (save/restore), C code reading and
assigning errno, interpreter noise.  Theorems: for every schedule over any number of threads each
thread observes ONE logical errno of its own (Spec.v) — non-interference + refinement; the same
code with a process-wide saved cell is refuted.
Tie: correspondence.  2-4 real threads run generated programs (ffi.errno, C helper called through
ffi.dlopen and through a compiled API-mode module, callbacks / extern "Python" that themselves
read/assign ffi.errno and call C again) under model-chosen interleavings with hand-over points also
in the middle of C calls; per-thread observations are compared with the Coq model (run inside Coq)
and the property is decided on the implementation against the one-cell specification and against
the same programs run without interleaving.
"""
import ast
import concurrent.futures
import os
import re

from lib import vlib, py2coq

ID = "C22"
OVERFLOW = -999999
INT_MIN, INT_MAX = -2 ** 31, 2 ** 31 - 1
SET_VALUES = [0, 1, 2, 11, 13, 22, 34, 95, 255, 1000, 65535, 12345678, -1, -2, -4095, INT_MAX, INT_MIN,
              INT_MAX - 1, INT_MIN + 1]
OVER_VALUES = [INT_MAX + 1, INT_MIN - 1, 2 ** 32, 2 ** 63, -2 ** 63, 2 ** 64 + 5, -2 ** 40]
C_VALUES = [0, 1, 2, 4, 9, 11, 17, 28, 32, 110, 4095, -1, -7, INT_MAX, INT_MIN, 424242]


# ------------------------------------------------------------------ regeneration of the bracketing facts (tie A)

U = py2coq.Untranslatable


def _src(rel):
    with open(os.path.join(vlib.REPO, "src", rel)) as f:
        return f.read()


def _nocomment(text):
    text = re.sub(r"/\*.*?\*/", " ", text, flags=re.S)
    return re.sub(r"//[^\n]*", " ", text)


def _one(pattern, text, what, flags=re.S):
    ms = list(re.finditer(pattern, text, flags))
    if len(ms) != 1:
        raise U("%s: expected exactly one match, found %d" % (what, len(ms)))
    return ms[0]


def _body(text, header_re, what):
    """text of the brace-balanced body that follows the unique match of header_re"""
    m = _one(header_re, text, what)
    i = text.index("{", m.end() - 1)
    depth, j = 0, i
    while True:
        if text[j] == "{":
            depth += 1
        elif text[j] == "}":
            depth -= 1
            if depth == 0:
                return text[i + 1:j]
        j += 1
        if j >= len(text):
            raise U(what + ": unbalanced braces")


def _stmts(region):
    return [" ".join(x.split()) for x in re.split(r"[;{}]", region) if x.strip()]


def _bracket(region, foreign_re, what, ignore=()):
    out = []
    for st in _stmts(region):
        if st == "restore_errno()":
            out.append("BRestore")
        elif st == "save_errno()":
            out.append("BSave")
        elif re.search(foreign_re, st):
            out.append("BForeign")
        elif any(re.fullmatch(ig, st) for ig in ignore):
            continue
        else:
            raise U("%s: unexpected statement %r" % (what, st))
    return out


def _allow_threads_region(text, anchor_re, what):
    m = _one(anchor_re, text, what)
    a = text.rfind("Py_BEGIN_ALLOW_THREADS", 0, m.start())
    b = text.find("Py_END_ALLOW_THREADS", m.end())
    if a < 0 or b < 0 or "Py_END_ALLOW_THREADS" in text[a:m.start()]:
        raise U(what + ": not inside a Py_BEGIN/END_ALLOW_THREADS region")
    return text[a + len("Py_BEGIN_ALLOW_THREADS"):b]


def extract_facts():
    f = {}
    common = _nocomment(_src("c/misc_thread_common.h"))
    m = _one(r"static\s+(__thread\s+)?int\s+cffi_saved_errno\s*=\s*0\s*;", common, "declaration of cffi_saved_errno")
    f["gen_saved_thread_local"] = bool(m.group(1))
    # the USE__THREAD variants are the ones defined before "#else"; their whole body must be the plain copy
    use_thread = common[m.end():common.index("#else", m.end())]
    b1 = " ".join(_body(use_thread, r"static\s+void\s+save_errno_only\s*\(\s*void\s*\)\s*\{", "save_errno_only").split())
    f["gen_save_errno_only_copies_errno_to_saved"] = (b1 == "cffi_saved_errno = errno;")
    b2 = " ".join(_body(use_thread, r"static\s+void\s+restore_errno_only\s*\(\s*void\s*\)\s*\{",
                        "restore_errno_only").split())
    f["gen_restore_errno_only_copies_saved_to_errno"] = (b2 == "errno = cffi_saved_errno;")
    posix = _nocomment(_src("c/misc_thread_posix.h"))
    _one(r"#\s*define\s+save_errno\s+save_errno_only\s*$", posix, "#define save_errno", re.M)
    _one(r"#\s*define\s+restore_errno\s+restore_errno_only\s*$", posix, "#define restore_errno", re.M)
    f["gen_posix_aliases"] = True
    back = _nocomment(_src("c/_cffi_backend.c"))
    f["gen_b_call"] = _bracket(_allow_threads_region(back, r"\bffi_call\s*\(", "ffi_call in b_call"),
                               r"^ffi_call\s*\(", "b_call")
    body = _body(back, r"static\s+void\s+invoke_callback\s*\([^)]*\)\s*\{", "invoke_callback")
    f["gen_invoke_callback"] = _bracket(body, r"^general_invoke_callback\s*\(", "invoke_callback",
                                        ignore=(r"PyGILState_STATE state = gil_ensure\(\)", r"gil_release\(state\)"))
    body = _body(back, r"static\s+PyObject\s*\*\s*b_get_errno\s*\([^)]*\)\s*\{", "b_get_errno")
    seq = []
    for st in _stmts(body):
        if st == "int err":
            continue
        elif st == "restore_errno_only()":
            seq.append("ERestoreOnly")
        elif st == "err = errno":
            seq.append("EReadErrno")
        elif st == "errno = 0":
            seq.append("EZeroErrno")
        elif st == "return PyLong_FromLong(err)":
            continue
        else:
            raise U("b_get_errno: unexpected statement %r" % st)
    f["gen_get_errno"] = seq
    body = _body(back, r"static\s+PyObject\s*\*\s*b_set_errno\s*\([^)]*\)\s*\{", "b_set_errno")
    m = _one(r"else\s+if\s*\(\s*ival\s*<\s*INT_MIN\s*\|\|\s*ival\s*>\s*INT_MAX\s*\)\s*\{[^{}]*return\s+NULL\s*;\s*\}", body,
             "range check of b_set_errno")
    head = " ".join(body[:m.start()].split())
    if head != "long ival = PyLong_AsLong(arg); if (ival == -1 && PyErr_Occurred()) return NULL;":
        raise U("b_set_errno: unexpected prologue %r" % head)
    seq = []
    for st in _stmts(body[m.end():]):
        if st == "errno = (int)ival":
            seq.append("EAssignErrno")
        elif st == "save_errno_only()":
            seq.append("ESaveOnly")
        elif st == "errno = 0":
            seq.append("EZeroErrno")
        elif st in ("Py_INCREF(Py_None)", "return Py_None"):
            continue
        else:
            raise U("b_set_errno: unexpected statement %r" % st)
    f["gen_set_errno"] = seq
    f["gen_set_errno_range"] = (-2 ** 31, 2 ** 31 - 1)          # INT_MIN, INT_MAX of the x86-64 SysV ABI
    # exports used by API-mode modules
    m = _one(r"static\s+void\s*\*\s*cffi_exports\s*\[\s*\]\s*=\s*\{(.*?)\}\s*;", back, "cffi_exports[]")
    entries = [x.strip() for x in m.group(1).split(",") if x.strip()]
    inc = _nocomment(_src("cffi/_cffi_include.h")).replace("\\\n", " ")
    m1 = _one(r"#\s*define\s+_cffi_restore_errno\s+\(\(void\(\*\)\(void\)\)_cffi_exports\[(\d+)\]\)", inc,
              "_cffi_restore_errno")
    m2 = _one(r"#\s*define\s+_cffi_save_errno\s+\(\(void\(\*\)\(void\)\)_cffi_exports\[(\d+)\]\)", inc,
              "_cffi_save_errno")
    f["gen_api_export_slots_ok"] = (entries[int(m1.group(1))] == "restore_errno"
                                    and entries[int(m2.group(1))] == "save_errno")
    # call_python.c
    cp = _nocomment(_src("c/call_python.c"))
    body = _body(cp, r"static\s+void\s+cffi_call_python\s*\([^)]*\)\s*\{", "cffi_call_python")
    toks = [(mm.start(), mm.group(0)) for mm in re.finditer(r"\bsave_errno\s*\(\s*\)|\brestore_errno\s*\(\s*\)|"
                                                             r"\bgeneral_invoke_callback\s*\(|\breturn\b", body)]
    seq = []
    for _pos, tk in toks:
        if tk.startswith("save_errno"):
            seq.append("BSave")
        elif tk.startswith("restore_errno"):
            seq.append("BRestore")
        elif tk.startswith("general_invoke_callback"):
            seq.append("BForeign")
        else:
            raise U("cffi_call_python: a return statement could skip restore_errno()")
    f["gen_call_python"] = seq
    # cglob.c
    cg = _nocomment(_src("c/cglob.c"))
    f["gen_glob_fetch"] = _bracket(_allow_threads_region(cg, r"gs->gs_fetch_addr\s*\(\s*\)", "fetch_global_var_addr"),
                                   r"gs->gs_fetch_addr\s*\(\s*\)", "fetch_global_var_addr")
    # recompiler.py: what the generated wrapper contains between Py_BEGIN/END_ALLOW_THREADS
    tree = py2coq.parse_source(os.path.join(vlib.REPO, "src", "cffi", "recompiler.py"))
    fn = py2coq.find_function(tree, "_generate_cpy_function_decl", cls="Recompiler")
    emitted = []
    for node in ast.walk(fn):
        if isinstance(node, ast.Expr) and isinstance(node.value, ast.Call) and isinstance(node.value.func, ast.Name) \
                and node.value.func.id == "prnt" and node.value.args:
            a = node.value.args[0]
            if isinstance(a, ast.BinOp) and isinstance(a.op, ast.Mod):
                a = a.left
            if isinstance(a, ast.Constant) and isinstance(a.value, str):
                emitted.append((node.lineno, a.value.strip()))
    emitted.sort()
    texts = [t for _l, t in emitted]
    if texts.count("Py_BEGIN_ALLOW_THREADS") != 1 or texts.count("Py_END_ALLOW_THREADS") != 1:
        raise U("recompiler: ALLOW_THREADS region not found exactly once")
    region = texts[texts.index("Py_BEGIN_ALLOW_THREADS") + 1:texts.index("Py_END_ALLOW_THREADS")]
    seq = []
    for t in region:
        if t == "_cffi_restore_errno();":
            seq.append("BRestore")
        elif t == "_cffi_save_errno();":
            seq.append("BSave")
        elif t == "{ %s%s(%s); }":
            seq.append("BForeign")
        else:
            raise U("recompiler: unexpected line in the wrapper's call region: %r" % t)
    f["gen_api_wrapper"] = seq
    return f


SNAPSHOT_FACTS = dict(
    gen_saved_thread_local=True, gen_save_errno_only_copies_errno_to_saved=True,
    gen_restore_errno_only_copies_saved_to_errno=True, gen_posix_aliases=True,
    gen_b_call=["BRestore", "BForeign", "BSave"], gen_api_wrapper=["BRestore", "BForeign", "BSave"],
    gen_api_export_slots_ok=True, gen_glob_fetch=["BRestore", "BForeign", "BSave"],
    gen_invoke_callback=["BSave", "BForeign", "BRestore"], gen_call_python=["BSave", "BForeign", "BRestore"],
    gen_get_errno=["ERestoreOnly", "EReadErrno", "EZeroErrno"], gen_set_errno=["EAssignErrno", "ESaveOnly", "EZeroErrno"],
    gen_set_errno_range=(-2 ** 31, 2 ** 31 - 1))
ORDER = ["gen_saved_thread_local", "gen_save_errno_only_copies_errno_to_saved",
         "gen_restore_errno_only_copies_saved_to_errno", "gen_posix_aliases", "gen_b_call", "gen_api_wrapper",
         "gen_api_export_slots_ok", "gen_glob_fetch", "gen_invoke_callback", "gen_call_python", "gen_get_errno",
         "gen_set_errno", "gen_set_errno_range"]
WHERE = dict(gen_saved_thread_local="misc_thread_common.h: storage class of cffi_saved_errno",
             gen_b_call="_cffi_backend.c: statements around ffi_call() in b_call",
             gen_api_wrapper="recompiler.py _generate_cpy_function_decl: lines emitted between Py_BEGIN/END_ALLOW_THREADS",
             gen_api_export_slots_ok="_cffi_include.h slots of _cffi_restore_errno/_cffi_save_errno vs cffi_exports[]",
             gen_glob_fetch="cglob.c fetch_global_var_addr", gen_invoke_callback="_cffi_backend.c invoke_callback",
             gen_call_python="call_python.c cffi_call_python (no return between save and restore)",
             gen_get_errno="_cffi_backend.c b_get_errno", gen_set_errno="_cffi_backend.c b_set_errno (after the range check)")


def gen_text(f, origin):
    out = ["(* C22/Gen.v — %s.  Do not edit: rewritten by tools/props/c22.py regen() on every run. *)" % origin,
           "From Coq Require Import ZArith List Bool.", "Import ListNotations.", "From Cffi Require Import C22.Model.", ""]
    for k in ORDER:
        v = f[k]
        if k in WHERE:
            out.append("(* %s *)" % WHERE[k])
        if isinstance(v, bool):
            out.append("Definition %s : bool := %s." % (k, "true" if v else "false"))
        elif isinstance(v, tuple):
            out.append("Definition %s : Z * Z := (%d, %d)%%Z." % (k, v[0], v[1]))
        else:
            ty = "estep" if k in ("gen_get_errno", "gen_set_errno") else "bstep"
            out.append("Definition %s : list %s := [%s]." % (k, ty, "; ".join(v)))
    return "\n".join(out) + "\n"


def regen(ctx):
    try:
        facts, status, origin = extract_facts(), None, "regenerated from src/c/*.c, *.h and src/cffi/recompiler.py"
    except (U, OSError, SyntaxError, IndexError, ValueError) as e:
        facts, status = dict(SNAPSHOT_FACTS), "fallback: %s" % e
        origin = "SNAPSHOT (extraction from the current source failed)"
    st = py2coq.write_if_changed(os.path.join(vlib.COQ, "C22", "Gen.v"), gen_text(facts, origin))
    ctx.translator("C22/Gen.v", status or st)
    ctx.extra["gen_facts_equal_snapshot"] = (facts == SNAPSHOT_FACTS)


# ------------------------------------------------------------------ programs

def gen_py(rng, depth, mode, budget):
    ops = []
    for _ in range(rng.choice([1, 2, 2, 3, 3, 4, 5])):
        if budget[0] <= 0:
            break
        budget[0] -= 1
        r = rng.random()
        if r < 0.22:
            q = rng.random()
            v = rng.choice(OVER_VALUES) if q < 0.12 else 0 if q < 0.34 else (
                rng.choice(SET_VALUES) if q < 0.75 else rng.randrange(INT_MIN, INT_MAX + 1))
            ops.append(["set", v])
        elif r < 0.45:
            ops.append(["get"])
        elif r < 0.55:
            ops.append(["clobber"])
        elif r < 0.60 and mode == "api":
            ops.append(["glob"])
        elif depth < 3:
            cops = []
            for _ in range(rng.choice([1, 1, 2, 3, 4])):
                q = rng.random()
                if q < 0.35:
                    cops.append(["cread"])
                elif q < 0.65:
                    q2 = rng.random()
                    cops.append(["cset", 0 if q2 < 0.25 else rng.choice(C_VALUES) if q2 < 0.75
                                 else rng.randrange(INT_MIN, INT_MAX + 1)])
                elif depth < 2:
                    cops.append(["cb", gen_py(rng, depth + 1, mode, budget)])
                else:
                    cops.append(["cread"])
            ops.append(["call", cops])
        else:
            ops.append(["get"])
        if rng.random() < 0.5:
            ops.append(["sync"])
    return ops


def count_syncs(ops):
    n = 0
    for op in ops:
        if op[0] == "sync":
            n += 1
        elif op[0] == "call":
            for c in op[1]:
                if c[0] == "cb":
                    n += count_syncs(c[1])
    return n


def flatten(ops, out):
    """model operations (code, value) with None as the turn separator"""
    for op in ops:
        k = op[0]
        if k == "set":
            out.append((0, op[1]))
        elif k == "get":
            out.append((1, 0))
        elif k == "clobber":
            out.append((2, 2))
        elif k == "sync":
            out.append(None)
        elif k == "glob":
            out += [(3, 0), (6, 0)]
        elif k == "call":
            out.append((3, 0))
            for c in op[1]:
                if c[0] == "cset":
                    out.append((4, c[1]))
                elif c[0] == "cread":
                    out.append((5, 0))
                else:
                    out.append((7, 0))
                    flatten(c[1], out)
                    out.append((8, 0))
            out.append((6, 0))
    return out


def model_schedule(case):
    segs = []
    for t, p in enumerate(case["progs"]):
        flat = flatten(p, [])
        cur, mine = [], []
        for x in flat:
            if x is None:
                mine.append(cur)
                cur = []
            else:
                cur.append(x)
        mine.append(cur)
        segs.append(mine)
    pos = [0] * len(segs)
    out = []
    for t in case["sched"]:
        out += [(t, c, v) for (c, v) in segs[t][pos[t]]]
        pos[t] += 1
    return out


def spec_obs(ops):
    """the one-cell specification (property text): observations of one thread"""
    z, obs = 0, []
    for (c, v) in [x for x in flatten(ops, []) if x is not None]:
        if c == 0:
            if INT_MIN <= v <= INT_MAX:
                z = v
            else:
                obs.append(OVERFLOW)
        elif c in (1, 5):
            obs.append(z)
        elif c == 4:
            z = v
    return obs


def directed(mode):
    cs = []
    # the schedule that separates a per-thread from a process-wide saved cell
    cs.append(dict(mode=mode, progs=[[["set", 5], ["sync"], ["call", [["cread"]]], ["get"]],
                                     [["set", 7], ["sync"], ["get"]]], sched=[0, 1, 0, 1]))
    # a thread parked in the middle of a C call (inside a callback) while another one uses errno
    cs.append(dict(mode=mode, progs=[[["call", [["cset", 11], ["cb", [["get"], ["sync"], ["set", 12], ["sync"]]],
                                                ["cread"]]], ["get"]],
                                     [["set", 3], ["sync"], ["call", [["cread"], ["cset", 4]]], ["sync"], ["get"]]],
                   sched=[0, 1, 0, 1, 0, 1]))
    cs.append(dict(mode=mode, progs=[[["get"], ["set", INT_MAX], ["clobber"], ["call", [["cread"], ["cset", INT_MIN]]],
                                      ["clobber"], ["get"], ["get"], ["set", 2 ** 31], ["get"]]], sched=[0]))
    cs.append(dict(mode=mode, progs=[[["call", [["cset", 9], ["cb", [["call", [["cread"], ["cset", 17],
                                                                               ["cb", [["get"], ["set", 28]]],
                                                                               ["cread"]]], ["get"]]],
                                                ["cread"]]], ["get"]]], sched=[0]))
    # errno value 0 in every direction, with a non-zero errno left behind by the interpreter / by C before
    cs.append(dict(mode=mode, progs=[[["set", 7], ["clobber"], ["set", 0], ["clobber"], ["call", [["cread"]]], ["get"]]],
                   sched=[0]))
    cs.append(dict(mode=mode, progs=[[["set", 7], ["call", [["cread"], ["cset", 0]]], ["clobber"], ["get"], ["get"]]],
                   sched=[0]))
    cs.append(dict(mode=mode, progs=[[["set", 9], ["call", [["cset", 5], ["cb", [["get"], ["set", 0], ["clobber"]]],
                                                            ["cread"], ["cset", 0], ["cb", [["clobber"], ["get"]]],
                                                            ["cread"]]], ["get"]]], sched=[0]))
    cs.append(dict(mode=mode, progs=[[["set", 0], ["sync"], ["clobber"], ["call", [["cread"]]], ["get"]],
                                     [["set", 13], ["sync"], ["call", [["cread"], ["cset", 0]]], ["get"]]],
                   sched=[0, 1, 1, 0]))
    if mode == "api":
        cs.append(dict(mode=mode, progs=[[["set", 0], ["clobber"], ["glob"], ["get"], ["set", 4], ["glob"], ["get"]]],
                       sched=[0]))
    return cs


def generate(ctx):
    rng = ctx.rng
    cases = []
    for mode in ("abi", "api"):
        cases += directed(mode)
        for _ in range(ctx.n(120, 1400)):
            n = rng.choice([1, 2, 2, 3, 3, 4])
            progs = [gen_py(rng, 0, mode, [rng.choice([4, 8, 12])]) for _ in range(n)]
            turns = []
            for t, p in enumerate(progs):
                turns += [t] * (count_syncs(p) + 1)
            # a random interleaving that keeps each thread's turns in order
            rng.shuffle(turns)
            cases.append(dict(mode=mode, progs=progs, sched=turns))
    return cases


# ------------------------------------------------------------------ evaluation

def enc_step(t, c, v):
    assert -2 ** 71 <= v < 2 ** 71 and 0 <= c < 16
    return ((t * 16 + c) << 72) + (v + 2 ** 71)


def fpz(m, b, l):
    acc = 7
    for z in l:
        acc = (acc * b + (z + 2 ** 71) + 1) % m
    return acc


def run_workers(ctx, cases, timeout):
    s = ctx.scratch()
    if not getattr(ctx, "_c22_built", False):
        r, p = s.run_worker("c22_worker.py", dict(cases=[], build=["abi", "api"]), timeout=600)
        if r is None:
            raise RuntimeError("c22 helper build failed: " + (p.stderr[-2000:] or p.stdout[-500:]))
        ctx._c22_built = True
    chunks = [c for c in (cases[i::6] for i in range(6)) if c]
    out = {}

    def one(chunk):
        r, p = s.run_worker("c22_worker.py", dict(cases=chunk, timeout=timeout), timeout=3600)
        return chunk, r, p
    with concurrent.futures.ThreadPoolExecutor(max_workers=len(chunks) or 1) as ex:
        for chunk, r, p in ex.map(one, chunks):
            if r is None:
                raise RuntimeError("c22 worker failed: " + (p.stderr[-2000:] or p.stdout[-500:]))
            for c, x in zip(chunk, r["results"]):
                out[id(c)] = x
    return [out[id(c)] for c in cases]


def evaluate(ctx, cases):
    cases = [dict(mode=c["mode"], progs=c["progs"], sched=c["sched"]) for c in cases]
    results = run_workers(ctx, cases, 30)
    for i, (c, r) in enumerate(zip(cases, results)):
        if "timeout" in (r["inter"]["status"], r["alone"]["status"]):
            results[i] = run_workers(ctx, [c], 60)[0]      # retried once in a fresh process
    coqcases, owner = [], []
    for c, r in zip(cases, results):
        ctx.count()
        n = len(c["progs"])
        ctx.hist("threads", n)
        ctx.hist("mode", c["mode"])
        bad = []
        for tag in ("inter", "alone"):
            if r[tag]["status"] != "ok":
                bad.append("%s run: %s" % (tag, r[tag]["status"]))
        if bad:
            ctx.mismatch(dict(c, observed=r), "harness could not complete the case: " + "; ".join(bad),
                         "C22 harness")
            continue
        inter, alone = r["inter"]["obs"], r["alone"]["obs"]
        for t in range(n):
            want = spec_obs(c["progs"][t])
            if inter[t] and inter[t][0] == "error":
                bad.append("thread %d failed: %r" % (t, inter[t]))
            elif inter[t] != want:
                k = next((j for j in range(min(len(want), len(inter[t]))) if want[j] != inter[t][j]), None)
                bad.append("thread %d observed errno %r where its own logical errno is %r (observation #%r; all: %r, "
                           "expected %r)" % (t, inter[t][k] if k is not None else None,
                                             want[k] if k is not None else None, k, inter[t], want))
            if alone[t] != inter[t]:
                bad.append("thread %d observes %r when interleaved with the others but %r when run alone"
                           % (t, inter[t], alone[t]))
        if bad:
            ctx.violation(dict(c, observed=r), "errno (%s mode, %d threads): %s" % (c["mode"], n, "; ".join(bad[:2])))
            continue
        nobs = sum(len(x) for x in inter)
        ctx.hist("observations", min(nobs, 20))
        if nobs >= 2 and (n >= 2 or any(op[0] == "call" for op in c["progs"][0])):
            ctx.nontrivial((c["mode"], c["progs"], c["sched"]))
        flat = []
        for t in range(n):
            flat += [len(inter[t])] + inter[t]
        steps = model_schedule(c)
        coqcases.append((vlib.cpair(vlib.cnat(n), "[" + ";".join("%d" % enc_step(*s) for s in steps) + "]%Z"),
                         "(Some (%d, %d)%%Z)" % (fpz(2305843009213693951, 1000003, flat), fpz(2147483647, 48271, flat))))
        owner.append((c, r))
    badidx, outs, err = vlib.coq_mismatches(
        ["C22.Model"], "fun x => run_code (fst x) (snd x)", "opt_eqb (pair_eqb Z.eqb Z.eqb)", coqcases, shard=120)
    if err:
        ctx.obligation_broken("C22 model evaluation", err)
    for k, i in enumerate(badidx):
        c, r = owner[i]
        model = ""
        if k < 3:
            steps = model_schedule(c)
            ok, out = vlib.coq_eval(["C22.Model"], "Eval vm_compute in (run_sched false %d %s).\n" % (
                len(c["progs"]), vlib.clist(["(%d%%nat, (%s, %s))" % (t, vlib.cz(cc), vlib.cz(v)) for t, cc, v in steps])))
            model = " ".join(out.split())[:1200]
        ctx.mismatch(dict(c, observed=r), "model run_sched false: %s ; implementation: %r" % (model, r["inter"]["obs"]),
                     "C22.Model (step1/crun) vs misc_thread_common.h + _cffi_backend.c errno paths")
    ctx.extra["traces_validated_against_impl"] = len(owner) - len(badidx)
    for c, r in owner[:3]:
        ctx.sample(dict(c, observations=r["inter"]["obs"]))


def run(ctx):
    ctx.cov["rule"] = ("generated thread programs (1-4 threads; ffi.errno get/set incl. out-of-range values, interpreter "
                       "noise, C helper calls that read/assign errno and call back, callbacks that read/assign ffi.errno "
                       "and call C again, nesting <= 3; API mode adds a global-variable fetch) with hand-over points "
                       "between and inside C calls, run under a random interleaving and again serially, in ABI mode "
                       "(ffi.dlopen + ffi.callback) and API mode (compiled module + extern \"Python\"). Non-trivial = at "
                       "least 2 observations and (>= 2 threads or a C call); distinct by (mode, programs, schedule).")
    ctx.assumptions += [
        "hypothesis of the theorems: __thread storage (cffi_saved_errno) and the C library's errno are per thread "
        "(the model with a process-wide saved cell is refuted: C22_shared_saved_refuted)",
        "hand model C22/Model.v tied to the code by this run's differential test only",
        "interpreter noise on errno is what CPython happens to do between operations plus failing os.stat calls"]
    evaluate(ctx, generate(ctx))


MANIFEST = dict(
    technique="Coq proof (non-interference for all schedules and thread counts + refinement of a one-cell specification) "
              "+ differential correspondence on real threads in ABI and API mode",
    text="Proof: in the model of save_errno/restore_errno, b_get_errno/b_set_errno, C calls and callbacks, for every "
         "schedule over any number of threads every thread observes exactly one logical errno of its own: values assigned "
         "to ffi.errno reach the C code, values left by C code or assigned in callbacks reach ffi.errno, interpreter noise "
         "and other threads are invisible; out-of-range assignments are refused. The four call paths of the property "
         "(ABI call, API-mode wrapper, callbacks / extern \"Python\", global-variable fetch) share one restore/call/save "
         "bracket in the model; that each real path brackets its call this way is decided by the correspondence only. "
         "Partial: thread-locality of __thread "
         "storage and of the C errno is the hypothesis (its negation is refuted in the model and caught on the real code "
         "by the interleaved runs).",
    note="Trusted: Coq kernel; hand model tied by differential runs (ABI: b_call/invoke_callback; API: generated wrappers, "
         "cffi_call_python, global accessor); gcc; glibc TLS. Theorems closed under the global context.",
    design_ref="DESIGN.md §4 C22")
