"""C34: regenerate the Part-B facts of coq/C34/Gen.v from the C sources and from recompiler.py.

Three delegating searches (one `search_row` each, read by C34.Model.dfsG):
    _fetch_external_struct_or_union   src/c/ffi_obj.c
    ffi_fetch_int_constant            src/c/ffi_obj.c
    lib_build_and_cache_attr          src/c/lib_obj.c   (the `index < 0` part)
and the rule of Recompiler._struct_ctx (src/cffi/recompiler.py) that decides _CFFI_F_EXTERNAL.

Fail closed.  Each function body is tokenised (comments removed) and must match a recorded token template
exactly.  The free parts (@name@) are: the cap literal, the recursion argument of the recursive call, the
tuple / object passed down, the statement executed on `sindex < 0`, the two flag masks, the op names of
the integer-constant switch, and the statement lists in front of the loop.  Every free part is classified
into a small vocabulary; anything that does not classify raises RegenError (the committed snapshot stays and
a broken obligation is recorded).  A statement `if (COND) return NULL;` found in front of a delegation loop
that is not one of the known guards becomes a `GExit` / pre-exit row entry carrying COND as text: Gen.v is
regenerated with it and the lemma "the rows are as modelled" (Proofs2.v) no longer checks.
"""
import ast
import os
import re


class RegenError(Exception):
    pass


_TOK = re.compile(r"""\s*(?:
    (?P<id>[A-Za-z_]\w*) | (?P<num>0[xX][0-9a-fA-F]+|\d+) | (?P<str>"(?:[^"\\]|\\.)*") | (?P<chr>'(?:[^'\\]|\\.)*') |
    (?P<hole>@\w+@) |
    (?P<op><<=|>>=|<<|>>|<=|>=|==|!=|&&|\|\||\+\+|--|->|\+=|-=|[-+*/%&|^~!<>=?:;,.(){}\[\]\#\\])
)""", re.X)


def tokens(text):
    text = re.sub(r"/\*.*?\*/", " ", text, flags=re.S)
    text = re.sub(r"//[^\n]*", " ", text)
    out, pos = [], 0
    while True:
        m = _TOK.match(text, pos)
        if not m or m.end() == pos:
            if text[pos:].strip() == "":
                return out
            raise RegenError("cannot tokenise %r" % text[pos:pos + 40])
        out.append(m.group(m.lastgroup))
        pos = m.end()


def function_body(toks, name):
    """tokens of the body (without the outer braces) of the unique definition of `name`"""
    found = []
    for k in range(len(toks) - 1):
        if toks[k] == name and toks[k + 1] == "(":
            d, j = 0, k + 1
            while j < len(toks):
                d += toks[j] == "("
                d -= toks[j] == ")"
                if d == 0:
                    break
                j += 1
            if j + 1 < len(toks) and toks[j + 1] == "{":
                d, e = 0, j + 1
                while e < len(toks):
                    d += toks[e] == "{"
                    d -= toks[e] == "}"
                    if d == 0:
                        break
                    e += 1
                if e >= len(toks):
                    raise RegenError("unbalanced braces in %s" % name)
                found.append((toks[k + 2:j], toks[j + 2:e]))
    if len(found) != 1:
        raise RegenError("%d definitions of %s found" % (len(found), name))
    return found[0]


_DECL = r"(?:(?!(?:return|continue|break|goto|if|for|while|switch|else|case|default)\b)(?:\w+\ |\*\ )+;\ )*"
_HOLE_RE = {"decls": _DECL, "decls2": _DECL}


def template(text):
    parts = []
    for t in tokens(text):
        if t.startswith("@") and t.endswith("@") and len(t) > 2:
            n = t[1:-1]
            if n in _HOLE_RE:
                parts.append("(?P<%s>%s)" % (n, _HOLE_RE[n]))
            else:
                parts.append(r"(?P<%s>(?:.+?\ )??)" % n)
        else:
            parts.append(re.escape(t) + r"\ ")
    return re.compile("".join(parts))


def match(tpl, toks, what):
    m = tpl.fullmatch("".join(t + " " for t in toks))
    if not m:
        raise RegenError("%s no longer has the recorded shape" % what)
    return {k: (v or "").strip() for k, v in m.groupdict().items()}


def split_stmts(text):
    """top-level statements of a token string"""
    toks = text.split()
    out, cur, d = [], [], 0
    for k, t in enumerate(toks):
        cur.append(t)
        if t in "({":
            d += 1
        elif t in ")}":
            d -= 1
            if d < 0:
                raise RegenError("unbalanced statement list")
        if d == 0 and (t == ";" or (t == "}" and not (k + 1 < len(toks) and toks[k + 1] == "else"))):
            # `if ( c ) {...}` ends at its closing brace; `if ( c ) stmt ;` at the semicolon
            out.append(" ".join(cur))
            cur = []
    if cur:
        raise RegenError("trailing tokens %r" % " ".join(cur)[:60])
    return out


_PLAIN_DECL = re.compile(r"(?!(?:return|continue|break|goto)\b)(?:\w+ |\* )+;")
_EXIT = re.compile(r"if \( (?P<c>.+) \) (?:return NULL ;|\{ return NULL ; \})")
_CAP = re.compile(r'if \( recursion > (?P<n>\d+) \) \{ PyErr_SetString \( PyExc_RuntimeError , (?:"[^"]*" ?)+\) ; '
                  r'return NULL ; \}')


def classify_pre(stmts, known, what):
    """statements in front of a loop -> (guards in order, aliases).  `known`: dict stmt -> tag (None = ignore)"""
    guards = []
    for s in stmts:
        if s in known:
            if known[s] is not None:
                guards.append(known[s])
            continue
        if _PLAIN_DECL.fullmatch(s):
            continue
        m = _CAP.fullmatch(s)
        if m:
            guards.append(("cap", int(m.group("n"))))
            continue
        m = _EXIT.fullmatch(s)
        if m:
            guards.append(("exit", m.group("c")))
            continue
        raise RegenError("%s: unexpected statement in front of the delegation loop: %r" % (what, s[:120]))
    return guards


def rec_inc(text, what):
    if text == "recursion":
        return 0
    m = re.fullmatch(r"recursion \+ (\d+)", text)
    if not m:
        raise RegenError("%s: recursion argument %r" % (what, text))
    return int(m.group(1))


def miss_action(text, what):
    if text == "continue":
        return "MissContinue"
    if text in ("break", "return NULL"):
        return "MissStop"
    raise RegenError("%s: statement on a missing entry: %r" % (what, text))


FLAGS = {"_CFFI_F_EXTERNAL": "FExternal", "_CFFI_F_UNION": "FUnion"}


def mask(text, what):
    text = text.strip()
    if text.startswith("(") and text.endswith(")"):
        text = text[1:-1].strip()
    names = [t.strip() for t in text.split("|")]
    if not names or any(n not in FLAGS for n in names) or len(set(names)) != len(names):
        raise RegenError("%s: flag mask %r" % (what, text))
    return [FLAGS[n] for n in names]


# ------------------------------------------------------------------ the three functions

T_STRUCT = template("""
  @pre@
  for (i = 0; i < PyTuple_GET_SIZE(@T@); i++) {
    @decls@
    ffi1 = (FFIObject *)PyTuple_GET_ITEM(@T2@, i);
    sindex = search_in_struct_unions(&ffi1->types_builder.ctx, s->name, strlen(s->name));
    if (sindex < 0) @miss@;
    s1 = &ffi1->types_builder.ctx.struct_unions[sindex];
    if ((s1->flags & @lhs@) == (s->flags & @rhs@)) {
        return _realize_c_struct_or_union(&ffi1->types_builder, sindex);
    }
    x = _fetch_external_struct_or_union(s, @down@, @rec@);
    if (x != NULL || PyErr_Occurred())
        return x;
  }
  return NULL;
""")


def extract_struct(toks):
    what = "_fetch_external_struct_or_union"
    params, body = function_body(toks, what)
    if " ".join(params) != "const struct _cffi_struct_union_s * s , PyObject * included_ffis , int recursion":
        raise RegenError("%s: parameters changed" % what)
    g = match(T_STRUCT, body, what)
    if g["T"] != "included_ffis" or g["T2"] != "included_ffis":
        raise RegenError("%s: loop over %r / item of %r" % (what, g["T"], g["T2"]))
    guards = classify_pre(split_stmts(g["pre"]), {"if ( included_ffis == NULL ) return NULL ;": ("null",)}, what)
    if g["down"] == "ffi1 -> types_builder . included_ffis":
        down = "DownItemIncludes"
    elif g["down"] == "included_ffis":
        down = "DownSameTuple"
    else:
        raise RegenError("%s: tuple passed down: %r" % (what, g["down"]))
    inc = rec_inc(g["rec"], what)
    return dict(pre=[], guards=guards, inc=inc, inc2=inc, down=down, miss=miss_action(g["miss"], what),
                lhs=mask(g["lhs"], what), rhs=mask(g["rhs"], what), ops=[])


T_CONST = template("""
  @pre@
  if (ffi->types_builder.included_ffis != NULL) {
    @pre2@
    for (i = 0; i < PyTuple_GET_SIZE(@T@); i++) {
        @decls@
        ffi1 = (FFIObject *)PyTuple_GET_ITEM(@T2@, i);
        x = ffi_fetch_int_constant(@down@, name, @rec@);
        if (x != NULL || PyErr_Occurred())
            return x;
    }
  }
  return NULL;
""")

T_CONST_OWN = template("""
  if (index >= 0) {
    const struct _cffi_global_s *g;
    g = &ffi->types_builder.ctx.globals[index];
    switch (_CFFI_GETOP(g->type_op)) {
    @cases@
        return realize_global_int(&ffi->types_builder, index);
    default:
        PyErr_Format(FFIError, @msg@);
        return NULL;
    }
  }
""")


def extract_const(toks):
    what = "ffi_fetch_int_constant"
    params, body = function_body(toks, what)
    if " ".join(params) != "FFIObject * ffi , const char * name , int recursion":
        raise RegenError("%s: parameters changed" % what)
    g = match(T_CONST, body, what)
    if g["T"] != "included_ffis" or g["T2"] != "included_ffis":
        raise RegenError("%s: loop over %r / item of %r" % (what, g["T"], g["T2"]))
    # statements in front of the delegation: the local lookup and its hit branch, nothing else
    pre, own, ops = [], 0, None
    for s in split_stmts(g["pre"]):
        if _PLAIN_DECL.fullmatch(s):
            continue
        if s == "index = search_in_globals ( & ffi -> types_builder . ctx , name , strlen ( name ) ) ;" and own == 0:
            own = 1
            continue
        if s.startswith("if ( index >= 0 ) {") and own == 1:
            h = match(T_CONST_OWN, s.split(), what + " (hit branch)")
            cs = re.fullmatch(r"(?:case \w+ : ?)+", h["cases"])
            if not cs:
                raise RegenError("%s: switch cases %r" % (what, h["cases"]))
            ops = re.findall(r"case (\w+) :", h["cases"])
            own = 2
            continue
        m = _EXIT.fullmatch(s)
        if m:
            pre.append(m.group("c"))
            continue
        raise RegenError("%s: unexpected statement in front of the delegation: %r" % (what, s[:120]))
    if own != 2:
        raise RegenError("%s: local lookup not found" % what)
    guards = [("null",)] + classify_pre(
        split_stmts(g["pre2"]), {"PyObject * included_ffis = ffi -> types_builder . included_ffis ;": None}, what)
    if "PyObject * included_ffis = ffi -> types_builder . included_ffis ;" not in split_stmts(g["pre2"]):
        raise RegenError("%s: included_ffis is not ffi->types_builder.included_ffis" % what)
    if g["down"] == "ffi1":
        down = "DownItemIncludes"        # the callee iterates over its own ffi->types_builder.included_ffis
    elif g["down"] == "ffi":
        down = "DownSameTuple"
    else:
        raise RegenError("%s: object passed down: %r" % (what, g["down"]))
    inc = rec_inc(g["rec"], what)
    return dict(pre=pre, guards=guards, inc=inc, inc2=inc, down=down, miss="MissContinue", lhs=[], rhs=[], ops=ops)


T_LIB = template("""
  @pre@
  index = search_in_globals(&types_builder->ctx, s, strlen(s));
  if (index < 0) {
    @pre1@
    if (types_builder->included_libs != NULL) {
        @pre2@
        for (i = 0; i < PyTuple_GET_SIZE(@T@); i++) {
            @decls@
            lib1 = (LibObject *)PyTuple_GET_ITEM(@T2@, i);
            if (lib1 != NULL) {
                x = PyDict_GetItem(lib1->l_dict, name);
                if (x != NULL) {
                    Py_INCREF(x);
                    goto found;
                }
                x = lib_build_and_cache_attr(@down@, name, @rec@);
                if (x != NULL) {
                    Py_INCREF(x);
                    goto found;
                }
            }
            else {
                @decls2@
                ffi1 = (FFIObject *)PyTuple_GetItem(@T3@, i);
                if (ffi1 == NULL)
                    return NULL;
                x = ffi_fetch_int_constant(@down2@, s, @rec2@);
                if (x != NULL)
                    goto found;
            }
            if (PyErr_Occurred())
                return NULL;
        }
    }
    if (recursion > 0)
        return NULL;
    PyErr_Format(PyExc_AttributeError, @msg@);
    return NULL;
  }
  @rest@
""")


def extract_lib(toks):
    what = "lib_build_and_cache_attr"
    params, body = function_body(toks, what)
    if " ".join(params) != "LibObject * lib , PyObject * name , int recursion":
        raise RegenError("%s: parameters changed" % what)
    g = match(T_LIB, body, what)
    if g["T"] != "included_libs" or g["T2"] != "included_libs" or g["T3"] != "included_ffis":
        raise RegenError("%s: loop over %r / items of %r, %r" % (what, g["T"], g["T2"], g["T3"]))
    if "search_in_globals" in g["rest"].split()[:0]:
        raise RegenError("%s: shape" % what)
    pre = []
    for s in split_stmts(g["pre"]) + split_stmts(g["pre1"]):
        if _PLAIN_DECL.fullmatch(s) or s in ("builder_c_t * types_builder = lib -> l_types_builder ;",
                                             "const char * s = PyUnicode_AsUTF8 ( name ) ;",
                                             "if ( s == NULL ) return NULL ;"):
            continue
        m = _EXIT.fullmatch(s)
        if m:
            pre.append(m.group("c"))
            continue
        raise RegenError("%s: unexpected statement in front of the delegation: %r" % (what, s[:120]))
    al = {"PyObject * included_ffis = types_builder -> included_ffis ;": None,
          "PyObject * included_libs = types_builder -> included_libs ;": None}
    st2 = split_stmts(g["pre2"])
    if any(a not in st2 for a in al):
        raise RegenError("%s: included_ffis / included_libs are not the builder's tuples" % what)
    guards = [("null",)] + classify_pre(st2, al, what)
    if g["down"] == "lib1" and g["down2"] == "ffi1":
        down = "DownItemIncludes"
    elif g["down"] == "lib" or g["down2"] == "ffi":
        down = "DownSameTuple"
    else:
        raise RegenError("%s: objects passed down: %r, %r" % (what, g["down"], g["down2"]))
    return dict(pre=pre, guards=guards, inc=rec_inc(g["rec"], what), inc2=rec_inc(g["rec2"], what), down=down,
                miss="MissContinue", lhs=[], rhs=[], ops=[])


# ------------------------------------------------------------------ recompiler._struct_ctx

def extract_struct_ctx(src):
    """`if tp not in self.ffi._parser._included_declarations and (...)` decides between the full entry and the
    `else:` branch that sets _CFFI_F_EXTERNAL.  Returns True iff the source says: external <-> tp in
    _included_declarations (for a type with fields known; an opaque type is external too when included, and
    merely opaque when not).  With named_ptr = None (every struct/union that has a name of its own) the test is
    `tp not in _included_declarations`; named_ptr is the `typedef struct {...} *p` case."""
    tree = ast.parse(src)
    fn = None
    for node in ast.walk(tree):
        if isinstance(node, ast.ClassDef) and node.name == "Recompiler":
            for f in node.body:
                if isinstance(f, ast.FunctionDef) and f.name == "_struct_ctx":
                    fn = f
    if fn is None:
        raise RegenError("Recompiler._struct_ctx not found")
    ifs = [n for n in fn.body if isinstance(n, ast.If)]
    target = None
    for n in ifs:
        t = n.test
        if isinstance(t, ast.BoolOp) and isinstance(t.op, ast.And) and isinstance(t.values[0], ast.Compare):
            c = t.values[0]
            if len(c.ops) == 1 and isinstance(c.ops[0], ast.NotIn) and isinstance(c.left, ast.Name) \
                    and c.left.id == "tp" and ast.unparse(c.comparators[0]) == "self.ffi._parser._included_declarations":
                if target is not None:
                    raise RegenError("_struct_ctx: two membership tests")
                target = n
    if target is None:
        raise RegenError("_struct_ctx: `tp not in self.ffi._parser._included_declarations and ...` not found")
    if len(target.test.values) != 2 or ast.unparse(target.test.values[1]).replace(" ", "") != \
            "named_ptrisNoneornamed_ptrnotinself.ffi._parser._included_declarations":
        raise RegenError("_struct_ctx: second conjunct %r" % ast.unparse(target.test))

    def flag_adds(stmts, deep):
        out = []
        for s in stmts:
            for n in (ast.walk(s) if deep else [s.value] if isinstance(s, ast.Expr) else []):
                if isinstance(n, ast.Call) and isinstance(n.func, ast.Attribute) and n.func.attr == "append" \
                        and ast.unparse(n.func.value) == "flags" and n.args and isinstance(n.args[0], ast.Constant):
                    out.append(n.args[0].value)
        return out
    # the defining branch never sets the flag; the else branch sets it unconditionally (a top-level statement)
    if "_CFFI_F_EXTERNAL" in flag_adds(target.body, True):
        raise RegenError("_struct_ctx: the defining branch sets _CFFI_F_EXTERNAL")
    if "_CFFI_F_EXTERNAL" not in flag_adds(target.orelse, False):
        raise RegenError("_struct_ctx: the else branch does not set _CFFI_F_EXTERNAL unconditionally")
    # nowhere else in the function
    total = [n for n in ast.walk(fn) if isinstance(n, ast.Constant) and n.value == "_CFFI_F_EXTERNAL"]
    if len(total) != 1:
        raise RegenError("_struct_ctx: _CFFI_F_EXTERNAL mentioned %d times" % len(total))
    # flags must not be reassigned between the test and the join
    return True


# ------------------------------------------------------------------ rendering

def _strlit(s):
    return "[" + ";".join("%d" % ord(c) for c in s) + "]%N" if s else "(@nil N)"


def _lst(xs, ty=None):
    return "[" + "; ".join(xs) + "]" if xs else ("(@nil %s)" % ty if ty else "[]")


def render_row(r):
    gs = []
    for g in r["guards"]:
        gs.append("GNullTuple" if g[0] == "null" else "GCap %d" % g[1] if g[0] == "cap" else "GExit %s" % _strlit(g[1]))
    return ("mkRow %s %s %d %d %s %s %s %s %s" % (
        _lst([_strlit(c) for c in r["pre"]], "(list N)"), _lst(gs, "guard"), r["inc"], r["inc2"], r["down"], r["miss"],
        _lst(r["lhs"], "sflag"), _lst(r["rhs"], "sflag"), _lst([_strlit(o) for o in r["ops"]], "(list N)")))


PART_B = """
(* ---- Part B: regenerated from src/c/ffi_obj.c, src/c/lib_obj.c and src/cffi/recompiler.py by
   tools/props/c34_regen.py.  One row per delegating search; C34.Model.dfsG reads them. *)
Inductive guard :=
  | GNullTuple                 (* the tuple of included objects is NULL: return "not found" *)
  | GCap (n : nat)             (* if (recursion > n) RuntimeError *)
  | GExit (cond : list N).     (* any other  if (cond) return NULL;  in front of the loop (text of cond) *)
Inductive down_arg :=
  | DownItemIncludes           (* the recursive call works on the included_ffis of the item just looked at *)
  | DownSameTuple.             (* ... on the tuple being iterated *)
Inductive miss_action := MissContinue | MissStop.   (* the item has no entry of that name: continue / break, return NULL *)
Inductive sflag := FExternal | FUnion.
Record search_row := mkRow {
  sr_pre_exits : list (list N);   (* `if (cond) return NULL;` in front of the local lookup / the delegation block *)
  sr_guards : list guard;         (* in source order, in front of the loop *)
  sr_inc : nat;                   (* recursive call at  recursion + sr_inc *)
  sr_inc2 : nat;                  (* lib: the ffi_fetch_int_constant call of the `lib1 == NULL` branch *)
  sr_down : down_arg;
  sr_miss : miss_action;
  sr_lhs_mask : list sflag;       (* (s1->flags & lhs) == (s->flags & rhs) *)
  sr_rhs_mask : list sflag;
  sr_int_ops : list (list N)      (* ffi_fetch_int_constant: ops answered with realize_global_int *)
}.
Definition gen_row_struct : search_row :=
  %(struct)s.
Definition gen_row_const : search_row :=
  %(const)s.
Definition gen_row_lib : search_row :=
  %(lib)s.
Definition gen_search : list search_row := [gen_row_struct; gen_row_const; gen_row_lib].
(* Recompiler._struct_ctx: the entry of a struct/union gets _CFFI_F_EXTERNAL exactly when the type is in
   _included_declarations *)
Definition gen_external_iff_included : bool := %(ext)s.
"""


def extract_all(repo):
    ffi = tokens(open(os.path.join(repo, "src", "c", "ffi_obj.c")).read())
    lib = tokens(open(os.path.join(repo, "src", "c", "lib_obj.c")).read())
    rec = open(os.path.join(repo, "src", "cffi", "recompiler.py")).read()
    return dict(struct=render_row(extract_struct(ffi)), const=render_row(extract_const(ffi)),
                lib=render_row(extract_lib(lib)), ext="true" if extract_struct_ctx(rec) else "false")


def render_part_b(repo):
    return PART_B % extract_all(repo)


if __name__ == "__main__":
    import sys
    print(render_part_b(sys.argv[1] if len(sys.argv) > 1 else "/repo"))
