"""C15 worker (inside the scratch build): string initializers / assignments / ffi.string / ffi.unpack on
character arrays; raw units are read back through ffi.buffer."""
import cffi
from lib.vlib import worker_main

USZ = {"char": 1, "signed char": 1, "unsigned char": 1, "char16_t": 2, "char32_t": 4, "wchar_t": 4}


def mkval(v):
    if v[0] == "bytes":
        return bytes.fromhex(v[1])
    return "".join(chr(c) for c in v[1])


def units(ffi, cd_or_ptr, T, n):
    raw = bytes(ffi.buffer(ffi.cast("char *", cd_or_ptr), n * USZ[T]))
    u = USZ[T]
    return [int.from_bytes(raw[i * u:(i + 1) * u], "little") for i in range(n)]


def put_units(ffi, ptr, T, us):
    u = USZ[T]
    raw = b"".join((x % (1 << (8 * u))).to_bytes(u, "little") for x in us)
    ffi.memmove(ffi.cast("char *", ptr), raw, len(raw))


def canon(x):
    if isinstance(x, bytes):
        return ["bytes", list(x)]
    if isinstance(x, str):
        return ["str", [ord(c) for c in x]]
    if isinstance(x, list):
        return ["list", [canon(i) for i in x]]
    if isinstance(x, int):
        return ["int", x]
    return ["unknown", repr(x)]


def attempt(fn):
    try:
        return canon(fn())
    except Exception as e:
        return ["err", type(e).__name__]


_structs = {}


def struct_for(ffi, T, K):
    key = (T, K)
    if key not in _structs:
        name = "s_%s_%d" % (T.replace(" ", "_"), K)
        ffi.cdef("struct %s { %s before[2]; %s a[%d]; %s after[2]; };" % (name, T, T, K, T))
        _structs[key] = name
    return _structs[key]


def run_new(ffi, c):
    T = c["T"]
    ctype = "%s[]" % T if c["K"] is None else "%s[%d]" % (T, c["K"])
    try:
        x = ffi.new(ctype, mkval(c["val"]))
    except Exception as e:
        return dict(out=["err", type(e).__name__])
    n = len(x)
    return dict(out=["ok"], len=n, raw=units(ffi, x, T, n), string=attempt(lambda: ffi.string(x)),
                unpack=attempt(lambda: ffi.unpack(x, n)), items=attempt(lambda: list(x)))


def run_assign(ffi, c):
    T, K = c["T"], c["K"]
    steps = []
    if c["mode"] == "field":
        p = ffi.new("struct %s *" % struct_for(ffi, T, K))
        put_units(ffi, p.before, T, [0x41, 0x42])
        put_units(ffi, p.after, T, [0x43, 0x44])
        put_units(ffi, p.a, T, c["prev"])
        for v in c["vals"]:
            try:
                p.a = mkval(v)
                out = ["ok"]
            except Exception as e:
                out = ["err", type(e).__name__]
            steps.append(dict(out=out, raw=units(ffi, p.a, T, K), string=attempt(lambda: ffi.string(p.a)),
                              guards=units(ffi, p.before, T, 2) + units(ffi, p.after, T, 2)))
    else:
        arr = ffi.new("%s[3][%d]" % (T, K))
        put_units(ffi, arr[0], T, [0x41] * K)
        put_units(ffi, arr[2], T, [0x43] * K)
        put_units(ffi, arr[1], T, c["prev"])
        for v in c["vals"]:
            try:
                arr[1] = mkval(v)
                out = ["ok"]
            except Exception as e:
                out = ["err", type(e).__name__]
            g = units(ffi, arr[0], T, K) + units(ffi, arr[2], T, K)
            steps.append(dict(out=out, raw=units(ffi, arr[1], T, K), string=attempt(lambda: ffi.string(arr[1])),
                              guards=[0x41, 0x42, 0x43, 0x44] if g == [0x41] * K + [0x43] * K else g))
    return dict(steps=steps)


def run_string(ffi, c):
    T, us = c["T"], c["units"]
    x = ffi.new("%s[]" % T, len(us) + 1)       # one spare zero unit after the data
    put_units(ffi, x, T, us)
    if c["via"] == "array":
        y = ffi.cast("%s(*)[%d]" % (T, len(us)), x)[0]
    else:
        y = ffi.cast("%s *" % T, x)
    if c["what"] == "string":
        r = attempt((lambda: ffi.string(y)) if c["maxlen"] is None else (lambda: ffi.string(y, c["maxlen"])))
    else:
        r = attempt(lambda: ffi.unpack(y, c["n"]))
    return dict(out=r)


def main(payload):
    ffi = cffi.FFI()
    res = []
    fns = dict(new=run_new, assign=run_assign, string=run_string)
    for c in payload["cases"]:
        try:
            res.append(fns[c["kind"]](ffi, c))
        except Exception as e:
            res.append(dict(error="%s: %s" % (type(e).__name__, e)))
    return dict(results=res, sizes={t: ffi.sizeof(t) for t in USZ})


worker_main(main)
