"""C29 — callback closures stay distinct and bound to their own function.

Tie: random create / failed-create / drop / call histories on real ffi.callback objects (one fresh
process per history, because the closure allocator is process-global), crossing several
page-growth boundaries with thousands alive, dropping in random order (also through reference
cycles + gc.collect()), re-creating (LIFO reuse), and calling live callbacks through the cdata,
through a cast function pointer and from C (helper .so).  Addresses are canonicalised to
first-appearance numbers and compared with the Coq model C29.Model.run_case.  Independently of
the model: live callbacks have pairwise distinct addresses at every moment, and every call ran
exactly its own function with its own signature (exact result value).  Self-dropping callbacks
(entered from C through the bare closure address; the Python function deletes the callback's last
reference, collects, optionally creates a new callback, then returns / raises) must hand their own
result / own error value to the C caller: this is what general_invoke_callback's temporary
Py_INCREF(cb_args) is for (C29/Refs.v: C29_tuple_alive_during_call on the regenerated event list).
"""
import json
import os
import re

from lib import vlib
from lib.py2coq import Untranslatable
from lib.vlib import cn, cz, clist, cpair

ID = "C29"



# ---------------------------------------------------------------- regeneration of coq/C29/Gen.v
# The allocation arithmetic of more_core() (src/c/malloc_closure.h) is re-read from the source text on
# every run: the assignments to allocate_num_pages and count, conditional re-assignments, the size
# given to mmap() and the bound of the loop that threads items onto the free list, in program order
# (POSIX branch of the #ifdefs).  Anything about these variables that is not in the small statement
# language of coq/C29/Prog.v makes the translation fail closed (snapshot + correspondence only).

GEN = os.path.join(vlib.COQ, "C29", "Gen.v")
RELEVANT = ("allocate_num_pages", "count")
TOKEN = re.compile(r"\s*(?:(\d+\.\d*(?:[eE][-+]?\d+)?|\.\d+|\d+[uUlL]*)|([A-Za-z_]\w*)|(\"(?:[^\"\\]|\\.)*\"|'(?:[^'\\]|\\.)*'|->|\+\+|--|<=|>=|==|!=|&&|\|\||&=|\|=|[-+*/%<>=!&|~^(){};,\[\]?:.]))")


def _fail(msg):
    raise Untranslatable("more_core(): " + msg)


def _strip_comments(text):
    text = re.sub(r"/\*.*?\*/", " ", text, flags=re.S)
    return re.sub(r"//[^\n]*", " ", text)


def _function_body(text, header):
    i = text.find(header)
    if i < 0 or text.find(header, i + 1) >= 0:
        _fail("header %r not found exactly once" % header)
    j = text.index("{", i)
    depth, k = 0, j
    while k < len(text):
        if text[k] == "{":
            depth += 1
        elif text[k] == "}":
            depth -= 1
            if depth == 0:
                return text[j + 1:k]
        k += 1
    _fail("unbalanced braces")


def _preprocess(body, defined):
    out, stack = [], []
    for line in body.split("\n"):
        t = line.strip()
        if t.startswith("#"):
            m = re.match(r"#\s*(ifdef|ifndef|else|endif)\b\s*(\w*)", t)
            if not m:
                _fail("unsupported preprocessor line %r" % t)
            d, name = m.groups()
            if d == "ifdef":
                stack.append(name in defined)
            elif d == "ifndef":
                stack.append(name not in defined)
            elif d == "else":
                if not stack:
                    _fail("#else without #if")
                stack[-1] = not stack[-1]
            else:
                if not stack:
                    _fail("#endif without #if")
                stack.pop()
            continue
        if all(stack):
            out.append(line)
    if stack:
        _fail("unterminated #if")
    return "\n".join(out)


def _tokens(text):
    pos, out = 0, []
    text = text.rstrip()
    while pos < len(text):
        m = TOKEN.match(text, pos)
        if not m:
            if text[pos:].strip() == "":
                break
            _fail("cannot tokenize near %r" % text[pos:pos + 30])
        out.append(m.group(1) or m.group(2) or m.group(3))
        pos = m.end()
    return out


class _Stmts:
    """flat statement list: ('expr', toks) | ('if', cond_toks, [stmts]) | ('for', header_toks, [stmts]) | ('return',)"""

    def __init__(self, toks):
        self.t, self.i = toks, 0

    def peek(self):
        return self.t[self.i] if self.i < len(self.t) else None

    def take(self, want=None):
        if self.i >= len(self.t) or (want is not None and self.t[self.i] != want):
            _fail("expected %r at token %d" % (want, self.i))
        self.i += 1
        return self.t[self.i - 1]

    def parens(self):
        self.take("(")
        depth, out = 1, []
        while depth:
            x = self.take()
            if x == "(":
                depth += 1
            elif x == ")":
                depth -= 1
                if depth == 0:
                    break
            out.append(x)
        return out

    def stmt(self):
        x = self.peek()
        if x == "{":
            self.take()
            out = []
            while self.peek() != "}":
                out += self.stmt()
            self.take("}")
            return out
        if x == "if":
            self.take()
            cond = self.parens()
            body = self.stmt()
            if self.peek() == "else":
                self.take()
                return [("if", cond, body, self.stmt())]
            return [("if", cond, body)]
        if x == "for":
            self.take()
            return [("for", self.parens(), self.stmt())]
        if x in ("while", "do", "switch", "goto"):
            _fail("%r is outside the translated subset" % x)
        if x == "return":
            self.take()
            val = []
            while self.peek() != ";":
                if self.peek() is None:
                    _fail("missing ';'")
                val.append(self.take())
            self.take(";")
            return [("return", val)]
        out = []
        while self.peek() != ";":
            if self.peek() is None:
                _fail("missing ';'")
            out.append(self.take())
        self.take(";")
        return [("expr", out)] if out else []

    def all(self):
        out = []
        while self.peek() is not None:
            out += self.stmt()
        return out


class _Expr:
    def __init__(self, toks, macros):
        self.t, self.i, self.macros = toks, 0, macros

    def peek(self):
        return self.t[self.i] if self.i < len(self.t) else None

    def take(self, want=None):
        if self.i >= len(self.t) or (want is not None and self.t[self.i] != want):
            _fail("expression: expected %r in %r" % (want, " ".join(self.t)))
        self.i += 1
        return self.t[self.i - 1]

    def parse(self):
        e = self.add()
        if self.peek() is not None:
            _fail("expression: trailing tokens in %r" % " ".join(self.t))
        return e

    def add(self):
        e = self.mul()
        while self.peek() in ("+", "-"):
            op = self.take()
            e = ("add" if op == "+" else "sub", e, self.mul())
        return e

    def mul(self):
        e = self.unary()
        while self.peek() in ("*", "/"):
            op = self.take()
            e = ("mul" if op == "*" else "div", e, self.unary())
        return e

    def unary(self):
        x = self.peek()
        if x == "(":
            # cast or parenthesised expression
            if self.i + 2 < len(self.t) and self.t[self.i + 1] in ("Py_ssize_t", "size_t", "long", "ssize_t") \
                    and self.t[self.i + 2] == ")":
                self.i += 3
                return ("cast", self.unary())
            self.take("(")
            e = self.add()
            self.take(")")
            return e
        if x == "sizeof":
            self.take()
            inner = []
            self.take("(")
            while self.peek() != ")":
                inner.append(self.take())
            self.take(")")
            if inner != ["union", "mmapped_block"]:
                _fail("sizeof(%s)" % " ".join(inner))
            return ("sizeof",)
        x = self.take()
        if re.fullmatch(r"\d+[uUlL]*", x):
            return ("int", int(re.sub(r"[uUlL]", "", x)))
        if re.fullmatch(r"\d+\.\d*|\.\d+", x):
            whole, _, frac = x.partition(".")
            return ("float", int((whole or "0") + frac), 10 ** len(frac))
        if x == "allocate_num_pages":
            return ("var", "VPages")
        if x == "count":
            return ("var", "VCount")
        if x == "_pagesize":
            return ("pagesize",)
        if x in self.macros:
            return _Expr(self.macros[x], self.macros).parse()
        _fail("unknown name %r in an expression" % x)


def _gallina(e):
    k = e[0]
    if k == "int":
        return "(EInt %d)" % e[1]
    if k == "var":
        return "(EV %s)" % e[1]
    if k == "pagesize":
        return "EPagesize"
    if k == "sizeof":
        return "ESizeofBlock"
    if k == "cast":
        inner = e[1]
        if inner[0] == "mul" and (inner[1][0] == "float") != (inner[2][0] == "float"):
            f, other = (inner[1], inner[2]) if inner[1][0] == "float" else (inner[2], inner[1])
            return "(ETruncMulRat %s %d %d)" % (_gallina(other), f[1], f[2])
        return _gallina(inner)          # integer cast of a non-negative integer expression
    if k == "float":
        _fail("a floating-point literal outside '(Py_ssize_t)(expr * literal)'")
    return "(E%s %s %s)" % (k.capitalize(), _gallina(e[1]), _gallina(e[2]))


CMP = {">": "CGt", ">=": "CGe", "<": "CLt", "<=": "CLe"}
THREAD_BODY = ["item", "->", "next", "=", "free_list", ";", "free_list", "=", "item", ";", "++", "item", ";"]


def _mentions(stmt, names):
    if stmt[0] == "expr":
        return any(t in names for t in stmt[1])
    if stmt[0] in ("if", "for"):
        return any(t in names for t in stmt[1]) or any(_mentions(s, names) for s in stmt[2])
    return False


def _flatten_toks(stmts):
    out = []
    for s in stmts:
        if s[0] == "expr":
            out += s[1] + [";"]
        else:
            _fail("nested control flow in a loop body")
    return out


def translate_more_core(repo):
    path = os.path.join(repo, "src", "c", "malloc_closure.h")
    try:
        text = _strip_comments(open(path).read())
    except OSError as e:
        _fail(str(e))
    macros = {}
    for m in re.finditer(r"(?m)^[ \t]*#[ \t]*define[ \t]+(\w+)[ \t]+([^\n]+)$", text):
        try:
            macros[m.group(1)] = _tokens(m.group(2).strip())
        except Untranslatable:
            pass
    body = _preprocess(_function_body(text, "static void more_core(void)"), {"_SC_PAGESIZE", "__linux__"})
    stmts = _Stmts(_tokens(body)).all()
    prog, seen_relevant = [], False

    def assign(toks):
        if len(toks) >= 3 and toks[0] in RELEVANT and toks[1] == "=":
            return ("VPages" if toks[0] == "allocate_num_pages" else "VCount",
                    _gallina(_Expr(toks[2:], macros).parse()))
        return None

    def walk(stmts):
        nonlocal seen_relevant
        for s in stmts:
            if s[0] == "expr":
                toks = s[1]
                if "mmap" in toks:
                    k = toks.index("mmap")
                    args = _Stmts(toks[k + 1:]).parens()
                    depth, cur, parts = 0, [], []
                    for t in args:
                        if t == "," and depth == 0:
                            parts.append(cur)
                            cur = []
                            continue
                        depth += t == "("
                        depth -= t == ")"
                        cur.append(t)
                    parts.append(cur)
                    if len(parts) != 6 or toks[0] != "item" or toks[1] != "=":
                        _fail("unexpected form of the mmap() call")
                    prog.append("SMmap %s" % _gallina(_Expr(parts[1], macros).parse()))
                    seen_relevant = True
                elif any(t in RELEVANT for t in toks):
                    if toks[0] in ("Py_ssize_t", "size_t", "long", "int", "ssize_t") and "=" not in toks:
                        continue            # plain declaration without initializer
                    a = assign(toks)
                    if a is None:
                        _fail("statement about %s outside the subset: %r" % ("/".join(RELEVANT), " ".join(toks)))
                    prog.append("SAssign %s %s" % a)
                    seen_relevant = True
                elif "_pagesize" in toks and "=" in toks and seen_relevant:
                    _fail("_pagesize assigned after it was used")
            elif s[0] == "if":
                if len(s) == 4:
                    if _mentions(s, RELEVANT + ("mmap", "_pagesize")) or any(
                            _mentions(x, RELEVANT + ("mmap", "_pagesize")) for x in s[3]):
                        _fail("'else' about the allocation arithmetic is outside the translated subset")
                    continue
                if not _mentions(s, RELEVANT + ("mmap",)):
                    if seen_relevant and _mentions(s, ("_pagesize",)) and any(
                            x[0] == "expr" and "=" in x[1] and "_pagesize" in x[1] for x in s[2]):
                        _fail("_pagesize assigned after it was used")
                    continue
                cond, inner = s[1], s[2]
                ops = [t for t in cond if t in CMP]
                if len(ops) != 1 or len(inner) != 1 or inner[0][0] != "expr" or assign(inner[0][1]) is None:
                    _fail("conditional about %s outside the subset" % "/".join(RELEVANT))
                k = cond.index(ops[0])
                v, e = assign(inner[0][1])
                prog.append("SIf %s %s %s %s %s" % (CMP[ops[0]], _gallina(_Expr(cond[:k], macros).parse()),
                                                    _gallina(_Expr(cond[k + 1:], macros).parse()), v, e))
                seen_relevant = True
            elif s[0] == "for":
                h = s[1]
                if h[:4] != ["i", "=", "0", ";"] or h[4:6] != ["i", "<"] or h[-3:] != [";", "++", "i"]:
                    _fail("unexpected loop header %r" % " ".join(h))
                if _flatten_toks(s[2]) != THREAD_BODY:
                    _fail("unexpected loop body")
                prog.append("SThread %s" % _gallina(_Expr(h[6:-3], macros).parse()))
                seen_relevant = True
            elif s[0] == "return" and seen_relevant:
                _fail("unconditional return after the arithmetic started")
    walk(stmts)
    if sum(p.startswith("SMmap") for p in prog) != 1 or sum(p.startswith("SThread") for p in prog) != 1:
        _fail("expected exactly one mmap() and one threading loop, got %r" % prog)
    return ("(* REGENERATED on every run from more_core() in src/c/malloc_closure.h by tools/props/c29.py\n"
            "   (translate_more_core); the committed copy is Gen.v.snapshot.  Do not edit. *)\n"
            "From Coq Require Import ZArith List.\nImport ListNotations.\n"
            "From Cffi Require Import C29.Prog.\nOpen Scope Z_scope.\n\n"
            "Definition more_core_prog : list stmt :=\n  [ %s ].\n" % ";\n    ".join(prog))


GEN_INVOKE = os.path.join(vlib.COQ, "C29", "GenInvoke.v")
INVOKE_EVENTS = [(r"Py_INCREF\(\s*cb_args\s*\)\s*;", "GInc"), (r"Py_X?DECREF\(\s*cb_args\s*\)\s*;", "GDec"),
                 (r"goto\s+error\s*;", "GFail"), (r"\bdone\s*:", "GDoneLabel"), (r"\breturn\s*;", "GReturn"),
                 (r"\berror\s*:", "GErrorLabel"), (r"goto\s+done\s*;", "GGotoDone")]
# calls during which no Python code can run (everything else that is called is a call-out, GCall: PyObject_Call*,
# convert_from_object_fficallback (__int__/__float__/__index__), Py_DECREF/Py_XDECREF of another object (finalizers),
# PyErr_NormalizeException, _my_PyErr_WriteUnraisable (sys.unraisablehook, sys.stderr.write), the error-capture
# helpers, and any function this list does not know)
INVOKE_PURE = {"PyTuple_GET_ITEM", "PyTuple_GET_SIZE", "PyTuple_SET_ITEM", "PyTuple_New", "convert_to_object",
               "memcpy", "PyBytes_AS_STRING", "PyBytes_GET_SIZE", "PyErr_Fetch", "PyErr_Occurred", "SIGNATURE",
               "Py_INCREF", "Py_XINCREF", "if", "for", "while", "switch", "return", "sizeof"}
SIGNATURE_DEFINE = re.compile(r"#\s*define\s+SIGNATURE\(i\)\s+\(\(CTypeDescrObject \*\)PyTuple_GET_ITEM\(signature, i\)\)")
INVOKE_HEAD = """(* REGENERATED on every run by tools/props/c29.py (translate_invoke) from general_invoke_callback() in
   src/c/_cffi_backend.c, in source order: Py_INCREF(cb_args) / Py_DECREF(cb_args); every read of the info
   tuple cb_args or through a pointer borrowed from it (GUse: PyTuple_GET_ITEM(cb_args, i), SIGNATURE(i),
   ct, signature, py_ob, py_rawerr, onerror_cb, ... found by following `x = PyTuple_GET_ITEM(borrowed, i)` /
   `x = borrowed->field`); every call-out during which Python code may run (GCall: every call of a function
   outside a short list of known-pure ones); every `goto error;` of the main part, the labels done: / error:,
   `return;` and `goto done;`.  The two branches of an if/else are listed one after the other.
   The committed copy is GenInvoke.v.snapshot.  Do not edit. *)
From Coq Require Import List.
Import ListNotations.
From Cffi Require Import C29.Invoke.

"""


def _invoke_body(repo):
    try:
        raw = open(os.path.join(repo, "src", "c", "_cffi_backend.c")).read()
    except OSError as e:
        raise Untranslatable(str(e))
    text = _strip_comments(raw)
    ms = list(re.finditer(r"static void general_invoke_callback\([^{;]*\)\s*\{", text))
    if len(ms) != 1:
        raise Untranslatable("general_invoke_callback: header found %d times" % len(ms))
    end = text.find("\n}\n", ms[0].end())
    if end < 0:
        raise Untranslatable("general_invoke_callback: end of function not found")
    lines = text[ms[0].end():end].split("\n")
    for l in lines:
        t = l.strip()
        if t.startswith("#") and not (SIGNATURE_DEFINE.fullmatch(t) or re.fullmatch(r"#\s*undef\s+SIGNATURE", t)):
            raise Untranslatable("general_invoke_callback: preprocessor line %r is outside the translated subset" % t)
    body = "\n".join(l for l in lines if not l.strip().startswith("#"))
    body = re.sub(r'"(?:[^"\\\n]|\\.)*"', '""', body)            # string literals mention no variable
    if "SIGNATURE(" in body and not any(SIGNATURE_DEFINE.fullmatch(l.strip()) for l in lines):
        raise Untranslatable("general_invoke_callback: SIGNATURE(i) is not PyTuple_GET_ITEM(signature, i)")
    return body


def _borrowed_names(body):
    """cb_args and every local that is assigned a pointer borrowed from it (transitively)"""
    names = {"cb_args"}
    cast = r"(?:\(\s*[A-Za-z_][\w\s]*\*+\s*\)\s*)*"
    assigns = re.findall(r"\b([A-Za-z_]\w*)\s*=(?!=)\s*([^;]*);", body)
    changed = True
    while changed:
        changed = False
        for lhs, rhs in assigns:
            if lhs in names:
                continue
            rhs = re.sub(r"^" + cast, "", rhs.strip())
            m = re.match(r"PyTuple_GET_ITEM\(\s*([A-Za-z_]\w*)\s*,", rhs)
            m2 = re.fullmatch(r"([A-Za-z_]\w*)\s*->\s*\w+", rhs)
            if (m and m.group(1) in names) or (m2 and m2.group(1) in names) or \
                    (rhs.startswith("SIGNATURE(") and "signature" in names):
                names.add(lhs)
                changed = True
    return names


def translate_invoke(repo):
    """the events of general_invoke_callback() in source order (see INVOKE_HEAD)"""
    body = _invoke_body(repo)
    if len(re.findall(r"\bcb_args\s*=[^=]", body)) != 1 or "PyObject *cb_args = (PyObject *)userdata;" not in body:
        raise Untranslatable("general_invoke_callback: cb_args is not simply the userdata")
    for bad in ("Py_CLEAR(", "Py_SETREF(", "Py_XSETREF(", "Py_NewRef(", "Py_XNewRef(", "Py_XINCREF(cb_args"):
        if bad in body:
            raise Untranslatable("general_invoke_callback: %s is outside the translated subset" % bad)
    names = _borrowed_names(body)
    if not {"ct", "signature", "py_ob"} <= names:
        raise Untranslatable("general_invoke_callback: ct / signature / py_ob are not read from the tuple: %r" % sorted(names))
    found, taken = [], []
    for rx, ev in INVOKE_EVENTS:
        for m in re.finditer(rx, body):
            found.append((m.start(), ev))
            taken.append((m.start(), m.end()))
    for nm in names:
        if re.search(r"&\s*%s\b" % nm, body):
            raise Untranslatable("general_invoke_callback: address of %s taken" % nm)
    for m in re.finditer(r"\b(%s)\b(?!\s*\()" % "|".join(sorted(names)), body):
        if any(a <= m.start() < b for a, b in taken):
            continue                                            # the INCREF / DECREF of cb_args itself
        before, after = body[:m.start()].rstrip(), body[m.end():].lstrip()
        if before.endswith("*") and re.match(r"[;,]", after) and not before.endswith("**"):
            # `PyObject *x;` — but `a * x;` cannot occur as a statement here
            continue
        if re.match(r"=(?!=)", after):
            continue                                            # the local itself is (re)assigned
        found.append((m.start(), "GUse"))
    for m in re.finditer(r"\b([A-Za-z_]\w*)\s*\(", body):
        if any(a <= m.start() < b for a, b in taken):
            continue
        fn = m.group(1)
        if fn == "SIGNATURE":
            found.append((m.start(), "GUse"))
        elif fn not in INVOKE_PURE:
            found.append((m.start(), "GCall"))
    events = [ev for _, ev in sorted(found)]
    # shape: main part ; done: ... return; error: ... goto done;
    try:
        d, r, e, g = (events.index(x) for x in ("GDoneLabel", "GReturn", "GErrorLabel", "GGotoDone"))
    except ValueError as ex:
        raise Untranslatable("general_invoke_callback: %s" % ex)
    if not (d < r < e < g) or g != len(events) - 1 or [events.count(x) for x in (
            "GDoneLabel", "GReturn", "GErrorLabel", "GGotoDone")] != [1, 1, 1, 1] or "GFail" in events[d:]:
        raise Untranslatable("general_invoke_callback: control skeleton outside the translated shape: %r" % events)
    if not re.search(r"\bgoto\s+done\s*;\s*$", body):
        raise Untranslatable("general_invoke_callback: the function does not end with `goto done;`")
    if len(re.findall(r"\bgoto\b", body)) != events.count("GFail") + 1 or len(re.findall(r"\breturn\b", body)) != 1:
        raise Untranslatable("general_invoke_callback: a goto / return outside the translated shape")
    lines, cur = [], "  [ "
    for k, ev in enumerate(events):
        item = ev + ("; " if k + 1 < len(events) else " ].")
        if len(cur) + len(item) > 100:
            lines.append(cur.rstrip())
            cur = "    "
        cur += item
    lines.append(cur)
    return INVOKE_HEAD + "Definition invoke_events : list gev :=\n" + "\n".join(lines) + "\n"


def regen(ctx):
    from props import c35
    c35.regen_file(ctx, GEN, translate_more_core)
    c35.regen_file(ctx, GEN_INVOKE, translate_invoke)


def private_recheck(prop, gen_text, genfile="Gen.v", more=None):
    """compile the closure of coq/<prop>/Props.v in a private directory with gen_text as <prop>/Gen.v.
    (coq/<prop>/Gen.v is a shared file: a concurrent run of the same check on another tree — mutation tests —
    can replace it between this run's regeneration and its make.)  -> (ok, log)"""
    import shutil
    import subprocess
    d = vlib.mkscratch("coq")
    try:
        os.mkdir(os.path.join(d, prop))
        files = [f for f in vlib.coq_closure(prop + "/Props.v") if f.startswith(prop + "/")]
        deps = {}
        for f in files:
            over = dict(more or {})
            over[prop + "/" + genfile] = gen_text
            text = over[f] if f in over else open(os.path.join(vlib.COQ, f)).read()
            with open(os.path.join(d, f), "w") as out:
                out.write(text)
            deps[f] = {prop + "/" + m + ".v" for m in re.findall(r"\b%s\.(\w+)" % prop, vlib.strip_comments(text))} - {f}
        done, log = [], ""
        while len(done) < len(files):
            ready = [f for f in files if f not in done and deps[f] <= set(done)]
            if not ready:
                return False, "cyclic dependencies among %r" % files
            for f in ready:
                p = subprocess.run(["timeout", "600", "coqc", "-Q", d, "Cffi", os.path.join(d, f)],
                                   capture_output=True, text=True, cwd=d)
                if p.returncode != 0:
                    return False, (p.stdout + p.stderr)[-3000:]
                done.append(f)
        return True, log
    finally:
        shutil.rmtree(d, ignore_errors=True)
        if d in vlib._scratch_dirs:
            vlib._scratch_dirs.remove(d)


def settle_obligations(ctx, prop, gen, translate, gen2=None, translate2=None):
    """make the proof verdict independent of interference on the shared Gen.v: when the shared build and the
    regenerated text disagree (text == snapshot but the build failed, or text != snapshot but the build passed),
    the obligations are re-checked privately on this run's own regenerated text and that verdict is used"""
    if ctx.replay_mode or ctx.coq is None:
        return
    try:
        text = translate(vlib.REPO)
    except Untranslatable:
        return
    same = text == open(gen + ".snapshot").read()
    more = None
    if gen2 is not None:
        try:
            text2 = translate2(vlib.REPO)
        except Untranslatable:
            text2 = open(gen2 + ".snapshot").read()
        same = same and text2 == open(gen2 + ".snapshot").read()
        more = {prop + "/" + os.path.basename(gen2): text2}
    coq_ok = bool(ctx.coq.get("ok"))
    if same == coq_ok:
        return
    ok, log = private_recheck(prop, text, os.path.basename(gen), more)
    ctx.extra["private_recheck"] = dict(ok=ok, shared_build_ok=coq_ok, text_is_snapshot=same)
    if ok and not coq_ok:
        ctx.broken[:] = [b for b in ctx.broken if not (b[0] or "").startswith(prop)]
        ctx.coq["ok"], ctx.coq["discharged"] = True, ctx.coq["obligations"]
    elif not ok and coq_ok:
        ctx.obligation_broken("%s/Proofs.v on the regenerated %s/Gen.v (private re-check)" % (prop, prop), log)
        ctx.coq["ok"] = False
        ctx.coq["discharged"] = ctx.coq["obligations"] - sum(
            len(vlib.count_statements(f)) for f in ctx.coq.get("files", []) if f.endswith(("Proofs.v", "Props.v")))


class Gen:
    def __init__(self, rng):
        self.rng = rng
        self.ops = []
        self.live = []          # handles
        self.sig = {}
        self.fid = {}
        self.cyc = {}
        self.next_h = 1
        self.next_f = 1

    def create(self, cyc=None, sig=None):
        rng = self.rng
        h, f = self.next_h, self.next_f
        self.next_h += 1
        self.next_f += 1
        sig = rng.choice([0, 0, 1, 2, 3, 4, 5, 6, 7]) if sig is None else sig
        if cyc is None:
            cyc = rng.random() < 0.03
        self.ops.append(["create", h, f, sig, bool(cyc)])
        self.live.append(h)
        self.sig[h] = sig
        self.fid[h] = f
        self.cyc[h] = bool(cyc)

    def drop(self, h=None):
        if not self.live:
            return
        if h is None:
            i = self.rng.randrange(len(self.live))
            # bias towards the most recent ones as well as uniformly random ones
            if self.rng.random() < 0.3:
                i = len(self.live) - 1 - min(self.rng.randrange(4), len(self.live) - 1)
            h = self.live[i]
        self.live.remove(h)
        self.ops.append(["drop", h])

    def call(self, h=None):
        if not self.live:
            return
        if h is None:
            h = self.rng.choice(self.live)
        self.ops.append(["call", h, self.rng.randrange(0, 1000), self.rng.choice(["cdata", "c", "cast"])])

    def badcall(self, h=None):
        """invoke a live char32_t/wchar_t/_Bool callback from C with a value convert_to_object rejects"""
        cands = [x for x in self.live if self.sig[x] in (3, 4, 5)]
        if not cands:
            return None
        h = h if h is not None else self.rng.choice(cands)
        self.ops.append(["badcall", h, self.rng.randrange(3)])
        return h

    def selfdrop(self):
        """a live int(int) callback is entered from C through its bare address; its Python function drops the
        callback itself (last reference; gc.collect() for the ones in a cycle), optionally creates a new callback
        (LIFO: on the closure just freed), then returns / raises"""
        rng = self.rng
        # (not the ones in a reference cycle function -> holder -> callback -> info tuple -> function: the running
        # invocation's own reference to the tuple keeps that whole cycle alive, so nothing is freed during the call)
        cands = [h for h in self.live if self.sig[h] in (0, 6, 7) and not self.cyc[h]]
        if not cands:
            return
        h = rng.choice(cands)
        self.live.remove(h)
        new = None
        if rng.random() < 0.6:
            h2, f2, sig2 = self.next_h, self.next_f, rng.choice([0, 6, 6, 7])
            self.next_h += 1
            self.next_f += 1
            new = [h2, f2, sig2]
            self.live.append(h2)
            self.sig[h2], self.fid[h2], self.cyc[h2] = sig2, f2, False
        self.ops.append(["selfdrop", h, rng.randrange(1000), rng.choice(["return", "raise", "raise"]),
                         rng.choice(["c", "cast"]), new, self.fid[h]])

    def selfdrop_burst(self):
        rng = self.rng
        for _ in range(rng.choice([2, 4])):
            self.create(sig=rng.choice([6, 7, 0]), cyc=False)
        for _ in range(rng.choice([2, 5, 10])):
            self.selfdrop()
            if rng.random() < 0.5:
                self.create()
            if rng.random() < 0.3:
                self.call()
        self.sweep(1.0 if len(self.live) <= 400 else 0.3)

    def badcall_burst(self):
        """bad invocations of a few live callbacks, then new callbacks (whose info tuples would take the place of
        a tuple freed too early), then every live callback is called again"""
        rng = self.rng
        for _ in range(rng.choice([1, 2, 5])):
            self.create(sig=rng.choice([3, 4, 5]), cyc=False)
        victims = [self.badcall() for _ in range(rng.choice([1, 3, 6]))]
        for _ in range(rng.choice([2, 8, 30])):
            self.create(cyc=False)
            if rng.random() < 0.2:
                self.drop()
        for h in victims:
            if h in self.live:
                self.call(h)
        self.sweep(1.0 if len(self.live) <= 400 else 0.3)

    def sweep(self, frac=1.0):
        for h in list(self.live):
            if frac >= 1.0 or self.rng.random() < frac:
                self.call(h)


def gen_history(rng, target):
    g = Gen(rng)
    # phase 1: grow to `target` alive, with some churn on the way
    while len(g.live) < target:
        k = rng.random()
        if k < 0.80:
            g.create()
        elif k < 0.88:
            g.drop()
        elif k < 0.90:
            g.ops.append(["fail"])
        elif k < 0.92:
            g.badcall()
        elif k < 0.93:
            g.selfdrop()
        else:
            g.call()
    g.sweep(1.0 if target <= 1500 else 0.4)
    g.badcall_burst()
    g.selfdrop_burst()
    # phase 2: mass drop in random order, then re-create (LIFO order of the free list)
    victims = rng.sample(g.live, min(len(g.live), rng.choice([5, 40, target // 3 + 1])))
    for h in victims:
        g.drop(h)
    for _ in range(len(victims) + rng.choice([0, 3, 80])):
        g.create()
        if rng.random() < 0.05:
            g.ops.append(["fail"])
    g.sweep(0.5)
    # phase 3: churn around the current size (alternating drop/create keeps hitting the list head)
    for _ in range(rng.choice([50, 300, 800])):
        k = rng.random()
        if k < 0.4:
            g.create()
        elif k < 0.8:
            g.drop()
        elif k < 0.83:
            g.ops.append(["fail"])
        elif k < 0.86:
            g.badcall()
        elif k < 0.89:
            g.selfdrop()
        else:
            g.call()
    g.badcall_burst()
    g.selfdrop_burst()
    # phase 4: drop nearly everything, grow again past the previous high-water mark
    if rng.random() < 0.5:
        for h in rng.sample(g.live, len(g.live) * 9 // 10):
            g.drop(h)
        for _ in range(rng.choice([10, target // 2 + 1])):
            g.create()
    g.sweep(1.0 if len(g.live) <= 1500 else 0.4)
    return dict(ops=g.ops)


def generate(ctx):
    rng = ctx.rng
    targets = ctx.n([3, 80, 800, 2700], [3, 30, 75, 150, 230, 450, 800, 1200, 1800, 2700, 4000, 6000])
    # > 17694 alive at once reaches the 14th growth step (81 pages); cheap: no model steps, only arithmetic
    return [gen_history(rng, t) for t in targets] + [dict(bulk=ctx.n(20500, 60000))]


# ---------------------------------------------------------------- model literals

def c_ops(ops):
    out = []
    for op in ops:
        if op[0] == "badcall":
            continue            # an invocation does not touch the allocator model (its effect on the info
                                # tuple's reference count is C29.Refs; the outputs are checked by predicate())
        if op[0] == "create":
            out.append("Create %s %s" % (cn(op[1]), cn(op[2])))
        elif op[0] == "selfdrop":         # which function runs; the drop happens during the call; the new callback
            out += ["Call %s" % cn(op[1]), "Drop %s" % cn(op[1])]
            if op[5]:
                out.append("Create %s %s" % (cn(op[5][0]), cn(op[5][1])))
        elif op[0] == "fail":
            out.append("CreateFail")
        elif op[0] == "drop":
            out.append("Drop %s" % cn(op[1]))
        else:
            out.append("Call %s" % cn(op[1]))
    return clist(out)


def canon_outs(outs):
    seen, res = {}, []
    for o in outs:
        if o[0] == "errval":
            continue
        if o[0] == "addr":
            if o[1] not in seen:
                seen[o[1]] = len(seen)
            res.append("CAddr %s" % cn(seen[o[1]]))
        elif o[0] == "selfdrop":
            res += ["CFn %s" % cn(o[1]) if o[1] >= 0 else "CBad", "CBad" if o[4] else "CNone"]
            if o[3]:
                if o[3] not in seen:
                    seen[o[3]] = len(seen)
                res.append("CAddr %s" % cn(seen[o[3]]))
        elif o[0] == "fn":
            res.append("CFn %s" % cn(o[1]) if o[1] >= 0 else "CBad")
        elif o[0] == "none":
            res.append("CNone")
        elif o[0] == "err" and o[1] in ("NotImplementedError", "MemoryError"):
            res.append("CErr")
        else:
            res.append("CBad")
    return clist(res)


def predicate(case, outs):
    """-> list of (what, op index): the property on the implementation's own outputs"""
    bad = []
    live = {}          # h -> (addr, fid)
    by_addr = {}
    for i, (op, o) in enumerate(zip(case["ops"], outs)):
        if op[0] == "create":
            if o[0] != "addr":
                bad.append(("ffi.callback() failed: %r" % (o,), i))
                continue
            if o[1] in by_addr:
                bad.append(("new callback got address %#x which live callback #%d still has" % (o[1], by_addr[o[1]]), i))
            live[op[1]] = (o[1], op[2], op[3])
            by_addr[o[1]] = op[1]
        elif op[0] == "drop":
            a = live.pop(op[1], (None, None, None))[0]
            if by_addr.get(a) == op[1]:
                del by_addr[a]
        elif op[0] == "selfdrop":
            _, h, x, mode, route, new, _fid = op
            if h not in live:
                continue
            a, fid, sig = live.pop(h)
            if by_addr.get(a) == h:
                del by_addr[a]
            what = "callback #%d (function %d) entered from C, dropping itself while running and then %s" % (
                h, fid, "returning" if mode == "return" else "raising")
            if o[0] != "selfdrop":
                bad.append(("%s: %r" % (what, o), i))
                continue
            _, ran, r, new_addr, still = o
            want = fid * 7919 + x if mode == "return" else (0 if sig == 0 else -(1000 + fid))
            if ran != fid:
                bad.append(("%s: function %d ran" % (what, ran), i))
            elif r != want:
                bad.append(("%s: its C caller got %d instead of %s %d%s" % (
                    what, r, "the result" if mode == "return" else "its own error value", want,
                    " (that is the error value of the callback created meanwhile)"
                    if new and mode == "raise" and r == (0 if new[2] == 0 else -(1000 + new[1])) and r != want else ""), i))
            if new:
                if not new_addr:
                    bad.append(("%s: creating callback #%d inside it failed" % (what, new[0]), i))
                    continue
                if new_addr in by_addr:
                    bad.append(("new callback got address %#x which live callback #%d still has" % (new_addr, by_addr[new_addr]), i))
                live[new[0]] = (new_addr, new[1], new[2])
                by_addr[new_addr] = new[0]
        elif op[0] == "call":
            if op[1] not in live:
                continue
            a, fid, _sig = live[op[1]]
            if o[0] != "fn":
                bad.append(("calling live callback #%d (%s route) raised %r" % (op[1], op[3], o), i))
            elif o[1] != fid or not o[2]:
                bad.append(("calling live callback #%d created with function %d (%s route) ran function %d%s"
                            % (op[1], fid, op[3], o[1], "" if o[2] else " with a garbled value"), i))
        elif op[0] == "badcall":
            if op[1] in live and o != ["errval", 0]:
                bad.append(("invoking live callback #%d from C with an unconvertible argument gave %r instead of the "
                            "error value 0" % (op[1], o), i))
        elif op[0] == "fail":
            if o != ["err", "NotImplementedError"]:
                bad.append(("variadic ffi.callback() gave %r" % (o,), i))
    return bad


def run_one(ctx, case):
    s = ctx.scratch()
    payload = dict(case) if "bulk" in case else dict(ops=case["ops"])
    out, p = s.run_worker("c29_worker.py", payload, timeout=900)
    if out is None:
        if p.returncode == 1 and "Traceback" in p.stderr:
            raise RuntimeError("C29 worker: internal error: " + p.stderr[-1500:])
        last = 0
        for line in p.stderr.splitlines():
            if line.startswith(("OP ", "BULK ")):
                last = int(line.split()[1])
        return None, (p.returncode, last)
    return out, None


def geometry(ctx):
    """(pagesize, sizeof(ffi_closure)) from the gcc-compiled helper"""
    import ctypes
    import subprocess
    s = ctx.scratch()
    so = os.path.join(s.work, "c29_geom.so")
    if not os.path.exists(so):
        subprocess.check_call(["gcc", "-w", "-shared", "-fPIC", "-I/usr/include/ffi", "-o", so,
                               os.path.join(vlib.ROOT, "tools", "props", "c", "c29_helper.c")])
    lib = ctypes.CDLL(so)
    lib.c29_pagesize.restype = ctypes.c_long
    lib.c29_sizeof_closure.restype = ctypes.c_long
    return int(lib.c29_pagesize()), int(lib.c29_sizeof_closure())


def gen_arithmetic(ctx):
    """on the REGENERATED more_core() text (C29/Gen.v): the first growth step whose threaded items do not fit
    into its mapping (None if there is none within 60 steps), and the block sizes of the first 24 steps"""
    ps, bs = geometry(ctx)
    ok, text = vlib.coq_eval(["C29.Prog", "C29.Gen"],
                             "Eval vm_compute in first_overflow %s %s more_core_prog 60 0 0 0.\n"
                             "Eval vm_compute in block_counts %s %s more_core_prog 24 0.\n" % (cz(ps), cz(bs), cz(ps), cz(bs)))
    if not ok:
        return None, None, text
    chunks = re.split(r"^\s*= ", text, flags=re.M)[1:]
    m = re.search(r"Some \((\d+)%N, (\d+), (\d+), (\d+)\)", chunks[0])
    witness = tuple(int(x) for x in m.groups()) if m else None
    counts = [int(x) for x in re.findall(r"-?\d+", chunks[1].split(":")[0])]
    return witness, counts, None


def evaluate_bulk(ctx, case, counts):
    out, died = run_one(ctx, case)
    n = case["bulk"]
    if died:
        ctx.violation(case, "process died (rc=%s) while keeping %d callbacks alive at once (about %d were alive)"
                      % (died[0], n, died[1]))
        return
    ctx.count(n + out["called"])
    ctx.hist("bulk_alive", n)
    ctx.nontrivial(("bulk", n))
    if out["distinct"] != n:
        ctx.violation(case, "%d live callbacks have only %d distinct addresses" % (n, out["distinct"]))
    if out["outside"]:
        ctx.violation(case, "live callback #%d has its closure at %#x, outside every writable+executable mapping "
                            "of the process" % tuple(out["outside"][0]))
    if out["wrong"]:
        ctx.violation(case, "with %d callbacks alive, calling #%d (%s route) ran function %d" % (
            n, out["wrong"][0][0], out["wrong"][0][1], out["wrong"][0][2]))
    if counts:
        want, tot = [], 0
        for c in counts:
            tot += c
            if tot < n:
                want.append(tot)
        if out["breaks"] != want:
            ctx.mismatch(case, "block boundaries observed in the address sequence %r, the regenerated more_core() "
                               "arithmetic gives %r" % (out["breaks"][:20], want[:20]),
                         "C29.Gen.more_core_prog block sizes vs observed closure addresses")




def model_check(cases_outs):
    pairs = []
    for case, out in cases_outs:
        cfg = "{| pagesize := %s; blocksize := %s |}" % (cz(out["geom"]["pagesize"]), cz(out["geom"]["blocksize"]))
        pairs.append((cpair(cfg, c_ops(case["ops"])), cpair(canon_outs(out["outs"]), cn(0))))
    return vlib.coq_mismatches(["C29.Model"], "run_case",
                               "fun x y => list_eqb cout_eqb (fst x) (fst y)", pairs, shard=1, timeout=900)


def ddmin(ops, fails, max_rounds=40):
    n, rounds = 2, 0
    while len(ops) >= 2 and rounds < max_rounds:
        chunk = max(1, len(ops) // n)
        reduced = False
        for i in range(0, len(ops), chunk):
            rounds += 1
            if rounds > max_rounds:
                break
            cand = ops[:i] + ops[i + chunk:]
            if cand and fails(cand):
                ops, n, reduced = cand, max(n - 1, 2), True
                break
        if not reduced:
            if chunk == 1:
                break
            n = min(len(ops), n * 2)
    return ops


def consistent(ops):
    """drop the operations that refer to handles which the shrunk history no longer has"""
    live, out = set(), []
    for op in ops:
        if op[0] == "create":
            live.add(op[1])
        elif op[0] == "drop":
            if op[1] not in live:
                continue
            live.discard(op[1])
        elif op[0] in ("call", "badcall") and op[1] not in live:
            continue
        elif op[0] == "selfdrop":
            if op[1] not in live:
                continue
            live.discard(op[1])
            if op[5]:
                live.add(op[5][0])
        out.append(op)
    return out


def first_diff(case, out):
    """index of the first operation whose output differs between model and implementation"""
    cfg = "{| pagesize := %s; blocksize := %s |}" % (cz(out["geom"]["pagesize"]), cz(out["geom"]["blocksize"]))
    ok, text = vlib.coq_eval(["C29.Model"], "Eval vm_compute in first_diff_case %s %s.\n" % (
        cpair(cfg, c_ops(case["ops"])), canon_outs(out["outs"])), timeout=600)
    import re
    m = re.search(r"Some (\d+)", text)
    return int(m.group(1)) if ok and m else None


def shrink(ctx, case, kind, out=None):
    if kind == "model" and out is not None:
        i = first_diff(case, out)
        if i is not None:
            pos = []                                  # the model skips badcalls; a selfdrop is 2 or 3 model ops
            for k, op in enumerate(case["ops"]):
                pos += [k] * (0 if op[0] == "badcall" else (3 if op[5] else 2) if op[0] == "selfdrop" else 1)
            if i < len(pos):
                case = dict(ops=case["ops"][:pos[i] + 1])

    def fails(ops):
        c = dict(ops=consistent(ops))
        out, died = run_one(ctx, c)
        if kind == "crash":
            return died is not None
        if out is None:
            return False
        if kind == "predicate":
            return bool(predicate(c, out["outs"]))
        bad, _, err = model_check([(c, out)])
        return bool(bad)
    return dict(ops=consistent(ddmin(list(case["ops"]), fails, max_rounds=24 if kind != "model" else 16)))


def evaluate(ctx, cases):
    done = []
    bulk = [c for c in cases if "bulk" in c]
    cases = [c for c in cases if "bulk" not in c]
    if bulk:
        witness, counts, err = gen_arithmetic(ctx)
        if err:
            ctx.obligation_broken("C29 Gen evaluation", err)
        ctx.extra["gen_first_overflow"] = witness
        if witness and not ctx.replay_mode:
            step, total, fit, threaded = witness
            need = total + threaded + 10
            ctx.extra["gen_first_overflow_text"] = (
                "regenerated more_core(): growth step %d maps room for %d items but threads %d onto the free list; "
                "manifests with more than %d callbacks alive at once" % (step, fit, threaded, total))
            if need <= 400000:
                bulk = [dict(bulk=max(need, b["bulk"])) for b in bulk[:1]]
        for b in bulk:
            evaluate_bulk(ctx, b, counts)
    for case in cases:
        out, died = run_one(ctx, case)
        if died:
            # (only the first crash is shrunk: every attempt is a fresh process and a mutant that crashes once
            # crashes in most histories)
            small = shrink(ctx, case, "crash") if not ctx.replay_mode and not ctx.violations else case
            ctx.violation(small, "process died (rc=%s) near operation %d of a callback create/drop/call history"
                          % died)
            continue
        ctx.count(len(case["ops"]))
        bad = predicate(case, out["outs"])
        if bad:
            small = shrink(ctx, case, "predicate") if not ctx.replay_mode and len(ctx.violations) < 2 else case
            out2, _ = run_one(ctx, small)
            bad2 = predicate(small, out2["outs"]) if out2 else bad
            ctx.violation(small, "%s (operation #%d of a history of %d)" % (
                (bad2 or bad)[0][0], (bad2 or bad)[0][1], len(small["ops"])))
        # coverage accounting
        alive = peak = reuse = 0
        seen = set()
        for op, o in zip(case["ops"], out["outs"]):
            if op[0] == "create" and o[0] == "addr":
                alive += 1
                peak = max(peak, alive)
                if o[1] in seen:
                    reuse += 1
                    ctx.nontrivial(("reuse", len(done), op[1]))
                seen.add(o[1])
            elif op[0] == "drop":
                alive -= 1
            elif op[0] == "selfdrop" and o[0] == "selfdrop":
                alive -= 0 if op[5] else 1
                ctx.nontrivial(("selfdrop", len(done), op[1]))
                ctx.hist("selfdrop", "%s%s" % (op[3], "+create" if op[5] else ""))
                if op[5] and o[3] in seen:
                    reuse += 1
                seen.add(o[3])
        per_page = out["geom"]["pagesize"] // out["geom"]["blocksize"]
        ctx.hist("peak_alive", peak)
        ctx.hist("pages_crossed(peak/%d)" % per_page, peak // per_page)
        ctx.hist("reused_addresses", min(reuse, 5000) // 100 * 100)
        ctx.extra.setdefault("geometry", out["geom"])
        for op in case["ops"]:
            ctx.hist("op", op[0] if op[0] != "call" else "call:" + op[3])
        for op, o in zip(case["ops"], out["outs"]):
            if op[0] == "call" and peak > per_page:
                ctx.nontrivial(("call", len(done), op[1], op[3]))
        done.append((case, out))
    bad, outs, err = model_check(done)
    if err:
        ctx.obligation_broken("C29 model evaluation", err)
    for j in bad[:(0 if ctx.violations else 1)]:
        case, out = done[j]
        small = shrink(ctx, case, "model", out) if not ctx.replay_mode else case
        out2, _ = run_one(ctx, small)
        _, mo, _ = model_check([(small, out2)])
        ctx.mismatch(small, "model = %s ; implementation (addresses as first-appearance numbers) = %s" % (
            mo.get(0), canon_outs(out2["outs"])), "C29.Model.run vs malloc_closure.h/b_callback")
    for c in cases[:1]:
        ctx.sample(dict(ops=c["ops"][:40]))
    for b in bulk:
        ctx.sample(b)


def run(ctx):
    ctx.cov["rule"] = ("one fresh process per history; each history grows to a target number of live callbacks "
                       "(3 .. 2700 quick, .. 6000 thorough; 73 closures per 4096-byte page, page runs of 1,2,3,4,6,8,"
                       "11,15,20,27.. pages), with drops in random order (3% of callbacks in a reference cycle, freed by "
                       "gc.collect()), failed variadic creations, mass drop + re-creation, churn at the list head, "
                       "drop-to-10% and regrowth; live callbacks are called (three signatures; through the cdata, through "
                       "a cast function pointer, from a C helper) in sweeps over all live ones; self-dropping callbacks "
                       "(entered from C, drop themselves + gc.collect(), optionally create a callback on the freed "
                       "closure, return / raise; error values -(1000+fid), with/without onerror) in every phase and in "
                       "bursts. Non-trivial = a creation that reused a freed closure, a self-drop, or a call of a live "
                       "callback in a history that crossed a page boundary (distinct by history, handle, route). "
                       "evaluations = operations executed.")
    ctx.assumptions += [
        "coq/C29/Gen.v: the assignments to allocate_num_pages / count, the mmap() size and the threading-loop bound of "
        "more_core(), regenerated from src/c/malloc_closure.h (POSIX #ifdef branch) by a fail-closed statement parser; "
        "C29_gen_threaded_inside_mapping and C29_gen_matches_model are re-proved on it each run; if they break, "
        "first_overflow on the regenerated program gives the number of live callbacks at which it manifests and the "
        "bulk test is run with that many",
        "coq/C29/GenInvoke.v: the events of general_invoke_callback() regenerated in source order (fail closed): "
        "Py_INCREF/Py_DECREF of the info tuple cb_args, every read of cb_args or through a pointer borrowed from it "
        "(GUse; borrowed locals found by following x = PyTuple_GET_ITEM(borrowed, i) / x = borrowed->field), every "
        "call-out during which Python code may run (GCall: every called function outside a short known-pure list), the "
        "`goto error` exits, done:/error: labels, return and goto done; the two arms of an if/else are listed one after "
        "the other (over-approximation). C29_gen_invoke_paths_balanced and C29_gen_invoke_held_at_uses are re-proved "
        "on it each run and C29_tuple_alive_during_call / C29_no_use_after_free / C29_tuple_alive_while_live / "
        "C29_invoke_runs_own (C29/Refs.v) are instantiated with it: removing or misplacing the INCREF/DECREF pair "
        "breaks C29_gen_invoke_held_at_uses. Exercised by invocations from C with arguments convert_to_object "
        "rejects (char32_t/wchar_t above 0x10FFFF, _Bool bytes other than 0/1) and by SELF-DROPPING callbacks: entered "
        "from C through the bare closure address, the Python function deletes the callback's last reference, runs "
        "gc.collect(), (60%) creates a new callback (which must get the closure just freed: compared with the model as "
        "Call; Drop; Create), allocates 4-tuples whose item 2 is a recognisable bytes object, then returns or raises; "
        "the C caller must get the own result / the own error value (error=-(1000+fid), with and without onerror)",
        "C29/Refs.v is a hand model of the reference counting (tuple identities, suspension at call-outs); only its "
        "event list is tied to the source; that CPython frees a 4-tuple at count 0 and hands its memory to the next "
        "4-tuple is what makes the self-drop stream observe a missing INCREF (tuple free list, CPython 3.12)",
        "hand-written model C29/Model.v of malloc_closure.h + b_callback/cdataowninggc_dealloc; tied by this "
        "run's differential histories (addresses compared as first-appearance numbers)",
        "mmap() returns memory disjoint from every earlier mapping (built into the (block, slot) addresses)",
        "(Py_ssize_t)(n * 1.3) == floor(13 n / 10) for the page counts reached (double arithmetic)",
        "libffi: the trampoline at a closure's address passes that closure's user_data to invoke_callback",
        "single-threaded (GIL build): MALLOC_CLOSURE_LOCK is a no-op; CPython frees a callback when its last "
        "reference goes away, or at gc.collect() for reference cycles"]
    settle_obligations(ctx, "C29", GEN, translate_more_core, GEN_INVOKE, translate_invoke)
    evaluate(ctx, generate(ctx))


MANIFEST = dict(
    technique="Coq proof (allocator invariant by induction over all create/fail/drop/call histories, unbounded "
              "page growth; reference-count layer with invocations suspended at call-outs, by induction over all "
              "histories including a callback dropped while it runs; the arithmetic of more_core() and the "
              "INCREF/DECREF/use/call-out events of general_invoke_callback() regenerated from the source text on every "
              "run) + differential histories on real callbacks crossing page boundaries, self-dropping callbacks, "
              "> 20000 callbacks alive at once",
    text="Proof (C29/Model.v, Proofs.v; hand model of malloc_closure.h free_list / more_core / alloc / free and of "
         "b_callback / cdataowninggc_dealloc): C29_invariant (free list and live closure addresses duplicate-free and "
         "disjoint, inside mapped blocks, user_data binding), C29_create_fresh, C29_live_distinct, "
         "C29_call_runs_creator (from creation to drop a call runs the function it was created with), C29_lifo_reuse, "
         "C29_create_fail_no_leak, C29_grows_only_when_empty, C29_growth_amount. On the REGENERATED more_core() text "
         "(C29/Gen.v): C29_gen_threaded_inside_mapping, C29_gen_matches_model, C29_gen_no_overflow. On the REGENERATED "
         "event list of general_invoke_callback() (C29/GenInvoke.v): C29_gen_invoke_paths_balanced (every path leaves "
         "the tuple's count unchanged, never below) and C29_gen_invoke_held_at_uses (on every path the function holds "
         "its own reference at every call-out and, from the first call-out on, at every read of the tuple or through "
         "a pointer borrowed from it; it holds none at return). Reference-count layer (C29/Refs.v, hand model; tuples "
         "have identities, invocations are suspended at every call-out: RInvokeEnter / RInvokeExit with any operation "
         "in between — Drop of the running callback, creations re-using its closure address, nested/recursive "
         "invocations): C29_tuple_alive_during_call (every invocation in flight has its tuple allocated, count >= 1), "
         "C29_no_use_after_free (no path ever touches a freed tuple), C29_held_at_uses_suffices (both follow from "
         "held_at_uses of ANY event list), C29_tuple_alive_while_live, C29_invoke_runs_own. Examples (finite "
         "computations): C29_example_self_drop, C29_example_no_incref_is_caught (the event list without INCREF/DECREF "
         "is balanced, not held, and the model run reads a freed tuple), C29_example_unbalanced_path, "
         "C29_example_overflow_found, C29_example. The bound object is the infotuple (signature + function), so 'own "
         "function with own signature' is one binding in the model; that calling from C, through the cdata and through a "
         "cast pointer all reach that binding (libffi, cdata_call) is decided by the correspondence run only (exact "
         "result values for three signatures). Correspondence only: allocator model vs real histories (addresses as "
         "first-appearance numbers), self-dropping callbacks (own result / own error value at the C caller, closure "
         "re-used by the callback created meanwhile), unconvertible arguments, bulk run.",
    note="Trusted: Coq kernel; hand models C29/Model.v (differential tie) and C29/Refs.v (only its event list is "
         "regenerated; Drop = one decrement + user_data cleared; cdataowninggc_clear, b_callback's user_data = NULL "
         "and its user_data != infotuple check are not separate operations); the known-pure function list of "
         "translate_invoke; mmap freshness; libffi trampolines; gcc for the C helper; CPython refcounting, "
         "gc.collect() and tuple free list. Not regenerated: cffi_closure_alloc/free list statements (threading "
         "loop body matched fail-closed). Theorems closed under the global context.",
    design_ref="DESIGN.md §4 C29")
