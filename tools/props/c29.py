"""C29 — callback closures stay distinct and bound to their own function.

Tie: random create / failed-create / drop / call histories on real ffi.callback objects (one fresh
process per history, because the closure allocator is process-global), crossing several
page-growth boundaries with thousands alive, dropping in random order (also through reference
cycles + gc.collect()), re-creating (LIFO reuse), and calling live callbacks through the cdata,
through a cast function pointer and from C (helper .so).  Addresses are canonicalised to
first-appearance numbers and compared with the Coq model C29.Model.run_case.  Independently of
the model: live callbacks have pairwise distinct addresses at every moment, and every call ran
exactly its own function with its own signature (exact result value).
"""
import json

from lib import vlib
from lib.vlib import cn, cz, clist, cpair

ID = "C29"


class Gen:
    def __init__(self, rng):
        self.rng = rng
        self.ops = []
        self.live = []          # handles
        self.sig = {}
        self.next_h = 1
        self.next_f = 1

    def create(self, cyc=None):
        rng = self.rng
        h, f = self.next_h, self.next_f
        self.next_h += 1
        self.next_f += 1
        sig = rng.choice([0, 0, 1, 2])
        if cyc is None:
            cyc = rng.random() < 0.03
        self.ops.append(["create", h, f, sig, bool(cyc)])
        self.live.append(h)
        self.sig[h] = sig

    def drop(self, h=None):
        if not self.live:
            return
        if h is None:
            i = self.rng.randrange(len(self.live))
            # bias towards the most recent ones as well as uniformly random ones
            if self.rng.random() < 0.3:
                i = len(self.live) - 1 - min(self.rng.randrange(4), len(self.live) - 1)
            h = self.live[i]
        self.live.remove(h)
        self.ops.append(["drop", h])

    def call(self, h=None):
        if not self.live:
            return
        if h is None:
            h = self.rng.choice(self.live)
        self.ops.append(["call", h, self.rng.randrange(0, 1000), self.rng.choice(["cdata", "c", "cast"])])

    def sweep(self, frac=1.0):
        for h in list(self.live):
            if frac >= 1.0 or self.rng.random() < frac:
                self.call(h)


def gen_history(rng, target):
    g = Gen(rng)
    # phase 1: grow to `target` alive, with some churn on the way
    while len(g.live) < target:
        k = rng.random()
        if k < 0.80:
            g.create()
        elif k < 0.88:
            g.drop()
        elif k < 0.90:
            g.ops.append(["fail"])
        else:
            g.call()
    g.sweep(1.0 if target <= 1500 else 0.4)
    # phase 2: mass drop in random order, then re-create (LIFO order of the free list)
    victims = rng.sample(g.live, min(len(g.live), rng.choice([5, 40, target // 3 + 1])))
    for h in victims:
        g.drop(h)
    for _ in range(len(victims) + rng.choice([0, 3, 80])):
        g.create()
        if rng.random() < 0.05:
            g.ops.append(["fail"])
    g.sweep(0.5)
    # phase 3: churn around the current size (alternating drop/create keeps hitting the list head)
    for _ in range(rng.choice([50, 300, 800])):
        k = rng.random()
        if k < 0.4:
            g.create()
        elif k < 0.8:
            g.drop()
        elif k < 0.83:
            g.ops.append(["fail"])
        else:
            g.call()
    # phase 4: drop nearly everything, grow again past the previous high-water mark
    if rng.random() < 0.5:
        for h in rng.sample(g.live, len(g.live) * 9 // 10):
            g.drop(h)
        for _ in range(rng.choice([10, target // 2 + 1])):
            g.create()
    g.sweep(1.0 if len(g.live) <= 1500 else 0.4)
    return dict(ops=g.ops)


def generate(ctx):
    rng = ctx.rng
    targets = ctx.n([3, 80, 800, 2700], [3, 30, 75, 150, 230, 450, 800, 1200, 1800, 2700, 4000, 6000])
    return [gen_history(rng, t) for t in targets]


# ---------------------------------------------------------------- model literals

def c_ops(ops):
    out = []
    for op in ops:
        if op[0] == "create":
            out.append("Create %s %s" % (cn(op[1]), cn(op[2])))
        elif op[0] == "fail":
            out.append("CreateFail")
        elif op[0] == "drop":
            out.append("Drop %s" % cn(op[1]))
        else:
            out.append("Call %s" % cn(op[1]))
    return clist(out)


def canon_outs(outs):
    seen, res = {}, []
    for o in outs:
        if o[0] == "addr":
            if o[1] not in seen:
                seen[o[1]] = len(seen)
            res.append("CAddr %s" % cn(seen[o[1]]))
        elif o[0] == "fn":
            res.append("CFn %s" % cn(o[1]) if o[1] >= 0 else "CBad")
        elif o[0] == "none":
            res.append("CNone")
        elif o[0] == "err" and o[1] in ("NotImplementedError", "MemoryError"):
            res.append("CErr")
        else:
            res.append("CBad")
    return clist(res)


def predicate(case, outs):
    """-> list of (what, op index): the property on the implementation's own outputs"""
    bad = []
    live = {}          # h -> (addr, fid)
    by_addr = {}
    for i, (op, o) in enumerate(zip(case["ops"], outs)):
        if op[0] == "create":
            if o[0] != "addr":
                bad.append(("ffi.callback() failed: %r" % (o,), i))
                continue
            if o[1] in by_addr:
                bad.append(("new callback got address %#x which live callback #%d still has" % (o[1], by_addr[o[1]]), i))
            live[op[1]] = (o[1], op[2])
            by_addr[o[1]] = op[1]
        elif op[0] == "drop":
            a, _ = live.pop(op[1], (None, None))
            if by_addr.get(a) == op[1]:
                del by_addr[a]
        elif op[0] == "call":
            if op[1] not in live:
                continue
            a, fid = live[op[1]]
            if o[0] != "fn":
                bad.append(("calling live callback #%d (%s route) raised %r" % (op[1], op[3], o), i))
            elif o[1] != fid or not o[2]:
                bad.append(("calling live callback #%d created with function %d (%s route) ran function %d%s"
                            % (op[1], fid, op[3], o[1], "" if o[2] else " with a garbled value"), i))
        elif op[0] == "fail":
            if o != ["err", "NotImplementedError"]:
                bad.append(("variadic ffi.callback() gave %r" % (o,), i))
    return bad


def run_one(ctx, case):
    s = ctx.scratch()
    out, p = s.run_worker("c29_worker.py", dict(ops=case["ops"]), timeout=900)
    if out is None:
        if p.returncode == 1 and "Traceback" in p.stderr:
            raise RuntimeError("C29 worker: internal error: " + p.stderr[-1500:])
        last = 0
        for line in p.stderr.splitlines():
            if line.startswith("OP "):
                last = int(line[3:])
        return None, (p.returncode, last)
    return out, None


def model_check(cases_outs):
    pairs = []
    for case, out in cases_outs:
        cfg = "{| pagesize := %s; blocksize := %s |}" % (cz(out["geom"]["pagesize"]), cz(out["geom"]["blocksize"]))
        pairs.append((cpair(cfg, c_ops(case["ops"])), cpair(canon_outs(out["outs"]), cn(0))))
    return vlib.coq_mismatches(["C29.Model"], "run_case",
                               "fun x y => list_eqb cout_eqb (fst x) (fst y)", pairs, shard=1, timeout=900)


def ddmin(ops, fails, max_rounds=40):
    n, rounds = 2, 0
    while len(ops) >= 2 and rounds < max_rounds:
        chunk = max(1, len(ops) // n)
        reduced = False
        for i in range(0, len(ops), chunk):
            rounds += 1
            if rounds > max_rounds:
                break
            cand = ops[:i] + ops[i + chunk:]
            if cand and fails(cand):
                ops, n, reduced = cand, max(n - 1, 2), True
                break
        if not reduced:
            if chunk == 1:
                break
            n = min(len(ops), n * 2)
    return ops


def consistent(ops):
    """drop the operations that refer to handles which the shrunk history no longer has"""
    live, out = set(), []
    for op in ops:
        if op[0] == "create":
            live.add(op[1])
        elif op[0] == "drop":
            if op[1] not in live:
                continue
            live.discard(op[1])
        elif op[0] == "call" and op[1] not in live:
            continue
        out.append(op)
    return out


def first_diff(case, out):
    """index of the first operation whose output differs between model and implementation"""
    cfg = "{| pagesize := %s; blocksize := %s |}" % (cz(out["geom"]["pagesize"]), cz(out["geom"]["blocksize"]))
    ok, text = vlib.coq_eval(["C29.Model"], "Eval vm_compute in first_diff_case %s %s.\n" % (
        cpair(cfg, c_ops(case["ops"])), canon_outs(out["outs"])), timeout=600)
    import re
    m = re.search(r"Some (\d+)", text)
    return int(m.group(1)) if ok and m else None


def shrink(ctx, case, kind, out=None):
    if kind == "model" and out is not None:
        i = first_diff(case, out)
        if i is not None:
            case = dict(ops=case["ops"][:i + 1])

    def fails(ops):
        c = dict(ops=consistent(ops))
        out, died = run_one(ctx, c)
        if kind == "crash":
            return died is not None
        if out is None:
            return False
        if kind == "predicate":
            return bool(predicate(c, out["outs"]))
        bad, _, err = model_check([(c, out)])
        return bool(bad)
    return dict(ops=consistent(ddmin(list(case["ops"]), fails, max_rounds=40 if kind != "model" else 16)))


def evaluate(ctx, cases):
    done = []
    for case in cases:
        out, died = run_one(ctx, case)
        if died:
            small = shrink(ctx, case, "crash") if not ctx.replay_mode else case
            ctx.violation(small, "process died (rc=%s) near operation %d of a callback create/drop/call history"
                          % died)
            continue
        ctx.count(len(case["ops"]))
        bad = predicate(case, out["outs"])
        if bad:
            small = shrink(ctx, case, "predicate") if not ctx.replay_mode and len(ctx.violations) < 2 else case
            out2, _ = run_one(ctx, small)
            bad2 = predicate(small, out2["outs"]) if out2 else bad
            ctx.violation(small, "%s (operation #%d of a history of %d)" % (
                (bad2 or bad)[0][0], (bad2 or bad)[0][1], len(small["ops"])))
        # coverage accounting
        alive = peak = reuse = 0
        seen = set()
        for op, o in zip(case["ops"], out["outs"]):
            if op[0] == "create" and o[0] == "addr":
                alive += 1
                peak = max(peak, alive)
                if o[1] in seen:
                    reuse += 1
                    ctx.nontrivial(("reuse", len(done), op[1]))
                seen.add(o[1])
            elif op[0] == "drop":
                alive -= 1
        per_page = out["geom"]["pagesize"] // out["geom"]["blocksize"]
        ctx.hist("peak_alive", peak)
        ctx.hist("pages_crossed(peak/%d)" % per_page, peak // per_page)
        ctx.hist("reused_addresses", min(reuse, 5000) // 100 * 100)
        ctx.extra.setdefault("geometry", out["geom"])
        for op in case["ops"]:
            ctx.hist("op", op[0] if op[0] != "call" else "call:" + op[3])
        for op, o in zip(case["ops"], out["outs"]):
            if op[0] == "call" and peak > per_page:
                ctx.nontrivial(("call", len(done), op[1], op[3]))
        done.append((case, out))
    bad, outs, err = model_check(done)
    if err:
        ctx.obligation_broken("C29 model evaluation", err)
    for j in bad[:(0 if ctx.violations else 1)]:
        case, out = done[j]
        small = shrink(ctx, case, "model", out) if not ctx.replay_mode else case
        out2, _ = run_one(ctx, small)
        _, mo, _ = model_check([(small, out2)])
        ctx.mismatch(small, "model = %s ; implementation (addresses as first-appearance numbers) = %s" % (
            mo.get(0), canon_outs(out2["outs"])), "C29.Model.run vs malloc_closure.h/b_callback")
    for c in cases[:1]:
        ctx.sample(dict(ops=c["ops"][:40]))


def run(ctx):
    ctx.cov["rule"] = ("one fresh process per history; each history grows to a target number of live callbacks "
                       "(3 .. 2700 quick, .. 6000 thorough; 73 closures per 4096-byte page, page runs of 1,2,3,4,6,8,"
                       "11,15,20,27.. pages), with drops in random order (3% of callbacks in a reference cycle, freed by "
                       "gc.collect()), failed variadic creations, mass drop + re-creation, churn at the list head, "
                       "drop-to-10% and regrowth; live callbacks are called (three signatures; through the cdata, through "
                       "a cast function pointer, from a C helper) in sweeps over all live ones. Non-trivial = a creation "
                       "that reused a freed closure, or a call of a live callback in a history that crossed a page "
                       "boundary (distinct by history, handle, route). evaluations = operations executed.")
    ctx.assumptions += [
        "hand-written model C29/Model.v of malloc_closure.h + b_callback/cdataowninggc_dealloc; tied by this "
        "run's differential histories (addresses compared as first-appearance numbers)",
        "mmap() returns memory disjoint from every earlier mapping (built into the (block, slot) addresses)",
        "(Py_ssize_t)(n * 1.3) == floor(13 n / 10) for the page counts reached (double arithmetic)",
        "libffi: the trampoline at a closure's address passes that closure's user_data to invoke_callback",
        "single-threaded (GIL build): MALLOC_CLOSURE_LOCK is a no-op; CPython frees a callback when its last "
        "reference goes away, or at gc.collect() for reference cycles"]
    evaluate(ctx, generate(ctx))


MANIFEST = dict(
    technique="Coq proof (allocator invariant by induction over all create/fail/drop/call histories, unbounded "
              "page growth) + differential histories on real callbacks crossing page boundaries",
    text="Proof: in the model of malloc_closure.h (free_list, more_core growth, alloc/free) and of b_callback / "
         "cdataowninggc_dealloc, every reachable state has a duplicate-free free list disjoint from the "
         "duplicate-free set of live closure addresses; each allocation returns an address no live callback has; "
         "from creation to drop, calling a callback runs the function it was created with (user_data binding); "
         "reuse is LIFO; the error path of ffi.callback() returns the closure. The bound object is the infotuple "
         "(signature + function), so 'own function with own signature' is one binding in the model; that calling "
         "from C, through the cdata and through a cast pointer all reach that binding (libffi, cdata_call) is decided "
         "by the correspondence run only (exact result values for three signatures). Tied to the code by random histories "
         "with thousands alive, calls through the cdata, a cast pointer and from C.",
    note="Trusted: Coq kernel; hand model C29/Model.v (differential tie); mmap freshness; libffi trampolines; "
         "gcc for the C helper; CPython refcounting/gc.collect(). Theorems closed under the global context.",
    design_ref="DESIGN.md §4 C29")
