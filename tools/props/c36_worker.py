"""C36 worker: foreign pthreads (created by the C helper, not by Python) invoke a ffi.callback in
model-chosen orders; callbacks overlap (the body blocks on an Event until the harness ends it);
threads exit in model-chosen order; gc.collect() and callbacks from the Python main thread are
interleaved as noise.  Observed per macro event: which threading.local token the callback saw
(tokens are numbered in creation order = order of thread-state creation), and which threads' tokens
have been destroyed so far (their thread state was cleared).  Runs in a subprocess: a crash of the
process is the observation "process did not survive".  No sleeping: every wait is on an Event /
semaphore signalled by the awaited action."""
import ctypes
import gc
import os
import queue
import subprocess
import sys
import threading
import weakref

C_SRC = os.path.join(os.environ.get("VERIF_ROOT", "/verif"), "tools", "props", "c", "c36_helper.c")
CDEF = """int c36_start(int i, int (*cb)(int)); int c36_call_async(int i); int c36_wait(int i);
int c36_call(int i); int c36_exit(int i); int c36_direct(int (*cb)(int), int x); int c36_own(int i, int arg);"""
NESTED = 50000


class Token(object):
    def __init__(self, num):
        self.num = num


class H:
    pass


def setup():
    import cffi
    work = os.environ["VERIF_WORK"]
    so = os.path.join(work, "libc36helper.so")
    if not os.path.exists(so):
        tmp = so + ".%d.tmp" % os.getpid()
        subprocess.check_call(["gcc", "-O1", "-shared", "-fPIC", "-pthread", "-o", tmp, C_SRC])
        os.rename(tmp, so)
    h = H()
    h.ffi = cffi.FFI()
    h.ffi.cdef(CDEF)
    h.lib = h.ffi.dlopen(so)
    h.tlocal = threading.local()
    h.case = None

    def cb(slot):
        c = h.case
        if slot >= 100000:          # noise: a callback made by the Python main thread / a fresh own-bracket thread
            return 7
        if slot >= NESTED:
            # entered with the GIL already held (nested in an outer callback through a ctypes PYFUNCTYPE pointer,
            # or inside the thread's own PyGILState_Ensure bracket): same thread state, same thread-local data
            t = slot - NESTED - c.base
            tok = getattr(h.tlocal, "token", None)
            c.seen_nested[t] = tok.num if tok is not None else -1
            return 11
        t = slot - c.base
        tok = getattr(h.tlocal, "token", None)
        if tok is None:
            tok = Token(c.ntok)
            c.ntok += 1
            h.tlocal.token = tok
            c.owner[tok.num] = t
            weakref.finalize(tok, c.dead.add, tok.num)
        c.seen[t] = tok.num
        c.entered[t].set()
        while True:
            try:
                cmd = c.cmds[t].get(timeout=c.timeout)
            except queue.Empty:
                c.errors.append("callback of thread %d was never released" % t)
                break
            if cmd == "end":
                break
            if cmd == "nest":
                r = h.pyfunc(NESTED + slot)
                if r != 11:
                    c.errors.append("nested callback of thread %d returned %r" % (t, r))
                c.acks[t].set()
            if cmd == "drop":
                # some code holding the GIL removes the canary from this thread's thread-state dict
                # (what PyThreadState_Clear would do): thread_canary_dealloc runs now, the thread lives on
                d = h.getdict()
                c.dropped_ok[t] = d.pop("cffi.thread.canary", None) is not None
                c.acks[t].set()
        return tok.num
    _gd = ctypes.pythonapi.PyThreadState_GetDict      # returns a BORROWED reference
    _gd.restype = ctypes.c_void_p
    _gd.argtypes = []
    h.getdict = lambda: ctypes.cast(_gd(), ctypes.py_object).value
    h.cbptr = h.ffi.callback("int(int)", cb)
    # the same C function pointer, called WITHOUT releasing the GIL
    h.pyfunc = ctypes.PYFUNCTYPE(ctypes.c_int, ctypes.c_int)(int(h.ffi.cast("intptr_t", h.cbptr)))
    return h


class Case:
    pass


def run_case(h, case, base, timeout):
    n = case["n"]
    c = Case()
    c.base, c.ntok, c.owner, c.dead, c.seen, c.errors, c.timeout = base, 0, {}, set(), {}, [], timeout
    c.entered = [threading.Event() for _ in range(n)]
    c.cmds = [queue.SimpleQueue() for _ in range(n)]
    c.acks = [threading.Event() for _ in range(n)]
    c.dropped_ok = {}
    c.seen_nested = {}
    h.case = c
    started, obs = set(), []
    lib = h.lib
    for ev in case["events"]:
        kind, t = ev[0], ev[1]
        first = 0
        if kind == "cb":
            if t not in started:
                if lib.c36_start(base + t, h.cbptr) != 0:
                    return dict(status="harness: pthread_create failed", obs=obs)
                started.add(t)
            c.entered[t].clear()
            lib.c36_call_async(base + t)
            if not c.entered[t].wait(timeout):
                return dict(status="timeout", detail="callback of thread %d did not start" % t, obs=obs)
            first = c.seen[t] + 1
        elif kind == "drop":
            c.acks[t].clear()
            c.cmds[t].put("drop")
            if not c.acks[t].wait(timeout):
                return dict(status="timeout", detail="thread %d did not perform the drop" % t, obs=obs)
            if not c.dropped_ok.get(t):
                c.errors.append("thread %d had no cffi.thread.canary entry in its thread-state dict" % t)
        elif kind == "nest":
            c.acks[t].clear()
            c.seen_nested.pop(t, None)
            c.cmds[t].put("nest")
            if not c.acks[t].wait(timeout):
                return dict(status="timeout", detail="thread %d did not perform the nested callback" % t, obs=obs)
            first = c.seen_nested.get(t, -1) + 1
        elif kind == "own":
            c.seen_nested.pop(t, None)
            r = lib.c36_own(base + t, NESTED + base + t)
            if r != 11:
                c.errors.append("own-bracket callback of thread %d returned %r" % (t, r))
            first = c.seen_nested.get(t, -1) + 1
        elif kind == "ownfresh":
            # not a model event: a thread that never called back brackets a callback with its own
            # PyGILState_Ensure/Release (its thread state is created and destroyed by CPython)
            slot = base + n + t
            if lib.c36_start(slot, h.cbptr) != 0 or lib.c36_own(slot, 100000) != 7 or lib.c36_exit(slot) != 0:
                c.errors.append("fresh own-bracket thread failed")
            continue
        elif kind == "end":
            c.cmds[t].put("end")
            r = lib.c36_wait(base + t)
            if r != c.seen[t]:
                c.errors.append("callback of thread %d returned %r" % (t, r))
        elif kind == "exit":
            if t not in started:
                lib.c36_start(base + t, h.cbptr)
                started.add(t)
            lib.c36_exit(base + t)
        elif kind == "gc":
            gc.collect()
            continue
        elif kind == "pycb":
            if lib.c36_direct(h.cbptr, 100000) != 7:
                c.errors.append("callback from the Python thread failed")
            continue
        dead_threads = {c.owner[k] for k in c.dead}
        obs.append([first] + [1 if u in dead_threads else 0 for u in range(n)] + [0])
    return dict(status="ok" if not c.errors else "error: " + "; ".join(c.errors[:3]), obs=obs,
                alive_at_end=sorted(t for t in started if not any(e[0] == "exit" and e[1] == t for e in case["events"])))


def main(payload):
    h = setup()
    out = []
    prog = payload.get("progress")
    base = 0
    for i, case in enumerate(payload["cases"]):
        if prog:
            with open(prog, "w") as f:
                f.write("%d" % i)
        out.append(run_case(h, case, base, payload.get("timeout", 30)))
        base += 2 * case["n"] + 2
    if prog:
        with open(prog, "w") as f:
            f.write("done")
    return dict(results=out)


if __name__ == "__main__":
    from lib.vlib import worker_main
    worker_main(main)
    # interpreter finalization with foreign threads still alive (idle) and zombie thread states pending
    sys.stdout.flush()
