"""C25 worker: build real modules from identifier sets; look every name up; try near misses."""
import importlib.util
import os
import sys

import cffi
from lib.vlib import worker_main


def near(names):
    out = set()
    for n in names:
        out.add(n + "_")
        out.add(n + "0")
        if len(n) > 1:
            out.add(n[:-1])
        out.add(n[:-1] + ("b" if n[-1] != "b" else "c"))
    return sorted(x for x in out if x not in names and x and not x[0].isdigit())


def one(case, idx):
    names = case["names"]
    failures, lookups = [], 0
    ffi = cffi.FFI()
    # each name is used in four namespaces: constant, typedef (distinct array length), struct, enum
    cdef = []
    for i, n in enumerate(names):
        cdef.append("#define %s %d" % ("k" + n, 1000 + i))
        cdef.append("typedef char %s[%d];" % ("t" + n, i + 1))
        cdef.append("struct %s { char x[%d]; };" % ("s" + n, i + 1))
        cdef.append("enum %s { %s = %d };" % ("e" + n, "v" + n, 5000 + i))
    ffi.cdef("\n".join(cdef))
    modname = "_c25_mod_%d" % idx
    work = os.environ["VERIF_WORK"]
    if case["mode"] == "abi":
        ffi.set_source(modname, None)
        path = os.path.join(work, modname + ".py")
        ffi.emit_python_code(path)
        spec = importlib.util.spec_from_file_location(modname, path)
        mod = importlib.util.module_from_spec(spec)
        spec.loader.exec_module(mod)
        ffi2, lib = mod.ffi, None
    else:
        src = "\n".join(l for l in cdef if not l.startswith("#define")) + "\n" + \
              "\n".join(l for l in cdef if l.startswith("#define"))
        ffi.set_source(modname, src)
        ffi.compile(tmpdir=work)
        sys.path.insert(0, work)
        mod = importlib.import_module(modname)
        ffi2, lib = mod.ffi, mod.lib
    for i, n in enumerate(names):
        lookups += 4
        try:
            v = ffi2.integer_const("k" + n)
            if v != 1000 + i:
                failures.append("constant k%s resolves to %r, declared %d" % (n, v, 1000 + i))
            if lib is not None and getattr(lib, "k" + n) != 1000 + i:
                failures.append("lib.k%s wrong" % n)
        except Exception as e:
            failures.append("constant k%s not found: %s: %s" % (n, type(e).__name__, e))
        try:
            if ffi2.sizeof("t" + n) != i + 1:
                failures.append("typedef t%s resolves to another entry (size %d, declared %d)"
                                % (n, ffi2.sizeof("t" + n), i + 1))
        except Exception as e:
            failures.append("typedef t%s not found: %s: %s" % (n, type(e).__name__, e))
        # the same names inside longer type strings (the identifier is followed by '[', ' ', '*', ')' ...)
        for ts, want in (("t%s[2]" % n, 2 * (i + 1)), ("struct s%s[3]" % n, 3 * (i + 1)),
                         ("t%s(*)[1]" % n, 8), ("enum e%s*" % n, 8), ("char[k%s]" % n, 1000 + i),
                         ("void(*)(t%s*,struct s%s)" % (n, n), 8)):
            lookups += 1
            try:
                if ffi2.sizeof(ts) != want:
                    failures.append("sizeof(%r) = %d, expected %d" % (ts, ffi2.sizeof(ts), want))
            except Exception as e:
                failures.append("type string %r: a declared name was not found: %s: %s" % (ts, type(e).__name__, e))
        try:
            if ffi2.sizeof("struct s" + n) != i + 1:
                failures.append("struct s%s resolves to another entry" % n)
        except Exception as e:
            failures.append("struct s%s not found: %s: %s" % (n, type(e).__name__, e))
        try:
            t = ffi2.typeof("enum e" + n)
            if t.relements != {"v" + n: 5000 + i}:
                failures.append("enum e%s resolves to another entry: %r" % (n, t.relements))
            if ffi2.integer_const("v" + n) != 5000 + i:
                failures.append("enumerator v%s wrong" % n)
        except Exception as e:
            failures.append("enum e%s not found: %s: %s" % (n, type(e).__name__, e))
    for n in near(names):
        lookups += 4
        for what, fn in (("constant k" + n, lambda: ffi2.integer_const("k" + n)),
                         ("typedef t" + n, lambda: ffi2.typeof("t" + n)),
                         ("struct s" + n, lambda: ffi2.typeof("struct s" + n)),
                         ("enum e" + n, lambda: ffi2.typeof("enum e" + n))):
            try:
                fn()
                failures.append("undeclared %s was found" % what)
            except (ffi2.error, AttributeError):
                pass
            except Exception as e:
                failures.append("undeclared %s: unexpected %s" % (what, type(e).__name__))
    return dict(lookups=lookups, failures=failures[:10])


def samename(case, idx):
    """The SAME identifier declared in several name spaces of one cdef: struct n, enum n, typedef n (three different
    tables of the module) and, for case["clash"], union n as well (a second record with the key n in _struct_unions).
    Every declared tag / typedef must be found and resolve to its own entry, as it does in the in-line FFI."""
    names, clash = case["names"], case.get("clash")
    failures, lookups = [], 0
    ffi = cffi.FFI()
    cdef = []
    for i, n in enumerate(names):
        cdef.append("struct %s { char x[%d]; };" % (n, 2 * i + 3))
        cdef.append("enum %s { v%s = %d };" % (n, n, 5000 + i))
        cdef.append("typedef char %s[%d];" % (n, 2 * i + 4))
        if n == clash:
            cdef.append("union %s { char y[%d]; short z; };" % (n, 2 * i + 7))
    ffi.cdef("\n".join(cdef))
    modname = "_c25_same_%d" % idx
    work = os.environ["VERIF_WORK"]
    ffi.set_source(modname, None)
    path = os.path.join(work, modname + ".py")
    try:
        ffi.emit_python_code(path)
    except cffi.VerificationError as e:
        if clash:       # the generator refuses struct x + union x loudly: no module is produced, nothing is lost
            return dict(lookups=1, failures=[])
        return dict(lookups=1, failures=["emit_python_code refuses a cdef without tag clash: %s" % e])
    spec = importlib.util.spec_from_file_location(modname, path)
    mod = importlib.util.module_from_spec(spec)
    spec.loader.exec_module(mod)
    ffi2 = mod.ffi
    for i, n in enumerate(names):
        wants = [("struct " + n, "struct", 2 * i + 3), (n, "array", 2 * i + 4), ("enum " + n, "enum", 4)]
        if n == clash:
            wants.append(("union " + n, "union", 2 * i + 8))
        for ts, kind, size in wants:
            lookups += 1
            tag = "tagclash: " if n == clash and kind in ("struct", "union") else ""
            try:
                inl = (ffi.typeof(ts).kind, ffi.sizeof(ts))
            except Exception as e:
                failures.append("in-line FFI does not resolve %r: %s" % (ts, type(e).__name__))
                continue
            if inl != (kind, size):
                failures.append("in-line %r is %r, declared %r" % (ts, inl, (kind, size)))
            try:
                got = (ffi2.typeof(ts).kind, ffi2.sizeof(ts))
                if got != (kind, size):
                    failures.append("%s%r resolves to another entry: %r, declared %r" % (tag, ts, got, (kind, size)))
                if kind == "enum" and ffi2.typeof(ts).relements != {"v" + n: 5000 + i}:
                    failures.append("enum %s resolves to another entry" % n)
            except Exception as e:
                failures.append("%sdeclared %r (also declared in other name spaces) is not found in the generated "
                                "module: %s: %s" % (tag, ts, type(e).__name__, str(e).split("\n")[0]))
    return dict(lookups=lookups, failures=failures[:10])


SPECIAL = ["__all__", "__dict__", "__class__", "__name__", "__loader__", "__spec__", "__doc__", "__file__",
           "__name", "__name___", "__all___x", "__version__", "_", "__", "___", "__cffi_backend_extern_py",
           "__init__", "__getattr__", "__dir__", "__path__", "__package__", "__cached__", "__builtins__"]


def dunder(case, idx):
    """Global names that collide with module-like attributes of the lib object: every declared name must
    resolve to ITS OWN entry through lib.<name> as well (the lookup must consult the table first)."""
    names = case["names"]
    failures, lookups = [], 0
    ffi = cffi.FFI()
    ffi.cdef("\n".join("#define %s %d" % (n, 7000 + i) for i, n in enumerate(names)))
    modname = "_c25_dunder_%d" % idx
    work = os.environ["VERIF_WORK"]
    ffi.set_source(modname, None)
    path = os.path.join(work, modname + ".py")
    ffi.emit_python_code(path)
    spec = importlib.util.spec_from_file_location(modname, path)
    mod = importlib.util.module_from_spec(spec)
    spec.loader.exec_module(mod)
    lib = mod.ffi.dlopen(None)
    for i, n in enumerate(names):
        lookups += 2
        try:
            v = mod.ffi.integer_const(n)
            if v != 7000 + i:
                failures.append("integer_const(%r) = %r, declared %d" % (n, v, 7000 + i))
        except Exception as e:
            failures.append("integer_const(%r): %s: %s" % (n, type(e).__name__, e))
        try:
            v = getattr(lib, n)
            if v != 7000 + i:
                failures.append("lib.%s resolves to %r instead of its own entry %d" % (n, v, 7000 + i))
        except Exception as e:
            failures.append("lib.%s not found: %s: %s" % (n, type(e).__name__, e))
    for n in SPECIAL:
        if n not in names and n not in ("__dict__", "__class__", "__all__", "__name__", "__loader__", "__spec__",
                                        "__doc__", "__dir__", "__init__", "__getattr__"):
            lookups += 1
            try:
                getattr(lib, n)
                failures.append("undeclared lib.%s was found" % n)
            except AttributeError:
                pass
            except Exception as e:
                failures.append("undeclared lib.%s: unexpected %s" % (n, type(e).__name__))
    return dict(lookups=lookups, failures=failures[:10])


def include_case(case, idx):
    """Names inherited through ffi.include(): tags and typedefs declared by ANY included module (first or
    later sibling, or deeper in a chain) must be found through the including module's tables."""
    names = case["names"]
    shape = case.get("shape", "siblings")
    failures, lookups = [], 0
    work = os.environ["VERIF_WORK"]
    k = max(2, min(3, len(names)))
    parts = [names[i::k] for i in range(k)]
    mods = []
    for j, part in enumerate(parts):
        ffi = cffi.FFI()
        if shape == "chain" and mods:
            ffi.include(mods[-1][0])
        cdef = []
        for i, n in enumerate(part):
            cdef.append("struct s%s { char x[%d]; };" % (n, 3 + j + 2 * i))
            cdef.append("typedef struct { char y[%d]; } t%s;" % (5 + j + 2 * i, n))
        ffi.cdef("\n".join(cdef))
        modname = "_c25_inc_%d_%d" % (idx, j)
        ffi.set_source(modname, None)
        mods.append((ffi, modname, part, j))
    top = cffi.FFI()
    if shape == "chain":
        top.include(mods[-1][0])
    else:
        for m in mods:
            top.include(m[0])
    top.cdef("struct top%d { int q; };" % idx)
    topname = "_c25_inc_%d_top" % idx
    top.set_source(topname, None)
    sys.path.insert(0, work)
    for ffi, modname, part, j in mods:
        ffi.emit_python_code(os.path.join(work, modname + ".py"))
    top.emit_python_code(os.path.join(work, topname + ".py"))
    topmod = importlib.import_module(topname)
    for ffi, modname, part, j in mods:
        for i, n in enumerate(part):
            lookups += 2
            for what, want in (("struct s" + n, 3 + j + 2 * i), ("t" + n, 5 + j + 2 * i)):
                try:
                    got = topmod.ffi.sizeof(what)
                    if got != want:
                        failures.append("%s (declared by included module %d, shape %s) resolves to another entry: "
                                        "size %d, declared %d" % (what, j, shape, got, want))
                except Exception as e:
                    failures.append("%s declared by included module %d (shape %s) is not found through the including "
                                    "module: %s: %s" % (what, j, shape, type(e).__name__, e))
    return dict(lookups=lookups, failures=failures[:10])


def main(payload):
    return dict(results=[(dunder(c, i) if c["mode"] == "dunder" else include_case(c, i) if c["mode"] == "include"
                          else samename(c, i) if c["mode"] == "samename" else one(c, i))
                         for i, c in enumerate(payload["cases"])])


worker_main(main)
