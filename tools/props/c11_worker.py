"""C11 worker (inside the scratch build).

kind "codec":  CffiOp(op, arg).as_python_bytes() / format_four_bytes on given inputs -> bytes (the emitted text
               evaluated as a Python bytes literal)
kind "module": build the in-line FFI from a cdef, emit + import the out-of-line ABI module, compare everything
               the property lists; returns the list of differences."""
import importlib
import importlib.util
import os
import sys

import cffi
from cffi import cffi_opcode
from lib.vlib import worker_main

KEEP, IDS = [], {}


def tok(obj):
    k = id(obj)
    if k not in IDS:
        IDS[k] = len(IDS)
        KEEP.append(obj)
    return IDS[k]


def literal_bytes(text):
    return list(eval("b'" + text + "'"))


def codec(case):
    out = []
    for item in case["ops"]:
        try:
            if item[0] == "op":
                txt = cffi_opcode.CffiOp(item[1], int(item[2])).as_python_bytes()
            elif item[0] == "len":
                txt = cffi_opcode.CffiOp(None, item[1]).as_python_bytes()
            elif item[0] == "expr":
                txt = cffi_opcode.CffiOp(None, item[1]).as_python_bytes()
            else:
                txt = cffi_opcode.format_four_bytes(int(item[1]))
            out.append(["ok", literal_bytes(txt)])
        except Exception as e:
            out.append(["err", type(e).__name__])
    return out


# ------------------------------------------------------------------ structural description of a ctype

def has_aggregate(t, seen=None):
    k = t.kind
    if k in ("struct", "union", "enum"):
        return True
    if k in ("pointer", "array"):
        return has_aggregate(t.item)
    if k == "function":
        return has_aggregate(t.result) or any(has_aggregate(a) for a in t.args)
    return False


def sz(ffi, t):
    try:
        return ffi.sizeof(t)
    except Exception as e:
        return "n/a"          # opaque: the exception class (ValueError in-line, ffi.error out-of-line) is not compared


def al(ffi, t):
    try:
        return ffi.alignof(t)
    except Exception as e:
        return "n/a"


def canon(ffi, t, stack=()):
    k = t.kind
    if k in ("primitive", "void"):
        return [k, t.cname]
    if k == "pointer":
        return [k, t.cname, canon(ffi, t.item, stack)]
    if k == "array":
        return [k, t.cname, t.length, canon(ffi, t.item, stack)]
    if k == "function":
        return [k, t.cname, t.abi, bool(t.ellipsis), canon(ffi, t.result, stack), [canon(ffi, a, stack) for a in t.args]]
    if k == "enum":
        return [k, t.cname, sz(ffi, t), al(ffi, t), int(ffi.cast(t, -1)) < 0,
                sorted([int(v), n] for v, n in t.elements.items()), sorted([n, int(v)] for n, v in t.relements.items())]
    if k in ("struct", "union"):
        if t.cname in stack:
            return ["ref", k, t.cname]
        d = [k, t.cname, sz(ffi, t), al(ffi, t)]
        if not isinstance(d[2], int):
            # opaque / incomplete: `.fields` is not touched (ctypeget_fields asserts !CT_IS_OPAQUE in builds
            # without NDEBUG, such as the scratch build)
            d.append("opaque")
            return d
        try:
            fields = t.fields
        except Exception as e:
            fields = type(e).__name__
        if fields is None:
            d.append("nofields")
        elif isinstance(fields, str):
            d.append(fields)
        else:
            d.append([[n, f.offset, f.bitshift, f.bitsize, f.flags, canon(ffi, f.type, stack + (t.cname,))]
                      for n, f in fields])
        return d
    return ["?", k, t.cname]


def records(path):
    """the keyword arguments of the generated `ffi = _cffi_backend.FFI(...)` call, bytes as lists of ints"""
    import ast
    tree = ast.parse(open(path).read())
    call = [n.value for n in tree.body if isinstance(n, ast.Assign) and n.targets[0].id == "ffi"][0]
    out = {}
    for kw in call.keywords:
        if kw.arg in ("_types", "_globals", "_struct_unions", "_enums", "_typenames"):
            v = ast.literal_eval(kw.value)
            def conv(x):
                if isinstance(x, bytes):
                    return list(x)
                if isinstance(x, tuple):
                    return [conv(y) for y in x]
                return str(x)
            out[kw.arg] = conv(v)
    return out


def typeof(ffi, name):
    try:
        return ffi.typeof(name), None
    except Exception as e:
        return None, type(e).__name__ + ": " + str(e)[:120]


def load(path, name):
    spec = importlib.util.spec_from_file_location(name, path)
    mod = importlib.util.module_from_spec(spec)
    sys.modules[name] = mod
    spec.loader.exec_module(mod)
    return mod


def build(case, idx, work):
    """-> (inline ffi, ool module | None, status dict)"""
    st = {}
    kw = {}
    if case["opts"].get("packed"):
        kw["packed"] = True
    if case["opts"].get("pack"):
        kw["pack"] = case["opts"]["pack"]
    # included ffis: legacy single "base", or "bases" = {list: [{cdef, inc: [earlier indices]}], main: [indices]}
    blist, main_inc = [], []
    if case.get("base"):
        blist, main_inc = [dict(cdef=case["base"], inc=[])], [0]
    if case.get("bases"):
        blist, main_inc = case["bases"]["list"], case["bases"]["main"]
    base_ffis = []
    f1 = cffi.FFI()
    try:
        for k, b in enumerate(blist):
            bf = cffi.FFI()
            for j in b["inc"]:
                bf.include(base_ffis[j])
            bf.cdef(b["cdef"])
            bname = "_c11_b%d_%d" % (idx, k)
            bf.set_source(bname, None)
            bf.emit_python_code(os.path.join(work, bname + ".py"))
            base_ffis.append(bf)
    except Exception as e:
        st["inline_error"] = "included ffi: " + type(e).__name__ + ": " + str(e)[:200]
        return f1, None, st
    f1 = cffi.FFI()
    try:
        if case.get("pre"):
            f1.cdef(case["pre"], **kw)        # declarations made before ffi.include()
        for j in main_inc:
            f1.include(base_ffis[j])
        f1.cdef(case["cdef"], **kw)
        # force the in-line FFI to accept everything that is declared (lazy errors)
        for n in case["names"]["types"]:
            f1.typeof(n)
    except Exception as e:
        st["inline_error"] = type(e).__name__ + ": " + str(e)[:200]
        return f1, None, st
    name = "_c11_m%d" % idx
    path = os.path.join(work, name + ".py")
    try:
        f1.set_source(name, None)
        f1.emit_python_code(path)
    except Exception as e:
        st["emit_error"] = type(e).__name__
        st["emit_msg"] = str(e)[:200]
        return f1, None, st
    try:
        mod = load(path, name)
    except Exception as e:
        st["import_error"] = type(e).__name__ + ": " + str(e)[:200]
        return f1, None, st
    return f1, mod, st


def module(case, idx, libpath):
    work = os.environ["VERIF_WORK"]
    if work not in sys.path:
        sys.path.insert(0, work)
    f1, mod, st = build(case, idx, work)
    res = dict(status=st, diffs=[], checked=0)
    if mod is None:
        return res
    f2 = mod.ffi
    diffs = res["diffs"]
    res["records"] = records(os.path.join(work, "_c11_m%d.py" % idx))
    res["ool_list_types"] = [list(x) for x in f2.list_types()]
    res["enums"] = {}
    for n in case["names"]["types"]:
        t2, _e = typeof(f2, n)
        if t2 is not None and t2.kind == "enum":
            res["enums"][t2.cname] = list(t2.relements)

    def diff(cat, what, **extra):
        d = dict(cat=cat, what=what)
        d.update(extra)
        diffs.append(d)

    # ---- types
    for n in case["names"]["types"]:
        res["checked"] += 1
        t1, e1 = typeof(f1, n)
        t2, e2 = typeof(f2, n)
        if t1 is None or t2 is None:
            if (t1 is None) != (t2 is None):
                diff("type", "typeof(%r): in-line %s, out-of-line %s" % (n, e1 or "ok", e2 or "ok"))
            continue
        c1, c2 = canon(f1, t1), canon(f2, t2)
        if c1 != c2:
            diff("type", "typeof(%r) differs: in-line %r, out-of-line %r" % (n, c1, c2), c1=c1, c2=c2)
        elif not has_aggregate(t1) and t1 is not t2:
            diff("identity", "typeof(%r) (%s) is not the same ctype object in the two ffis" % (n, t1.cname))
    # ---- list_types
    l1, l2 = f1.list_types(), f2.list_types()
    res["checked"] += 1
    if l1 != l2:
        diff("list_types", "list_types(): in-line %r, out-of-line %r" % (l1, l2),
             only_ool=[sorted(set(b) - set(a)) for a, b in zip(l1, l2)],
             only_inline=[sorted(set(a) - set(b)) for a, b in zip(l1, l2)])
    # ---- dlopen
    try:
        lib1 = f1.dlopen(libpath)
        lib2 = f2.dlopen(libpath)
    except Exception as e:
        diff("dlopen", "dlopen failed: %s %s" % (type(e).__name__, e))
        return res
    for n in case["names"]["consts"]:
        res["checked"] += 1
        v1 = vget(lib1, n)
        v2 = vget(lib2, n)
        v3 = vcall(f2.integer_const, n)
        res.setdefault("consts", []).append([n, str(v1), str(v2), str(v3)])
        if v1 != v2 or v1 != v3:
            diff("const", "constant %s: in-line %r, out-of-line lib %r, integer_const %r" % (n, v1, v2, v3),
                 name=n, inline=str(v1), ool=str(v2))
    for n in case["names"]["funcs"]:
        res["checked"] += 1
        try:
            a1 = f1.addressof(lib1, n)
            a2 = f2.addressof(lib2, n)
            p1 = int(f1.cast("uintptr_t", a1))
            p2 = int(f2.cast("uintptr_t", a2))
            c1, c2 = canon(f1, f1.typeof(a1)), canon(f2, f2.typeof(a2))
            g1, g2 = canon(f1, f1.typeof(getattr(lib1, n))), canon(f2, f2.typeof(getattr(lib2, n)))
        except Exception as e:
            diff("func", "function %s: %s %s" % (n, type(e).__name__, str(e)[:150]))
            continue
        if p1 != p2 or p1 == 0:
            diff("func", "function %s: address %#x in-line, %#x out-of-line" % (n, p1, p2))
        if c1 != c2 or g1 != g2:
            diff("func", "function %s: type in-line %r, out-of-line %r" % (n, c1, c2))
        elif not has_aggregate(f1.typeof(a1)) and f1.typeof(a1) is not f2.typeof(a2):
            diff("identity", "type of function %s is not the same ctype object" % n)
    for n in case["names"]["vars"]:
        res["checked"] += 1
        try:
            a1 = f1.addressof(lib1, n)
            a2 = f2.addressof(lib2, n)
            p1 = int(f1.cast("uintptr_t", a1))
            p2 = int(f2.cast("uintptr_t", a2))
            # the variable's type: an array variable is its own address in-line (addressof returns the array),
            # a pointer to the array out-of-line; compare the type of the variable itself
            def vartype(ffi, a):
                t = ffi.typeof(a)
                return t if t.kind == "array" else t.item
            c1, c2 = canon(f1, vartype(f1, a1)), canon(f2, vartype(f2, a2))
            v1, v2 = vrepr(f1, getattr(lib1, n)), vrepr(f2, getattr(lib2, n))
        except Exception as e:
            diff("var", "global %s: %s %s" % (n, type(e).__name__, str(e)[:150]))
            continue
        if p1 != p2 or p1 == 0:
            diff("var", "global %s: address %#x in-line, %#x out-of-line" % (n, p1, p2))
        if c1 != c2:
            diff("var", "global %s: type in-line %r, out-of-line %r" % (n, c1, c2))
        if v1 != v2:
            diff("var", "global %s: value in-line %r, out-of-line %r" % (n, v1, v2))
    # the set of lib attributes
    d1 = sorted(x for x in dir(lib1))
    d2 = sorted(x for x in dir(lib2))
    res["checked"] += 1
    if d1 != d2:
        diff("dir", "dir(lib): in-line %r, out-of-line %r" % (d1, d2))
    return res


def vget(lib, n):
    try:
        return int(getattr(lib, n))
    except Exception as e:
        return type(e).__name__


def vcall(fn, n):
    try:
        return int(fn(n))
    except Exception as e:
        return type(e).__name__


def vrepr(ffi, v):
    if isinstance(v, ffi.CData):
        t = ffi.typeof(v)
        if t.kind == "array":
            return ["array", bytes(ffi.buffer(v)).hex()]
        if t.kind == "struct":
            return ["struct", bytes(ffi.buffer(ffi.addressof(v))).hex()]
        if t.kind == "pointer":
            return ["pointer", int(ffi.cast("uintptr_t", v))]
        return ["cdata", t.cname]
    return v


def main(payload):
    out = []
    for idx, case in zip(payload["ids"], payload["cases"]):
        try:
            if case["kind"] == "codec":
                out.append(dict(codec=codec(case)))
            else:
                out.append(module(case, idx, payload["lib"]))
        except Exception as e:
            import traceback
            out.append(dict(worker_error=traceback.format_exc()[-1500:]))
    return dict(results=out)


if __name__ == "__main__":
    worker_main(main)
