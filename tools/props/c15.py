"""C15 — character arrays and strings round-trip, including the terminator.

Tie: (a) regenerated.  The wide-character helpers of src/c/wchar_helper_3.h (_my_PyUnicode_SizeAsChar16/32,
_my_PyUnicode_AsChar16/32, _my_PyUnicode_AsSingleChar16/32, _my_PyUnicode_FromChar16/32) are regenerated into
coq/C15/Gen.v on every run (tools/props/c15_regen.py: token templates of the recorded control structure, the
tests / thresholds / surrogate arithmetic translated from the C expressions; fail closed = broken obligation) and
the theorems (size = units written, decode(encode s), allocation exactness) are re-proved against them.
(b) correspondence.  bytes / str values (ASCII, Latin-1, BMP, astral, lone and adjacent surrogates, embedded
NUL) are used as ffi.new initializers (open and fixed-size arrays of every character element type) and assigned
to struct fields / array items holding previous contents; the raw code units are read back through ffi.buffer
and ffi.string / ffi.unpack are called on arrays and pointers over arbitrary raw units.  Every outcome is
compared with (a) the property evaluated with CPython's own codecs (utf-16-le / surrogatepass) as the oracle
(decides "violation") and (b) the Coq model C15/Model.v (decides "model mismatch").
"""
from lib import vlib
from props import c15_regen

ID = "C15"


def regen(ctx):
    c15_regen.regen_file(vlib, ctx, "C15")
    # the model is evaluated through Model.vo (also by --replay, which skips the proof re-check)
    vlib.coq_make(["C15/Model.vo"])


TYPES = {"char": ("E8", 1), "signed char": ("E8", 1), "unsigned char": ("E8", 1), "char16_t": ("E16", 2),
         "char32_t": ("E32", 4), "wchar_t": ("E32", 4)}


# ------------------------------------------------------------------------------------------ oracles
def is_hi(u):
    return 0xD800 <= u <= 0xDBFF


def is_lo(u):
    return 0xDC00 <= u <= 0xDFFF


def has_adjacent(cps):
    return any(is_hi(a) and is_lo(b) for a, b in zip(cps, cps[1:]))


def py_units(T, val):
    """units of a Python value, with CPython's codecs as the oracle"""
    if val[0] == "bytes":
        return list(bytes.fromhex(val[1]))
    s = "".join(chr(c) for c in val[1])
    if TYPES[T][0] == "E16":
        b = s.encode("utf-16-le", "surrogatepass")
        return [int.from_bytes(b[i:i + 2], "little") for i in range(0, len(b), 2)]
    return list(val[1])


def py_decode(T, us):
    """the Python value of a unit sequence; None when CPython has no such string"""
    e = TYPES[T][0]
    if e == "E8":
        return ["bytes", list(us)]
    if e == "E16":
        b = b"".join(u.to_bytes(2, "little") for u in us)
        return ["str", [ord(c) for c in b.decode("utf-16-le", "surrogatepass")]]
    if any(u > 0x10FFFF for u in us):
        return None
    return ["str", list(us)]


def py_unpack(T, us):
    """ffi.unpack: bytes/str for character types, a list of ints for signed/unsigned char"""
    if T == "signed char":
        return ["list", [["int", u - 256 if u > 127 else u] for u in us]]
    if T == "unsigned char":
        return ["list", [["int", u] for u in us]]
    return py_decode(T, us)


def until_zero(us):
    out = []
    for u in us:
        if u == 0:
            break
        out.append(u)
    return out


def val_canon(val):
    return ["bytes", list(bytes.fromhex(val[1]))] if val[0] == "bytes" else ["str", list(val[1])]


def val_matches(T, val):
    return (val[0] == "bytes") == (TYPES[T][0] == "E8")


# ------------------------------------------------------------------------------------------ generator
def rand_str(rng, n=None):
    if n is None:
        n = rng.choice([0, 1, 2, 3, 4, 5, 7])
    pool = rng.choice(["ascii", "latin", "bmp", "astral", "mixed", "surr", "mixed"])
    out = []
    for _ in range(n):
        p = pool if pool != "mixed" else rng.choice(["ascii", "latin", "bmp", "astral", "surr"])
        if p == "ascii":
            c = rng.randrange(1, 128)
        elif p == "latin":
            c = rng.randrange(128, 256)
        elif p == "bmp":
            c = rng.choice([0x100, 0x20AC, 0xD7FF, 0xE000, 0xFFFF, rng.randrange(0x100, 0xD800)])
        elif p == "astral":
            c = rng.choice([0x10000, 0x1F600, 0x10FFFF, rng.randrange(0x10000, 0x110000)])
        else:
            c = rng.choice([0xD800, 0xDBFF, 0xDC00, 0xDFFF, 0xD83D, 0xDE00])
        if rng.random() < 0.03:
            c = 0
        out.append(c)
    return ["str", out]


def rand_bytes(rng, n=None):
    if n is None:
        n = rng.choice([0, 1, 2, 3, 4, 5, 7])
    return ["bytes", bytes((rng.randrange(1, 256) if rng.random() > 0.04 else 0) for _ in range(n)).hex()]


def rand_val(rng, T, n=None, wrong=0.04):
    want_bytes = TYPES[T][0] == "E8"
    if rng.random() < wrong:
        want_bytes = not want_bytes
    return rand_bytes(rng, n) if want_bytes else rand_str(rng, n)


def rand_units(rng, T, n):
    e = TYPES[T][0]
    out = []
    for _ in range(n):
        r = rng.random()
        if r < 0.15:
            out.append(0)
        elif e == "E8":
            out.append(rng.randrange(256))
        elif e == "E16":
            out.append(rng.choice([0x41, 0xE9, 0x20AC, 0xD83D, 0xDE00, 0xD800, 0xDFFF, 0xFFFF, rng.randrange(0x10000)]))
        else:
            out.append(rng.choice([0x41, 0xE9, 0x20AC, 0x1F600, 0xD800, 0xDFFF, 0x10FFFF, rng.randrange(0x110000)] +
                                  ([0x110000, 0xFFFFFFFF] if r > 0.97 else [])))
    return out


def gen_cases(rng, count):
    cases = []
    tnames = list(TYPES)
    for _ in range(count):
        T = rng.choice(tnames + ["char16_t", "char32_t"])
        r = rng.random()
        if r < 0.3:
            val = rand_val(rng, T)
            n = len(py_units(T, val)) if val_matches(T, val) else len(val[1]) // 2 if val[0] == "bytes" else len(val[1])
            K = None if rng.random() < 0.5 else max(0, n + rng.choice([-1, 0, 0, 1, 2, 5]))
            cases.append(dict(kind="new", T=T, K=K, val=val))
        elif r < 0.65:
            K = rng.choice([1, 2, 3, 4, 6, 8])
            prev = [u or 0x5A for u in rand_units(rng, T, K)]
            vals = []
            for _ in range(rng.choice([1, 2, 3])):
                n = max(0, K + rng.choice([-3, -2, -1, -1, 0, 0, 1, -K]))
                vals.append(rand_val(rng, T, n))
            cases.append(dict(kind="assign", T=T, K=K, mode=rng.choice(["field", "item"]), prev=prev, vals=vals))
        else:
            n = rng.choice([0, 1, 2, 4, 6, 9])
            us = rand_units(rng, T, n)
            what = "string" if rng.random() < 0.65 else "unpack"
            c = dict(kind="string", T=T, units=us, via=rng.choice(["array", "pointer"]), what=what)
            if what == "string":
                c["maxlen"] = None if rng.random() < 0.4 else rng.randrange(0, n + 1)
            else:
                c["n"] = rng.randrange(0, n + 1)
            cases.append(c)
    return cases


def witnesses():
    out = []
    for T in ("wchar_t", "char16_t", "char32_t", "char"):
        mk = (lambda s: ["str", [ord(c) for c in s]]) if T != "char" else (lambda s: ["bytes", s.encode().hex()])
        for mode in ("field", "item"):
            out.append(dict(kind="assign", T=T, K=4, mode=mode, prev=[0x51] * 4, vals=[mk("wxyz"), mk("ab")]))
            out.append(dict(kind="assign", T=T, K=4, mode=mode, prev=[0x51] * 4, vals=[mk("wxyz"), mk("")]))
        out.append(dict(kind="new", T=T, K=4, val=mk("ab")))
    out.append(dict(kind="assign", T="char16_t", K=4, mode="field", prev=[0x51] * 4,
                    vals=[["str", [119, 120, 121, 122]], ["str", [0x1F600]]]))
    out.append(dict(kind="assign", T="char16_t", K=4, mode="field", prev=[0x51] * 4,
                    vals=[["str", [119, 120, 121, 122]], ["str", [0x1F600, 97]]]))
    out.append(dict(kind="new", T="char16_t", K=None, val=["str", [0xD83D, 0xDE00]]))
    out.append(dict(kind="new", T="char16_t", K=None, val=["str", [0x1F600, 0x61]]))
    return out


def generate(ctx):
    big = ctx.tier_search == "thorough"
    return witnesses() + gen_cases(ctx.rng, 1500 if not big else 15000)


# ------------------------------------------------------------------------------------------ literals
def zl(xs):
    return "[" + ";".join("%d" % x for x in xs) + "]"


def pv_lit(v):
    if v[0] == "bytes":
        return "(PBytes %s)" % zl(v[1] if isinstance(v[1], list) else bytes.fromhex(v[1]))
    return "(PStr %s)" % zl(v[1])


EXN = {"IndexError", "TypeError", "ValueError", "SystemError"}


def resv_lit(o):
    if o[0] in ("bytes", "str"):
        return "Ok " + pv_lit(o)
    if o[0] == "err":
        # classes the model does not name are compared as OtherException (which no model function returns)
        return "Err " + (o[1] if o[1] in EXN else "OtherException")
    return None


def finding_key(T, val, got):
    """adjacent_surrogates: char16_t, the str has a high surrogate code point immediately followed by a low
    surrogate code point, and what comes back is the same text with such pairs joined"""
    if T == "char16_t" and val[0] == "str" and has_adjacent(until_zero(val[1])):
        if got == py_decode(T, py_units(T, ["str", until_zero(val[1])])):
            return "adjacent_surrogates"
    return None


# ------------------------------------------------------------------------------------------ evaluation
def evaluate(ctx, cases):
    s = ctx.scratch()
    out, p = s.run_worker("c15_worker.py", dict(cases=cases), timeout=1200)
    if out is None:
        ctx.violation(cases[0], "C15 worker crashed (rc=%s): %s" % (p.returncode, (p.stderr or p.stdout)[-1500:]))
        return
    for T, (_, usz) in TYPES.items():
        if out["sizes"].get(T) != usz:
            ctx.obligation_broken("C15 type table: sizeof(%s) = %r, harness says %d" % (T, out["sizes"].get(T), usz))
    ql, ql_owner, qv, qv_owner = [], [], [], []      # Coq queries: res (list Z) / res pyval

    def ask_l(expr, got, c):
        ql.append((expr, got))
        ql_owner.append(c)

    def ask_v(expr, o, c):
        lit = resv_lit(o)
        if lit is None:
            ctx.mismatch(c, "outcome outside the model's vocabulary: %r" % (o,), "C15.Model vs implementation")
        else:
            qv.append((expr, lit))
            qv_owner.append(c)

    for c, r in zip(cases, out["results"]):
        ctx.count()
        ctx.hist("kind", c["kind"])
        T = c["T"]
        e = TYPES[T][0]
        ctx.hist("ety", e)
        if "error" in r:
            ctx.violation(c, "harness could not run the case: " + r["error"])
            continue
        if c["kind"] == "new":
            val, K = c["val"], c["K"]
            ok_type = val_matches(T, val)
            klit = -1 if K is None else K
            if not ok_type:
                if r["out"] != ["err", "TypeError"]:
                    ctx.violation(c, "ffi.new(%s[%s], wrong kind of string) gives %r" % (T, K, r["out"]))
                ask_l("convert_array %s (%d) %s" % (e, klit, pv_lit(val)), "Err TypeError", c)
                continue
            us = py_units(T, val)
            n = len(us)
            ctx.hist("new_rel", "open" if K is None else ("<" if n < K else "=" if n == K else ">"))
            if K is not None and n > K:
                if r["out"] != ["err", "IndexError"]:
                    ctx.violation(c, "initializer of %d units for %s[%d]: %r, expected IndexError" % (n, T, K, r["out"]))
                ask_l("convert_array %s (%d) %s" % (e, klit, pv_lit(val)),
                      "Err " + r["out"][1] if r["out"][0] == "err" and r["out"][1] in EXN else "Ok []", c)
                continue
            if r["out"] != ["ok"]:
                ctx.violation(c, "ffi.new(%s[%s], %r) raised %r" % (T, K, val, r["out"]))
                continue
            want_len = n + 1 if K is None else K
            want_raw = us + [0] * (want_len - n)
            if r["len"] != want_len or r["raw"] != want_raw:
                ctx.violation(c, "ffi.new(%s[%s], %r): length %d units %r; expected length %d units %r"
                              % (T, K, val, r["len"], r["raw"], want_len, want_raw))
                continue
            # ffi.string(ffi.new(T[], s)) == s for NUL-free s; stops at the first zero unit in general
            expect_s = py_decode(T, until_zero(want_raw))
            prop_s = val_canon(val)
            nulfree = 0 not in us
            if r["string"] != expect_s:
                ctx.violation(c, "ffi.string of units %r gives %r, expected %r" % (want_raw, r["string"], expect_s))
            elif K is None and nulfree and r["string"] != prop_s:
                ctx.violation(c, "ffi.string(ffi.new('%s[]', s)) != s: s = %r, got %r" % (T, prop_s, r["string"]),
                              finding_key(T, val, r["string"]))
            want_unpack = py_unpack(T, want_raw)
            if want_unpack is not None and r["unpack"] != want_unpack:
                ctx.violation(c, "ffi.unpack(x, %d) gives %r, expected exactly the %d units %r"
                              % (want_len, r["unpack"], want_len, want_unpack))
            if r["items"][0] != "list" or len(r["items"][1]) != want_len:
                ctx.violation(c, "list(x) has not %d items: %r" % (want_len, r["items"]))
            ctx.nontrivial(("new", T, K, val))
            if K is None:
                ask_l("new_open_array %s %s" % (e, pv_lit(val)), "Ok " + zl(r["raw"]), c)
            else:
                ask_l("assign %s (zeros %d) %s" % (e, K, pv_lit(val)), "Ok " + zl(r["raw"]), c)
            ask_v("string_array %s %s (-1)" % (e, zl(r["raw"])), r["string"], c)
            if T not in ("signed char", "unsigned char"):
                ask_v("unpack %s %s (%d)" % (e, zl(r["raw"]), want_len), r["unpack"], c)
        elif c["kind"] == "assign":
            K, mem = c["K"], list(c["prev"])
            for i, (val, st) in enumerate(zip(c["vals"], r["steps"])):
                sub = dict(c, prev=list(mem), vals=[val])
                if st["guards"] != [0x41, 0x42, 0x43, 0x44]:
                    ctx.violation(sub, "assignment to %s a[%d] changed neighbouring memory: %r" % (T, K, st["guards"]))
                    break
                if not val_matches(T, val):
                    want_out, want_mem = ["err", "TypeError"], mem
                else:
                    us = py_units(T, val)
                    n = len(us)
                    ctx.hist("assign_rel", "<" if n < K else "=" if n == K else ">")
                    if n > K:
                        want_out, want_mem = ["err", "IndexError"], mem
                    elif n == K:
                        want_out, want_mem = ["ok"], us
                    else:
                        want_out, want_mem = ["ok"], us + [0] + mem[n + 1:]      # string, ONE zero, the rest unchanged
                if st["out"] != want_out or st["raw"] != want_mem:
                    key = None
                    if (st["out"] == ["ok"] and want_out == ["ok"] and e != "E8" and n < K
                            and st["raw"] == us + mem[n:]):
                        key = "wide_terminator"
                    ctx.violation(sub, "%s a[%d] holding %r, a = %r (%s assignment): %r, units %r; expected %r, units %r"
                                  % (T, K, mem, val, c["mode"], st["out"], st["raw"], want_out, want_mem), key)
                    break
                expect_s = py_decode(T, until_zero(st["raw"]))
                if expect_s is not None and st["string"] != expect_s:
                    ctx.violation(sub, "ffi.string(a) over units %r gives %r, expected %r" % (st["raw"], st["string"], expect_s))
                    break
                ctx.nontrivial(("assign", T, K, mem, val))
                if st["out"] == ["ok"]:
                    ask_l("assign %s %s %s" % (e, zl(mem), pv_lit(val)), "Ok " + zl(st["raw"]), sub)
                elif st["out"][1] in EXN:
                    ask_l("assign %s %s %s" % (e, zl(mem), pv_lit(val)), "Err " + st["out"][1], sub)
                ask_v("string_array %s %s (-1)" % (e, zl(st["raw"])), st["string"], sub)
                mem = st["raw"]
        else:
            us, o = c["units"], r["out"]
            if c["what"] == "string":
                ml = c["maxlen"]
                scanned = us if ml is None else us[:ml]
                if c["via"] == "pointer" and ml is None:
                    scanned = us + [0]
                want = py_decode(T, until_zero(scanned))
                if want is not None and o != want:
                    ctx.violation(c, "ffi.string(<%s %s over %r>, maxlen=%r) gives %r, expected %r (stop at the first zero unit)"
                                  % (T, c["via"], us, ml, o, want))
                fn = "string_array" if c["via"] == "array" else "string_pointer"
                mem = us if c["via"] == "array" else us + [0]
                ask_v("%s %s %s (%d)" % (fn, e, zl(mem), -1 if ml is None else ml), o, c)
            else:
                want = py_unpack(T, us[:c["n"]])
                if want is not None and o != want:
                    ctx.violation(c, "ffi.unpack(<%s over %r>, %d) gives %r, expected exactly %r" % (T, us, c["n"], o, want))
                if T not in ("signed char", "unsigned char"):
                    ask_v("unpack %s %s (%d)" % (e, zl(us), c["n"]), o, c)
            ctx.nontrivial(("string", T, c["via"], c["what"], us, c.get("maxlen"), c.get("n")))
    for name, lst, owner, fexpr, eqb in (("conversion", ql, ql_owner, "fun r : res (list Z) => r", "resl_eqb"),
                                         ("string/unpack", qv, qv_owner, "fun r : res pyval => r", "resv_eqb")):
        bad, outs, err = vlib.coq_mismatches(["C15.Model"], fexpr, eqb, lst, prelude="Open Scope Z_scope.", shard=600)
        if err:
            ctx.obligation_broken("C15 model evaluation (%s)" % name, err)
        for i in bad:
            ctx.mismatch(owner[i], "model %s = %s; implementation %s" % (lst[i][0][:400], outs.get(i), lst[i][1][:400]),
                         "C15.Model (%s) vs implementation" % name)
    for c in cases[:3]:
        ctx.sample(c)


def run(ctx):
    ctx.cov["rule"] = ("new: ffi.new('T[]' / 'T[K]', v) for T in char, signed/unsigned char, char16_t, char32_t, wchar_t; v "
                       "bytes or str of 0..7 items from ASCII/Latin-1/BMP/astral/lone-surrogate pools (3% NUL, 4% wrong "
                       "kind), K = units-1..units+5: length, raw units, ffi.string, ffi.unpack, list(); assign: struct "
                       "field a[K] and 2-D array item with previous non-zero contents, 1-3 successive values of K-3..K+1 "
                       "units: raw units after each (string + ONE zero + rest unchanged, neighbours untouched); string: "
                       "ffi.string / ffi.unpack on arrays and pointers over raw units incl. zeros, surrogate pairs, "
                       "values > 0x10FFFF, with and without maxlen. Oracle: CPython codecs. Non-trivial = every case "
                       "that ran to a result; distinct by full case.")
    ctx.assumptions += [
        "the string converters of wchar_helper_3.h are regenerated into C15/Gen.v by c15_regen.py (trusted: token "
        "templates of the recorded control structure + a C-expression translator; any other shape is a broken "
        "obligation); the rest of C15/Model.v (convert_array_from_object, b_string, b_unpack string branches) is "
        "hand-written, at the level of units; both tied by this run's differential test on raw units read through "
        "ffi.buffer",
        "CPython (C15/Spec.v): PyUnicode_KIND is 4 exactly when a code point exceeds 0xFFFF; PyUnicode_FromKindAndData / "
        "PyUnicode_New / PyUnicode_AsUCS4 as documented; CPython's utf-16-le/surrogatepass codec is the run-time oracle "
        "for UTF-16",
        "little-endian units"]
    evaluate(ctx, generate(ctx))


MANIFEST = dict(
    technique="Coq proofs about the string converters REGENERATED from wchar_helper_3.h (UTF-16 size / encode / decode "
              "with the surrogate bit arithmetic and the uint16/uint32 stores) and a unit-level model of the array "
              "conversion (terminator rule, scans) + differential correspondence on raw units against CPython's codecs",
    text="Proved on the regenerated code, for ALL code-point lists: the allocation computed by _my_PyUnicode_SizeAsChar16 "
         "equals the number of units _my_PyUnicode_AsChar16 writes (C15_size16_agrees_with_writer, "
         "C15_size16_is_encoded_length), the writer fails only with ValueError above 0x10FFFF, every unit written is "
         "16-bit; _my_PyUnicode_FromChar16 fills the str it allocates exactly and never fails "
         "(C15_from_char16_allocation_exact, _total); from_char16(as_char16 s) = s with every adjacent (high, low) "
         "surrogate code-point pair joined and everything else - lone surrogates included - unchanged "
         "(C15_decode16_encode16_general), so s round-trips exactly when no high surrogate is immediately followed by a "
         "low one (C15_decode16_encode16_iff; refuted otherwise: known finding adjacent_surrogates); single-character "
         "stores agree with the array conversion. On the hand model: ffi.string(ffi.new('T[]', s)) = s for zero-free s "
         "of every character type; conversion into T[k] is IndexError / units alone / units + ONE zero unit with later "
         "units unchanged (frame); ffi.string stops at the first zero unit; ffi.unpack returns exactly n units. The model "
         "follows the code after the terminator fix (2103790).",
    note="Trusted: Coq kernel; c15_regen.py (fail closed); hand part of C15/Model.v (tied by differential testing); CPython "
         "codecs and unicode constructors (C15/Spec.v). Theorems closed under the global context.",
    design_ref="DESIGN.md §4 C15")
