"""C12 — API-mode modules faithfully reflect the C source and detect mismatches.

Tie A (regeneration): coq/C12/Gen.v is rebuilt on every run from the text of
  parse_c_type.c (parse_sequel: the statements deciding, from the constant getter's return code and value,
  between an array length and a parse error — tools/props/c12_regen.py),
  recompiler.py (_generate_cpy_const: the two generated C expressions, the '%dU' literal rule,
  the `n |= 2` failure bit; which callers pass a check_value), _cffi_include.h (_cffi_check_int),
  parse_c_type.h / _cffi_backend.c / realize_c_type.c (flag values, the flag used by the
  per-field size check).  The C expressions are parsed into the deep embedding of C12/Spec.v.
Tie B (correspondence): random (cdef, C source) pairs and single-point mutations of the cdef;
  real modules built with ffi.compile(); facts about the C source obtained from gcc by a
  separately compiled program; the Coq model predicts error / no error and the layout per item.
"""
import ast
import os
import re

from lib import vlib
from lib.vlib import cz, cbool, clist
from props import c12_worker as W
from props import c12_regen

ID = "C12"
GEN = os.path.join(vlib.COQ, "C12", "Gen.v")


# =============================================================================== regeneration
class Untranslatable(Exception):
    pass


CTYPES = {("unsigned", "long", "long"): (False, 64), ("long", "long"): (True, 64),
          ("unsigned", "long"): (False, 64), ("long",): (True, 64), ("int",): (True, 32),
          ("unsigned", "int"): (False, 32), ("unsigned",): (False, 32),
          ("long", "long", "int"): (True, 64), ("unsigned", "long", "long", "int"): (False, 64)}
TYPEWORDS = {"unsigned", "long", "int", "signed", "short", "char"}


class CParser:
    """integer C expressions: && | == <= unary- casts ( ) identifiers decimal literals"""

    def __init__(self, text, names):
        self.toks = re.findall(r"[A-Za-z_]\w*|\d\w*|<=|==|&&|[|()\-]|\S", text)
        self.i = 0
        self.names = names

    def peek(self, k=0):
        return self.toks[self.i + k] if self.i + k < len(self.toks) else None

    def eat(self, t=None):
        tok = self.peek()
        if tok is None or (t is not None and tok != t):
            raise Untranslatable("expected %r, got %r" % (t, tok))
        self.i += 1
        return tok

    def parse(self):
        e = self.land()
        if self.peek() is not None:
            raise Untranslatable("trailing token %r" % self.peek())
        return e

    def binlevel(self, sub, op, ctor):
        e = sub()
        while self.peek() == op:
            self.eat()
            e = "(%s %s %s)" % (ctor, e, sub())
        return e

    def land(self):
        return self.binlevel(self.bor, "&&", "ELand")

    def bor(self):
        return self.binlevel(self.eq, "|", "EBor")

    def eq(self):
        return self.binlevel(self.rel, "==", "EEq")

    def rel(self):
        return self.binlevel(self.unary, "<=", "ELe")

    def unary(self):
        t = self.peek()
        if t == "-":
            self.eat()
            return "(ENeg %s)" % self.unary()
        if t == "(" and self.peek(1) in TYPEWORDS:
            self.eat()
            words = []
            while self.peek() in TYPEWORDS:
                words.append(self.eat())
            self.eat(")")
            if tuple(words) not in CTYPES:
                raise Untranslatable("cast to %r" % (words,))
            sg, bits = CTYPES[tuple(words)]
            return "(ECast (mkty %s %d) %s)" % (cbool(sg), bits, self.unary())
        return self.primary()

    def primary(self):
        t = self.eat()
        if t == "(":
            e = self.land()
            self.eat(")")
            return e
        m = re.fullmatch(r"(0|[1-9]\d*)([uU]?)", t)
        if m:
            return "(ELit %s %s)" % (cbool(bool(m.group(2))), m.group(1))
        if t in self.names:
            return "(EVar %s)" % self.names[t]
        raise Untranslatable("token %r" % t)


def _define(text, name):
    m = re.search(r"^#define\s+%s\s+(0x[0-9a-fA-F]+|\d+)\b" % re.escape(name), text, re.M)
    if not m:
        raise Untranslatable("#define %s not found" % name)
    return int(m.group(1), 0)


def _nocomment(s):
    return s.replace("(*", "( *").replace("*)", "* )")


def translate_gen():
    src = os.path.join(vlib.REPO, "src")
    inc = open(os.path.join(src, "cffi", "_cffi_include.h")).read()
    m = re.search(r"^#define _cffi_check_int\(got, got_nonpos, expected\)[ \t]*\\\n((?:.*\\\n)*.*)\n", inc, re.M)
    if not m:
        raise Untranslatable("_cffi_check_int macro not found")
    body = " ".join(l.rstrip("\\").strip() for l in m.group(1).split("\n"))
    macro = CParser(body, {"got": "Vgot", "got_nonpos": "Vgot_nonpos", "expected": "Vexpected"}).parse()

    rpath = os.path.join(src, "cffi", "recompiler.py")
    rsrc = open(rpath).read()
    tree = ast.parse(rsrc)
    cls = [n for n in tree.body if isinstance(n, ast.ClassDef) and n.name == "Recompiler"]
    if len(cls) != 1:
        raise Untranslatable("class Recompiler")

    def fn(name):
        fs = [n for n in cls[0].body if isinstance(n, ast.FunctionDef) and n.name == name]
        if len(fs) != 1:
            raise Untranslatable("function %s" % name)
        return fs[0], ast.get_source_segment(rsrc, fs[0])

    f, text = fn("_generate_cpy_const")
    m = re.search(r"if is_int:\n(.*?)\n\s+else:\n", text, re.S)
    if not m:
        raise Untranslatable("_generate_cpy_const: is_int branch")
    lines = [l.strip() for l in m.group(1).split("\n") if not l.strip().startswith("#")]
    # optional guard: if not (-(1 << A) < check_value < (1 << B)): raise VerificationError(<message>)
    domain = None
    for i, l in enumerate(lines):
        mg = re.fullmatch(r"if not \(-\(1 << (\d+)\) < check_value < \(1 << (\d+)\)\):", l)
        if mg:
            j = i + 1
            if not re.fullmatch(r"raise VerificationError\(", lines[j]):
                raise Untranslatable("_generate_cpy_const: guard without raise VerificationError")
            j += 1
            while j < len(lines) and re.match(r"^[\"']", lines[j]):
                j += 1
            if not re.fullmatch(r"check_value\)\)", lines[j]):
                raise Untranslatable("_generate_cpy_const: unexpected end of the guard: %r" % lines[j])
            domain = (int(mg.group(1)), int(mg.group(2)))
            lines = lines[:i] + lines[j + 1:]
            break
    expect = [
        r"prnt\('static int %s\(unsigned long long \*o\)' % funcname\)",
        r"prnt\('\{'\)",
        r"prnt\('  int n = (?P<n>.*);' % \(name,\)\)",
        r"prnt\('  \*o = (?P<o>.*);'",
        r"'  /\* check that %s is an integer \*/' % \(name, name\)\)",
        r"if check_value is not None:",
        r"if check_value > 0:",
        r"check_value = '%dU' % \(check_value,\)",
        r"prnt\('  if \(!_cffi_check_int\(\*o, n, %s\)\)' % \(check_value,\)\)",
        r"prnt\('    n \|= (?P<bits>\d+);'\)",
        r"prnt\('  return n;'\)",
        r"prnt\('\}'\)"]
    if len(lines) != len(expect):
        raise Untranslatable("_generate_cpy_const: %d lines in the is_int branch, expected %d" % (len(lines), len(expect)))
    g = {}
    for l, e in zip(lines, expect):
        mm = re.fullmatch(e, l)
        if not mm:
            raise Untranslatable("_generate_cpy_const: unexpected line %r" % l)
        g.update(mm.groupdict())
    n_expr = CParser(g["n"].replace("%s", "X"), {"X": "VX"}).parse()
    o_expr = CParser(g["o"].replace("%s", "X"), {"X": "VX"}).parse()

    # who passes check_value
    f, text = fn("_generate_cpy_enum_decl")
    calls = [c for c in ast.walk(f) if isinstance(c, ast.Call) and isinstance(c.func, ast.Attribute)
             and c.func.attr == "_generate_cpy_const"]
    if len(calls) != 1 or not (len(f.body) == 1 and isinstance(f.body[0], ast.For)):
        raise Untranslatable("_generate_cpy_enum_decl shape")
    c = calls[0]
    kw = {k.arg: k.value for k in c.keywords}
    if len(c.args) != 2:
        raise Untranslatable("_generate_cpy_enum_decl: positional arguments")
    loop = f.body[0]
    norm_loop = " ".join(ast.unparse(loop).split())
    ZIP = "for enumerator, enumvalue in zip(tp.enumerators, tp.enumvalues):"
    if "check_value" not in kw:
        if norm_loop != "for enumerator in tp.enumerators: self._generate_cpy_const(True, enumerator)":
            raise Untranslatable("_generate_cpy_enum_decl: unchecked variant of unknown shape")
        enum_checked, enum_partial_checked = False, False
    elif norm_loop == ZIP + " self._generate_cpy_const(True, enumerator, check_value=enumvalue)":
        # every enumerator checked against the cdef's value, also those of 'enum e { A, ... }'
        enum_checked, enum_partial_checked = True, True
    elif norm_loop == (ZIP + " if tp.partial: check_value = None else: check_value = enumvalue "
                       "self._generate_cpy_const(True, enumerator, check_value=check_value)"):
        # checked unless the enum is declared with '...'
        enum_checked, enum_partial_checked = True, False
    else:
        raise Untranslatable("_generate_cpy_enum_decl: check_value variant of unknown shape: %r" % norm_loop)
    f, text = fn("_generate_cpy_macro_decl")
    norm = " ".join(text.split())
    if norm != ("def _generate_cpy_macro_decl(self, tp, name): if tp == '...': check_value = None else: "
                "check_value = tp # an integer self._generate_cpy_const(True, name, check_value=check_value)"):
        raise Untranslatable("_generate_cpy_macro_decl shape")

    pch = open(os.path.join(src, "cffi", "parse_c_type.h")).read()
    bk = open(os.path.join(src, "c", "_cffi_backend.c")).read()
    rz = open(os.path.join(src, "c", "realize_c_type.c")).read()
    m = re.findall(r"detect_custom_layout\(ct,\s*(\w+),\s*ctf->ct_size,\s*fld->field_size,", rz)
    if len(m) != 1 or m[0] not in ("SF_STD_FIELD_POS", "SF_PACKED", "0", "sflags"):
        raise Untranslatable("realize_c_type.c: per-field detect_custom_layout call")
    if m[0] == "sflags":
        raise Untranslatable("realize_c_type.c: per-field check uses the struct's own sflags")
    fieldflag = m[0]

    out = []
    out.append("""(* C12/Gen.v — REGENERATED on every run by tools/props/c12.py:regen from
     /repo/src/cffi/recompiler.py   (Recompiler._generate_cpy_const, _generate_cpy_enum_decl,
                                     _generate_cpy_macro_decl)
     /repo/src/cffi/_cffi_include.h (#define _cffi_check_int)
     /repo/src/cffi/parse_c_type.h  (_CFFI_F_CHECK_FIELDS, _CFFI_F_PACKED)
     /repo/src/c/_cffi_backend.c    (SF_PACKED, SF_STD_FIELD_POS)
     /repo/src/c/realize_c_type.c   (flag passed to the per-field size check)
     /repo/src/c/parse_c_type.c     (parse_sequel: array length given by a constant's name; MAX_SSIZE_T)
   Do not edit: this committed copy is the snapshot used when the translator fails. *)
From Coq Require Import ZArith Bool.
From Cffi Require Import C12.Spec.
Local Open Scope Z_scope.
""")
    out.append("(* _cffi_include.h: #define _cffi_check_int(got, got_nonpos, expected) %s *)" % _nocomment(body))
    out.append("Definition macro_cffi_check_int : cexpr :=\n  %s.\n" % macro)
    out.append("(* recompiler.py: int n = %s; *)" % _nocomment(g["n"]))
    out.append("Definition gen_const_n : cexpr :=\n  %s.\n" % n_expr)
    out.append("(* recompiler.py: *o = %s; *)" % _nocomment(g["o"]))
    out.append("Definition gen_const_o : cexpr :=\n  %s.\n" % o_expr)
    out.append("(* recompiler.py: if check_value > 0: check_value = '%dU' % (check_value,) *)")
    out.append("Definition gen_check_suffixU (check_value : Z) : bool := Z.gtb check_value 0.\n")
    if domain:
        out.append("(* recompiler.py: if not (-(1 << %d) < check_value < (1 << %d)): raise VerificationError(...) *)" % domain)
        out.append("Definition gen_check_in_domain (check_value : Z) : bool :=\n"
                   "  Z.ltb (- (Z.shiftl 1 %d)) check_value && Z.ltb check_value (Z.shiftl 1 %d).\n" % domain)
    else:
        out.append("(* recompiler.py: no range guard on check_value *)")
        out.append("Definition gen_check_in_domain (check_value : Z) : bool := true.\n")
    out.append("(* recompiler.py: if (!_cffi_check_int( *o, n, <literal>)) n |= %s; *)" % g["bits"])
    out.append("Definition gen_check_fail_bits : Z := %s.\n" % g["bits"])
    out.append("(* which declarations pass a check_value to _generate_cpy_const *)")
    out.append("Definition gen_macro_checked : bool := true.")
    out.append("Definition gen_enumerator_checked : bool := %s.          (* enum e { A = 5 }; *)" % cbool(enum_checked))
    out.append("Definition gen_partial_enumerator_checked : bool := %s.  (* enum e { A = 5, ... }; *)\n"
               % cbool(enum_partial_checked))
    out.append("Definition F_CHECK_FIELDS : Z := %d." % _define(pch, "_CFFI_F_CHECK_FIELDS"))
    out.append("Definition F_PACKED : Z := %d." % _define(pch, "_CFFI_F_PACKED"))
    out.append("Definition SF_PACKED : Z := %d." % _define(bk, "SF_PACKED"))
    out.append("Definition SF_STD_FIELD_POS : Z := %d." % _define(bk, "SF_STD_FIELD_POS"))
    out.append("(* realize_c_type.c: detect_custom_layout(ct, %s, ctf->ct_size, fld->field_size, ...) *)" % fieldflag)
    out.append("Definition realize_field_check_sflags : Z := %s.\n" % fieldflag)
    try:
        out.append(c12_regen.translate(open(os.path.join(src, "c", "parse_c_type.c")).read()))
    except c12_regen.Untranslatable as e:
        raise Untranslatable(str(e))
    return "\n".join(out)


def regen(ctx):
    try:
        text = translate_gen()
    except (Untranslatable, OSError, SyntaxError) as e:
        ctx.translator("C12/Gen.v", "fallback: %s" % e)
        return
    old = open(GEN).read() if os.path.exists(GEN) else None
    if old == text:
        ctx.translator("C12/Gen.v", "unchanged")
    else:
        with vlib.CoqLock():
            with open(GEN, "w") as f:
                f.write(text)
        ctx.translator("C12/Gen.v", "regenerated")


# =============================================================================== generation
INTS = list(W.INT_TYPES)
VERIFY_OK = False      # c33 sets restrictions through gen_module(..., for_verify=True)


def int_range(ctype):
    size, signed = W.INT_TYPES[ctype]
    return (-(1 << (8 * size - 1)), (1 << (8 * size - 1)) - 1) if signed else (0, (1 << (8 * size)) - 1)


def rand_in(rng, ctype):
    lo, hi = int_range(ctype)
    return rng.choice([lo, hi, 0, 1, hi - 1, lo + 1, rng.randint(lo, hi), rng.randint(lo, hi),
                       rng.randint(max(lo, -300), min(hi, 300))])


def mutate_value(rng, c, beyond):
    if beyond:
        return rng.choice([c + (1 << 64), c - (1 << 64), c + (1 << 65), c + (1 << 64) + 1])
    for _ in range(50):
        e = rng.choice([c + 1, c - 1, -c, ~c, c ^ (1 << rng.randrange(64)), c + (1 << 32), c - (1 << 32),
                        c + (1 << 64), c - (1 << 64), c + (1 << 63), c - (1 << 63), rng.randint(-300, 300),
                        (1 << 64) - 1, -(1 << 64) + 1, 0])
        if e != c and -(1 << 64) < e < (1 << 64):
            return e
    return c + 1


def gen_const(rng, name, for_verify=False):
    ctype = rng.choice(INTS)
    cval = rand_in(rng, ctype)
    form = "cast"
    r = rng.random()
    if r < 0.2 and -(1 << 63) < cval < (1 << 63):
        form = "plain"
        ctype = "int" if abs(cval) < (1 << 31) else "long"
    elif r < 0.3 and -(1 << 31) <= cval < (1 << 31):
        form, ctype = "enumconst", "int"
    if not for_verify and rng.random() < 0.3:
        # values that make sense as array lengths (all integer types hold them); 2^63-1 / 2^63 = the limit
        cval = rng.choice([1, 2, 3, 6, 9, 17, 64, 100, 127, 0])
        if ctype in ("long", "unsigned long", "long long", "unsigned long long") and rng.random() < 0.3:
            cval = rng.choice([LEN_MAX, LEN_MAX - 1, 1 << 62, 4097, 1 << 32])
            if not W.INT_TYPES[ctype][1] and rng.random() < 0.5:
                cval = rng.choice([1 << 63, (1 << 63) + 1])
        if form == "plain" and cval >= (1 << 63):
            form = "cast"
        if form == "plain":
            ctype = "int" if abs(cval) < (1 << 31) else "long"
        elif form == "enumconst" and not (-(1 << 31) <= cval < (1 << 31)):
            form = "cast"
    k = dict(name=name, ctype=ctype, cval=cval, form=form, decl="macro", cdef=cval, beyond=False)
    r = rng.random()
    if for_verify:
        if r < 0.15 and form != "enumconst":
            k["decl"] = "constdecl"
            k["cdef"] = None
        elif r < 0.3:
            k["cdef"] = None
        return k
    if r < 0.10 and form != "enumconst":
        k["decl"] = "constdecl"
        k["cdef"] = None
    elif r < 0.20:
        k["cdef"] = None
    elif r < 0.60:
        k["cdef"] = mutate_value(rng, cval, False)
    return k


def gen_enum(rng, name, prefix, for_verify=False):
    n = rng.choice([1, 2, 3, 4])
    wide = rng.random() < 0.15
    items = []
    for i in range(n):
        c = rng.choice([0, 1, 2, 5, 100, 255, 65536, (1 << 31) - 1, rng.randint(0, 1 << 20)])
        if wide:
            c = rng.choice([c, (1 << 32) - 1, (1 << 31), rng.randint(1 << 31, (1 << 32) - 1)])
        elif rng.random() < 0.4:
            c = rng.choice([-c, -1, -(1 << 31)])
        items.append(["%s_%s%d" % (prefix, name, i), c, c])
    partial = rng.random() < 0.2
    if not for_verify and rng.random() < 0.45:
        i = rng.randrange(n)
        c = items[i][1]
        lo, hi = (0, (1 << 32) - 1) if wide else (-(1 << 31), (1 << 31) - 1)
        d = rng.choice([c + 1, c - 1, 0, 1, rng.randint(lo, hi)])
        d = min(max(d, lo), hi)
        items[i][2] = d
    return dict(name=name, items=items, partial=partial)


FIELD_BASES = ([(t, 5) for t in INTS] + [("float", 4), ("double", 6)] + [(p, 2) for p in W.PTR_TYPES]
               + [(a, 2) for a in sorted(W.NESTED)])


def pick_base(rng):
    tot = sum(w for _, w in FIELD_BASES)
    x = rng.uniform(0, tot)
    for b, w in FIELD_BASES:
        x -= w
        if x <= 0:
            return b
    return "int"


def other_base(rng, base):
    cat = W.category(base)
    pool = {"int": INTS, "float": list(W.FLOAT_TYPES), "ptr": W.PTR_TYPES, "agg": sorted(W.NESTED)}[cat]
    pool = [b for b in pool if b != base]
    return rng.choice(pool)


def gen_struct(rng, name, for_verify=False):
    union = rng.random() < 0.15
    n = rng.choice([1, 2, 2, 3, 3, 4, 5])
    cfields = []
    for i in range(n):
        arr = rng.choice([1, 2, 3, 5, 7]) if rng.random() < 0.25 else None
        cfields.append(["f%d" % i, pick_base(rng), arr])
    flex = False
    if not union and n >= 2 and rng.random() < 0.06 and not for_verify:
        cfields[-1][2] = "[]"
        if W.category(cfields[-1][1]) == "agg":
            cfields[-1][1] = "int"
        flex = True
    s = dict(name=name, union=union, cpacked=False, packed=False, partial=rng.random() < 0.3,
             cfields=cfields, dfields=[list(f) for f in cfields], mut="none")
    if rng.random() < 0.08:
        s["cpacked"] = s["packed"] = True
    movable = len(cfields) - (1 if flex else 0)
    r = rng.random()
    d = s["dfields"]
    if for_verify:
        # verify() and set_source() must agree on *matching* declarations; keep '...' variety
        if r < 0.25 and movable >= 2:
            s["partial"] = True
            i = rng.randrange(movable - 1)
            d[i], d[i + 1] = d[i + 1], d[i]
            s["mut"] = "swap"
        elif r < 0.45 and movable >= 2:
            s["partial"] = True
            del d[rng.randrange(movable)]
            s["mut"] = "drop"
        return s
    if r < 0.35:
        pass
    elif r < 0.60:
        i = rng.randrange(movable)
        d[i][1] = other_base(rng, d[i][1])
        s["mut"] = "type"
    elif r < 0.70 and movable >= 2:
        i = rng.randrange(movable - 1)
        d[i], d[i + 1] = d[i + 1], d[i]
        s["mut"] = "swap"
    elif r < 0.80 and len(d) >= 2 and movable >= 1 and not (flex and len(d) == 2):
        del d[rng.randrange(movable)]
        s["mut"] = "drop"
    elif r < 0.88:
        arrs = [i for i in range(movable) if isinstance(d[i][2], int)]
        if arrs:
            i = rng.choice(arrs)
            d[i][2] = max(1, d[i][2] + rng.choice([-1, 1, 2]))
            if d[i][2] == cfields[i][2]:
                d[i][2] += 1
            s["mut"] = "arrlen"
    elif r < 0.94:
        if rng.random() < 0.5:
            s["packed"] = not s["packed"]
        else:
            s["cpacked"] = not s["cpacked"]
        s["mut"] = "pack"
    else:
        arrs = [i for i in range(movable) if isinstance(d[i][2], int)]
        if arrs:
            d[rng.choice(arrs)][2] = "..."
            s["mut"] = "dots"
    return s


def gen_var(rng, name):
    if rng.random() < 0.3:
        base = rng.choice(["int", "short", "unsigned long", "long long"])
        n = rng.choice([1, 2, 5])
        return dict(name=name, base=base, arr=n, darr=rng.choice([str(n), "..."]),
                    init=[rand_in(rng, base) for _ in range(n)], w1=rand_in(rng, base), w2=0)
    base = rng.choice(INTS + ["double", "double", "float"])
    if W.category(base) == "int":
        return dict(name=name, base=base, arr=None, init=[rand_in(rng, base)], w1=rand_in(rng, base),
                    w2=rand_in(rng, base))
    vals = [0.0, -1.5, 3.25, 1e10, -2.0 ** -20, 12345.0, 0.5]
    return dict(name=name, base=base, arr=None, init=[rng.choice(vals)], w1=rng.choice(vals), w2=rng.choice(vals))


FUNC_INTS = ["int", "long", "unsigned int", "short", "long long", "unsigned long", "unsigned char", "signed char",
             "unsigned short", "unsigned long long"]


def gen_func(rng, name):
    if rng.random() < 0.3:
        nargs = rng.choice([1, 2, 3])
        args = [rng.choice(["double", "double", "float"]) for _ in range(nargs)]
        ret = rng.choice(["double", "float"])
        body = "return (%s)(%s);" % (ret, " + ".join("a%d * %s" % (i, rng.choice(["0.5", "2.0", "-1.25"])) for i in range(nargs)))
        vals = [0.0, 1.0, -2.5, 1024.0, 0.125, -7.0, 3.0e5]
        calls = [[rng.choice(vals) for _ in args] for _ in range(3)]
        return dict(name=name, ret=ret, args=args, body=body, calls=calls)
    nargs = rng.choice([0, 1, 2, 3])
    args = [rng.choice(FUNC_INTS) for _ in range(nargs)]
    ret = rng.choice(FUNC_INTS)
    terms = ["(unsigned long long)a%d * %dULL" % (i, rng.choice([1, 3, 7, 65537])) for i in range(nargs)]
    terms.append("%dULL" % rng.randint(0, 1000))
    body = "return (%s)(%s);" % (ret, " + ".join(terms))
    calls = [[rand_in(rng, t) for t in args] for _ in range(3 if nargs else 1)]
    return dict(name=name, ret=ret, args=args, body=body, calls=calls)


def gen_typedef(rng, name, for_verify=False):
    return dict(name=name, ctype=rng.choice(INTS), dotdotdot=(not for_verify and rng.random() < 0.5))


def gen_module(rng, idx, sizes, for_verify=False, prefix="_c12_"):
    """all C-level names carry the module tag: one gcc facts program serves all modules of a run"""
    nc, ne, ns, nv, nf, nt = sizes
    tag = "m%d" % idx
    return dict(kind="module", name="%s%d" % (prefix, idx),
                consts=[gen_const(rng, "K%s_%d" % (tag, i), for_verify) for i in range(nc)],
                enums=[gen_enum(rng, "e%s_%d" % (tag, i), "E", for_verify) for i in range(ne)],
                structs=[gen_struct(rng, "s%s_%d" % (tag, i), for_verify) for i in range(ns)],
                vars=[gen_var(rng, "gv%s_%d" % (tag, i)) for i in range(nv)],
                funcs=[gen_func(rng, "fn%s_%d" % (tag, i)) for i in range(nf)],
                typedefs=[gen_typedef(rng, "t%s_%d" % (tag, i), for_verify) for i in range(nt)])


def gen_category_module(rng, idx):
    """one struct whose cdef declares a field with a type of another category (integer / float / pointer /
    aggregate) than the C source: reported by the C compiler on the generated _cffi_checkfld_ function
    (VerificationError from ffi.compile) or, where gcc only warns, left to the run-time checks"""
    m = gen_module(rng, idx, (0, 0, 1, 0, 0, 0))
    st = m["structs"][0]
    st["dfields"] = [list(f) for f in st["cfields"]]
    st["packed"] = st["cpacked"] = False
    movable = [i for i, f in enumerate(st["dfields"]) if f[2] != "[]"]
    i = rng.choice(movable)
    cat = W.category(st["dfields"][i][1])
    pools = {"int": INTS, "float": list(W.FLOAT_TYPES), "ptr": W.PTR_TYPES, "agg": sorted(W.NESTED)}
    st["dfields"][i][1] = rng.choice(pools[rng.choice([c for c in pools if c != cat])])
    st["mut"] = "category"
    m["ctmut"] = True
    return m


def gen_beyond_module(rng, idx):
    """one checked constant whose cdef value is outside (-2^64, 2^64): not a C literal"""
    m = gen_module(rng, idx, (1, 0, 0, 0, 0, 0))
    k = m["consts"][0]
    k["decl"], k["beyond"] = "macro", True
    k["cdef"] = mutate_value(rng, k["cval"], True)
    while -(1 << 64) < k["cdef"] < (1 << 64):
        k["cdef"] += (1 << 64) if k["cdef"] >= 0 else -(1 << 64)
    m["beyond_mod"] = True
    return m


def gen_zero_length_module(idx):
    """directed (no randomness): checked constants whose C value is 0 while the cdef says otherwise, next to
    agreeing zeros — the witness of the fixed finding zero-const-array-length (/repo 8e135ea), kept in
    every run so that the defect is reported as a VIOLATION if it returns"""
    tag = "mz%d" % idx
    specs = [("int", "plain", 0, 5), ("int", "plain", 0, 0), ("unsigned long", "cast", 0, 1),
             ("long long", "cast", 0, -1), ("unsigned char", "cast", 0, (1 << 64) - 1), ("int", "enumconst", 0, 7),
             ("short", "cast", 0, None), ("int", "plain", 5, 0)]
    consts = [dict(name="K%s_%d" % (tag, i), ctype=t, cval=c, form=f, decl="macro", cdef=e, beyond=False)
              for i, (t, f, c, e) in enumerate(specs)]
    return dict(kind="module", name="_c12_%d" % idx, consts=consts, enums=[], structs=[], vars=[], funcs=[], typedefs=[])


def generate(ctx):
    n = ctx.n(12, 250)
    cases = [gen_module(ctx.rng, i, (16, 4, 14, 3, 3, 2)) for i in range(n)]
    cases += [gen_category_module(ctx.rng, n + i) for i in range(ctx.n(3, 40))]
    cases += [gen_beyond_module(ctx.rng, n + 100 + i) for i in range(ctx.n(2, 30))]
    cases.append(gen_zero_length_module(n + 200))
    return cases


# =============================================================================== evaluation
def promoted_type(k):
    size, signed = W.INT_TYPES[k["ctype"]]
    if k["form"] == "plain":
        return "s32" if abs(k["cval"]) < (1 << 31) else "s64"
    if size < 4:
        return "s32"
    return ("s" if signed else "u") + str(size * 8)


def type_by_value(c):
    if -(1 << 31) <= c < (1 << 31):
        return "s32"
    if 0 <= c < (1 << 32):
        return "u32"
    if -(1 << 63) <= c < (1 << 63):
        return "s64"
    return "u64"


def fact_const(facts, name):
    f = facts.get("C|" + name)
    if f is None:
        return None
    nonpos, ull = int(f[0]), int(f[1])
    return ull - (1 << 64) if (nonpos and ull) else ull


def res_literal(r):
    """impl result {"ok": v} / {"err": cls} -> Coq literal of type option (res Z), or None"""
    if "ok" in r:
        return "Some (Ok %s)" % cz(r["ok"]) if isinstance(r["ok"], int) else None
    if r["err"] in ("FFIError", "TypeError"):
        return "Some (Err %s)" % r["err"]
    return None


def layout_literal(fields, size, align):
    return "(mklayout %s %s %s)" % (clist(["(%s, %s)" % (cz(o), cz(s)) for o, s in fields]), cz(size), cz(align))


LEN_MAX = (1 << 63) - 1       # MAX_SSIZE_T


def len_literal(o):
    """outcome of using a name as array length -> Coq literal of type option (res ps_len), or None"""
    if "ok" in o:
        return "Some (Ok (PSLen %s))" % cz(o["ok"]) if isinstance(o["ok"], int) else None
    if o["err"] == "FFIError" and o.get("kind") in ("PSTooLarge", "PSDisagree", "PSNotPositive"):
        return "Some (Ok (PSErr %s))" % o["kind"]
    return None


def check_as_length(ctx, case, what, name, c, declared, got, keyfn, model_in, lencases, lenowner):
    """the property predicate for `name` used as an array length in run-time type strings, decided from
    gcc's value c and the cdef's value (declared = None: '...', unchecked declaration, or partial enum);
    then the observed outcome is queued for comparison with C12.Model.const_array_length"""
    corr = "C12.Model.const_array_length vs generated module"
    for phase, when in (("len_pre", "before"), ("len_post", "after")):
        uses = got[phase]
        ctx.count(len(uses))
        mism = declared is not None and declared != c
        if mism:
            ctx.hist("as-length", "mismatch/zero" if c == 0 else "mismatch")
            bad = {u: o["ok"] for u, o in uses.items() if "ok" in o}
            if bad:
                keys = {keyfn(v) for v in bad.values()}
                ctx.violation(case, "%s %s: C value %d but cdef says %d; as an array length in a type string (%s lib.%s "
                              "is read) it is used silently: %r" % (what, name, c, declared, when, name, bad),
                              keys.pop() if len(keys) == 1 else None)
        elif 0 <= c <= LEN_MAX:
            ctx.hist("as-length", "valid")
            bad = {u: o for u, o in uses.items() if o != {"ok": c}}
            if bad:
                ctx.violation(case, "%s %s = %d (cdef: %s) as an array length in a type string (%s lib.%s is read): %r"
                              % (what, name, c, "same" if declared is not None else "'...'/unchecked", when, name, bad))
        else:
            ctx.hist("as-length", "negative" if c < 0 else "too-large")
            bad = {u: o["ok"] for u, o in uses.items() if "ok" in o}
            if bad:
                ctx.violation(case, "%s %s = %d is not a valid array length, but used as one (%s lib.%s is read) gives %r"
                              % (what, name, c, when, name, bad))
        outs = list(uses.values())
        if any(o != outs[0] for o in outs):
            ctx.mismatch(case, "%s %s: the uses as an array length (%s lib.%s is read) differ: %r" % (what, name, when, name, uses), corr)
            continue
        lit = len_literal(outs[0])
        if lit is None:
            ctx.mismatch(case, "%s %s as an array length: outcome %r not in the model's range" % (what, name, outs[0]), corr)
        else:
            lencases.append((model_in, lit))
            lenowner.append(case)


def single(m, **kw):
    """the module case reduced to one item (for replay files)"""
    out = dict(kind="module", name=m["name"], consts=[], enums=[], structs=[], vars=[], funcs=[], typedefs=[])
    out.update(kw)
    return out


def const_key(k):
    if k.get("cdef") is not None and not (-(1 << 64) < k["cdef"] < (1 << 64)):
        return "const-beyond-64bit"
    return None


def struct_decl(s, facts):
    """per cdef field (size, align) of the declared type; '...' lengths come from the compiler"""
    decl = []
    for name, base, arr in s["dfields"]:
        size, align = W.base_size_align(base)
        if arr == "[]":
            decl.append((-1, align))
        elif arr == "...":
            real = next(cf for cf in s["cfields"] if cf[0] == name)
            rsize = int(facts["S|%s|%s" % (s["name"], name)][1])
            rbase = W.base_size_align(real[1])[0]
            # the length is sizeof(field)/sizeof(field[0]) as the *C compiler* sees it
            decl.append(((rsize // rbase) * size, align))
        elif arr is None:
            decl.append((size, align))
        else:
            decl.append((size * arr, align))
    return decl


def evaluate(ctx, cases):
    if not cases:
        return
    s = ctx.scratch()
    out, p = s.run_worker("c12_worker.py", dict(cases=cases, jobs=6), timeout=3000)
    if out is None:
        ctx.obligation_broken("C12 worker", (p.stderr or p.stdout)[-3000:])
        return
    constcases, constowner = [], []
    structcases, structowner = [], []
    natcases, natowner = [], []
    lencases, lenowner = [], []
    for m, r in zip(cases, out["results"]):
        if "harness_error" in r:
            ctx.obligation_broken("C12 harness on module %s" % m["name"], r["harness_error"])
            continue
        if "crash" in r:
            if "did not finish" in r["crash"]:
                ctx.obligation_broken("C12 harness on module %s" % m["name"], r["crash"])
            else:
                ctx.violation(m, "building/probing the module ends the Python process: " + r["crash"])
            continue
        if "build_error" in r and r["build_error"] == "VerificationError" and m.get("beyond_mod"):
            # a cdef constant that is not a C literal is refused when the module is generated
            k = m["consts"][0]
            ctx.count()
            ctx.hist("const", "beyond/refused-at-build")
            ctx.nontrivial(("const", k["cval"], k["cdef"]))
            constcases.append(("(KMacro, %s, %s, Some %s)" % (promoted_type(k), cz(k["cval"]), cz(k["cdef"])),
                               "Some (Err BuildError)"))
            constowner.append(m)
            continue
        if "build_error" in r and r["build_error"] == "VerificationError" and m.get("ctmut"):
            ctx.count()             # the C compiler refused the mismatching field type
            ctx.hist("struct", "category/compile-error")
            ctx.nontrivial(("category", m["structs"][0]["cfields"], m["structs"][0]["dfields"]))
            continue
        if "build_error" in r:
            ctx.violation(m, "API module for a valid (cdef, C source) pair does not build: %s: %s"
                          % (r["build_error"], r.get("build_msg", "")[-300:]))
            continue
        facts, pr = r["facts"], r["probe"]
        # ---- platform table used for the declared field types
        for key, v in facts.items():
            if key.startswith("T|"):
                if tuple(int(x) for x in v) != W.base_size_align(key[2:]):
                    ctx.obligation_broken("C12 type table", "gcc says %s has size/align %r" % (key[2:], v))
        # ---- constants
        for k in m["consts"]:
            ctx.count()
            c = fact_const(facts, k["name"])
            got = pr["consts"][k["name"]]
            case = single(m, consts=[k])
            if c != k["cval"]:
                ctx.obligation_broken("C12 generator", "gcc gives %s = %r, generator meant %r" % (k["name"], c, k["cval"]))
                continue
            if got["lib"] != got["ffi"] or got["lib"] != got["lib2"]:
                ctx.violation(case, "lib.%s, ffi.integer_const and a second read disagree: %r" % (k["name"], got))
            e = k["cdef"] if k["decl"] == "macro" else None
            g = got["lib"]
            ctx.hist("const", "match" if e == c else "dots/unchecked" if e is None else
                     "beyond" if const_key(k) else "mismatch")
            if e is None or e == c:
                if g != {"ok": c}:
                    ctx.violation(case, "constant %s: C value %d, cdef %s, lib gives %r" % (k["name"], c, e, g))
            else:
                ctx.nontrivial(("const", c, e))
                if "ok" in g:
                    ctx.violation(case, "constant %s: C value %d but cdef says %d; lib.%s silently gives %r"
                                  % (k["name"], c, e, k["name"], g["ok"]), const_key(k))
            if True:
                lit = res_literal(g)
                if lit is None:
                    ctx.mismatch(case, "constant %s: implementation outcome %r not in the model's range" % (k["name"], g),
                                 "C12.Model.lib_constant vs generated module")
                else:
                    constcases.append(("(KMacro, %s, %s, %s)" % (promoted_type(k), cz(c), "None" if e is None else "Some " + cz(e)), lit))
                    constowner.append(case)
            check_as_length(ctx, case, "constant", k["name"], c, e, got,
                            lambda v, c=c: "zero-const-array-length" if (c == 0 and v == 0) else None,
                            "(KMacro, %s, %s, %s)" % (promoted_type(k), cz(c), "None" if e is None else "Some " + cz(e)),
                            lencases, lenowner)
        # ---- enumerators
        for en in m["enums"]:
            er = pr["enums"][en["name"]]
            # a checked enum with a disagreeing enumerator: realising the enum type itself may raise
            enum_mism = (not en["partial"]) and any(fact_const(facts, n) != d for n, _, d in en["items"])
            relem = er["relements"]
            if "ok" not in relem and not (enum_mism and relem.get("err") == "FFIError"):
                ctx.violation(single(m, enums=[en]), "typeof('enum %s').relements raises %r" % (en["name"], relem))
            for n, cgen, d in en["items"]:
                ctx.count()
                c = fact_const(facts, n)
                g = er["items"][n]
                case = single(m, enums=[en])
                if c != cgen:
                    ctx.obligation_broken("C12 generator", "gcc gives %s = %r, generator meant %r" % (n, c, cgen))
                    continue
                ctx.hist("enumerator", "match" if d == c else "partial" if en["partial"] else "mismatch")
                if d == c or en["partial"]:
                    if g != {"ok": c} or ("ok" in relem and relem["ok"].get(n) != c):
                        ctx.violation(case, "enumerator %s: C value %d, lib gives %r, typeof().relements %r" % (n, c, g, relem))
                else:
                    ctx.nontrivial(("enum", c, d))
                    if "ok" in g and g["ok"] == d:
                        ctx.violation(case, "enumerator %s: C value %d, lib uses the cdef's value %d" % (n, c, d))
                    elif "ok" in g:
                        ctx.violation(case, "enumerator %s: C value %d but cdef says %d; lib.%s silently gives %r"
                                      % (n, c, d, n, g["ok"]), "enumerator-unchecked")
                kind = "KEnumeratorPartial" if en["partial"] else "KEnumerator"
                lit = res_literal(g)
                if lit is not None:
                    constcases.append(("(%s, %s, %s, Some %s)" % (kind, type_by_value(c), cz(c), cz(d)), lit))
                    constowner.append(case)
                else:
                    ctx.mismatch(case, "enumerator %s: implementation outcome %r not in the model's range" % (n, g),
                                 "C12.Model.lib_constant vs generated module")
                check_as_length(ctx, case, "enumerator", n, c, None if en["partial"] else d,
                                {"len_pre": er["len_pre"][n], "len_post": er["len_post"][n]},
                                lambda v, c=c: "enumerator-unchecked" if v == c else None,
                                "(%s, %s, %s, Some %s)" % (kind, type_by_value(c), cz(c), cz(d)), lencases, lenowner)
            want_size = {"ok": int(facts["E|" + en["name"]][0])}
            if er["sizeof"] != want_size and not (enum_mism and er["sizeof"].get("err") == "FFIError"):
                ctx.violation(single(m, enums=[en]), "sizeof(enum %s): gcc %s, ffi %r" % (en["name"], facts["E|" + en["name"]], er["sizeof"]))
        # ---- structs
        for st in m["structs"]:
            ctx.count()
            case = single(m, structs=[st])
            sp = pr["structs"][st["name"]]
            names = [f[0] for f in st["dfields"]]
            real = dict(size=int(facts["S|" + st["name"]][0]), align=int(facts["S|" + st["name"]][1]),
                        fields=[[int(x) for x in facts["S|%s|%s" % (st["name"], n)]] for n in names])
            twin = dict(size=int(facts["W|" + st["name"]][0]), align=int(facts["W|" + st["name"]][1]),
                        fields=[[int(x) for x in facts["W|%s|%s" % (st["name"], n)]] for n in names])
            outcomes = [sp[k] for k in ("sizeof", "fields", "alignof", "sizeof2", "new")]
            errs = [o.get("err") for o in outcomes]
            if all(e is None for e in errs):
                flds = sp["fields"]["ok"]
                impl = dict(size=sp["sizeof"]["ok"], align=sp["alignof"]["ok"], fields=[[o, z] for _, o, z in flds])
                impl_err = None
                if [n for n, _, _ in flds] != names or sp["sizeof2"]["ok"] != impl["size"] or sp["new"]["ok"] != impl["size"]:
                    ctx.violation(case, "struct %s: inconsistent observations %r" % (st["name"], sp))
            elif all(e is not None for e in errs) and len(set(errs)) == 1:
                impl, impl_err = None, errs[0]
            else:
                ctx.violation(case, "struct %s: some uses raise and some do not: %r" % (st["name"], sp))
                continue
            # property predicate, from gcc's facts only
            differs = (twin["fields"] != real["fields"] or twin["size"] != real["size"])
            size_differs = [f[1] for f in twin["fields"]] != [f[1] for f in real["fields"]]
            ctx.hist("struct", "%s/%s/%s" % (st["mut"], "partial" if st["partial"] else "checked",
                                             "differs" if differs else "agrees"))
            if differs or st["mut"] != "none":
                ctx.nontrivial(("struct", st["cfields"], st["dfields"], st["partial"], st["packed"], st["cpacked"]))
            if impl is not None:
                if impl != real:
                    ctx.violation(case, "struct %s: layout %r is not the compiler's %r" % (st["name"], impl, real))
                if not st["partial"] and differs:
                    ctx.violation(case, "struct %s without '...': cdef implies %r, C compiler says %r; accepted silently"
                                  % (st["name"], twin, real))
            else:
                if not differs and twin["align"] == real["align"]:
                    ctx.violation(case, "struct %s: declaration agrees with the C source (%r) but using it raises %s"
                                  % (st["name"], real, impl_err))
                elif st["partial"] and not size_differs:
                    ctx.violation(case, "struct %s with '...': field sizes agree but using it raises %s" % (st["name"], impl_err))
                elif impl_err not in ("FFIError", "VerificationError"):
                    ctx.violation(case, "struct %s: mismatch reported as %s, not as a cffi error" % (st["name"], impl_err))
            # model
            decl = struct_decl(st, facts)
            inp = "(%s, %s, %s, %s, mkreport %s %s %s)" % (
                cbool(st["partial"]), cbool(st["packed"]), cbool(st["union"]),
                clist(["mkfdecl %s %s" % (cz(a), cz(b)) for a, b in decl]),
                clist(["mkfrep %s %s" % (cz(o), cz(z)) for o, z in real["fields"]]), cz(real["size"]), cz(real["align"]))
            if impl is not None:
                exp = "Ok " + layout_literal(impl["fields"], impl["size"], impl["align"])
            elif impl_err in ("FFIError", "TypeError"):
                exp = "Err " + impl_err
            else:
                ctx.mismatch(case, "struct %s: outcome %s outside the model" % (st["name"], impl_err),
                             "C12.Model.realize_struct vs generated module")
                continue
            structcases.append((inp, exp))
            structowner.append(case)
            # Spec check: what the cdef implies = gcc's layout of the twin
            natcases.append(("(%s, %s, %s)" % (cbool(st["packed"]), cbool(st["union"]),
                                               clist(["mkfdecl %s %s" % (cz(a), cz(b)) for a, b in decl])),
                             "Ok " + layout_literal(twin["fields"], twin["size"], twin["align"])))
            natowner.append(case)
        # ---- typedefs, variables, functions: the module reflects the C source
        for t in m["typedefs"]:
            ctx.count()
            f = facts["Y|" + t["name"]]
            if pr["typedefs"][t["name"]] != {"ok": [int(f[0]), bool(int(f[1]))]}:
                ctx.violation(single(m, typedefs=[t]), "typedef %s: gcc size/signed %r, ffi %r" % (t["name"], f, pr["typedefs"][t["name"]]))
        for v in m["vars"]:
            ctx.count()
            vr = pr["vars"][v["name"]]
            case = single(m, vars=[v])
            a = vr["addr"]
            if "ok" not in a or a["ok"][0] != a["ok"][1]:
                ctx.violation(case, "global %s: ffi.addressof differs from &%s in C: %r" % (v["name"], v["name"], a))
            if v["arr"] is None:
                isint = W.category(v["base"]) == "int"
                conv = (lambda x: x) if isint else (lambda x: W.fval(_as(v["base"], x)))
                init = int(facts["V|" + v["name"]][0]) if isint else float.fromhex(facts["V|" + v["name"]][0]).hex()
                if vr["initial"] != {"ok": init}:
                    ctx.violation(case, "global %s: C value %r, lib reads %r" % (v["name"], init, vr["initial"]))
                if vr["write_read"] != {"ok": [conv(v["w1"]), conv(v["w2"])]}:
                    ctx.violation(case, "global %s: write %r seen by C / C write %r seen by lib: %r"
                                  % (v["name"], v["w1"], v["w2"], vr["write_read"]))
            else:
                if vr["len"] != {"ok": int(facts["V|" + v["name"]][0])} or vr["items"] != {"ok": v["init"]} \
                        or vr["write_read"] != {"ok": v["w1"]}:
                    ctx.violation(case, "global array %s: %r" % (v["name"], vr))
        for f in m["funcs"]:
            case = single(m, funcs=[f])
            for i, g in enumerate(pr["funcs"][f["name"]]):
                ctx.count()
                want = facts["R|%s|%d" % (f["name"], i)][0]
                want = float.fromhex(want).hex() if f["ret"] in W.FLOAT_TYPES else int(want)
                if g != {"ok": want}:
                    ctx.violation(case, "%s%r: C returns %r, lib call gives %r" % (f["name"], tuple(f["calls"][i]), want, g))
    # ---- the Coq model on the same inputs (the three batches run concurrently)
    batches = (
        (constcases, constowner, "fun p => match p with (k, t, c, d) => lib_constant k t c d end", "resZ_eqb",
         "C12.Model.lib_constant vs generated module"),
        (structcases, structowner,
         "fun p => match p with (pa, pk, u, d, r) => realize_struct (struct_flags pa pk) u d r end",
         "reslayout_eqb", "C12.Model.realize_struct vs generated module"),
        (natcases, natowner, "fun p => match p with (pk, u, d) => natural pk u d end", "reslayout_eqb",
         "C12.Model.natural (what the cdef implies) vs gcc layout of the cdef's struct"),
        (lencases, lenowner, "fun p => match p with (k, t, c, d) => const_array_length k t c d end", "reslen_eqb",
         "C12.Model.const_array_length vs generated module"))
    from concurrent.futures import ThreadPoolExecutor
    with ThreadPoolExecutor(4) as ex:
        # every expected literal carries its type: a shard whose outcomes are all `Err _` would
        # otherwise leave the parameter of `Err` undetermined
        types = ["option (res Z)", "res layout", "res layout", "option (res ps_len)"]
        futs = [ex.submit(vlib.coq_mismatches, ["C12.Spec", "C12.Gen", "C12.Model"], fexpr, eqb,
                          [(i, "(%s : %s)" % (o, ty)) for i, o in cases_], 400)
                for (cases_, owner, fexpr, eqb, corr), ty in zip(batches, types)]
        results = [f.result() for f in futs]
    for (cases_, owner, fexpr, eqb, corr), (bad, outs, err) in zip(batches, results):
        if err:
            ctx.obligation_broken("C12 model evaluation", err)
        for i in bad:
            ctx.mismatch(owner[i], "model = %s, observed %s on input %s" % (outs.get(i), cases_[i][1], cases_[i][0][:400]), corr)
    ctx.extra["model_evaluations"] = dict(constants=len(constcases), structs=len(structcases), natural=len(natcases),
                                          array_lengths=len(lencases))
    for m in cases[:1]:
        ctx.sample(single(m, consts=m["consts"][:2], structs=m["structs"][:2], enums=m["enums"][:1]))


def _as(base, x):
    if base == "float":
        import struct
        return struct.unpack("f", struct.pack("f", x))[0]
    return x


def run(ctx):
    ctx.cov["rule"] = (
        "modules of 16 integer constants (cast/plain/enum-constant forms over all integer types and boundary values; "
        "cdef value equal, '...', unchecked 'static const', or a single-point mutation incl. same-bit-pattern other sign), "
        "4 enums, 14 structs/unions (fields over integer/float/pointer/array/nested aggregate types; cdef equal or ONE of: "
        "field type changed within its category, adjacent fields swapped, field dropped, array length changed, packing "
        "changed, '[...]' length; each with and without '...;'), 3 globals, 3 functions, 2 typedefs; built by "
        "ffi.compile() and compared with facts printed by a separately gcc-compiled program over the same C source. "
        "Every constant and enumerator is read as lib.X (twice), ffi.integer_const(X) and used as an array length name in "
        "the type strings of ffi.typeof/sizeof/new(pointer)/cast (+ a real ffi.new('uint8_t[X]') for values <= 4096), once "
        "before and once after lib.X is read (values for lengths: small, 0, 2^62, SSIZE_MAX-1, SSIZE_MAX, 2^63, negative). "
        "Non-trivial = constant/enumerator whose cdef value differs from the C value, or struct that is mutated or whose "
        "cdef layout differs from the C layout; distinct by (values) resp. (field lists, flags).")
    ctx.assumptions += [
        "the statements of parse_sequel's constant-name array-length branch are translated by tools/props/c12_regen.py "
        "(mini-C: if/return parse_error/assignment to int locals; operators || && | & == != < > <= >= !; int operands as "
        "mathematical integers, int-vs-unsigned-64 comparisons modulo 2^64); the lookup search_in_globals and the "
        "realisation of the parsed array type are tied by the correspondence run only",
        "hand-written model C12/Model.v of realize_global_int, do_realize_lazy_struct_lock_held, detect_custom_layout and "
        "the non-bitfield part of b_complete_struct_or_union (tied by this run's differential test); the generated C "
        "expressions, _cffi_check_int and the flag values are regenerated from the source text (C12/Gen.v)",
        "C12/Spec.v: gcc's typing of decimal literals and usual arithmetic conversions on LP64 (checked against gcc by the "
        "constant cases of every run)",
        "gcc 12 compiles the generated module and the facts program consistently (same sizeof/offsetof)",
        "scope: named non-bitfield fields; bitfields and anonymous nested structs are not generated"]
    evaluate(ctx, generate(ctx))


MANIFEST = dict(
    technique="Coq proof (integer-constant check over a deep embedding of the regenerated C expressions; the decision "
              "parse_sequel takes on the constant getter's return code, regenerated statement by statement from "
              "parse_c_type.c; struct realisation with forced offsets by induction over the field list) + regeneration of "
              "Gen.v from the source text + differential correspondence on generated API-mode modules against gcc",
    text="Proof: for every '#define'-style integer constant (any promoted integer type, value c) and every cdef value e "
         "expressible as a C literal, lib.X returns c if c = e and raises ffi.error otherwise (values that are no C literal "
         "are refused when the module is generated); with '...' it returns c; the same iff holds for every kind of "
         "declaration to which the recompiler passes a check value (C12_checked_declaration_iff). The constant's NAME used as "
         "an array length in a run-time type string (ffi.typeof/new/cast/sizeof 'char[N]'): for every getter return code "
         "and 64-bit value the result of the regenerated parse_sequel branch is characterised exactly "
         "(C12_array_length_decision: code 0 -> the value if <= SSIZE_MAX else error; code 1 -> length 0 if the value is 0 "
         "else error; every other code -> 'disagreement' error whatever the value), and end to end through the generated "
         "getter: agreeing / '...' / unchecked constants give the compiler's value when it is a valid length, a "
         "disagreeing checked constant raises for every C value and every cdef value (C12_array_length_mismatch_raises). "
         "Enumerators: API mode passes no check value for them, the compiler's value is used silently "
         "(C12_enumerator_check_refuted, open finding enumerator-unchecked; C12_enumerator_by_flag states both cases); "
         "enumerators of 'enum { A, ... }' always give the compiler's value. For every struct "
         "declaration (named non-bitfield fields) and every compiler report: without '...' realisation succeeds iff "
         "the report equals the layout the cdef implies (offsets, sizes, total size, alignment) and raises ffi.error "
         "otherwise; with '...' only field sizes are compared; a resulting layout is always the compiler's. Tie: the "
         "generated C expressions/macro/flags, the enum/macro callers of _generate_cpy_const and the statements of the "
         "array-length branch of parse_sequel are re-extracted from the source on every run (fail closed); model vs real "
         "modules on random (cdef, C) pairs and single-point cdef mutations, every constant and enumerator being used as "
         "lib.X, ffi.integer_const(X) and as array length in typeof/sizeof/new/cast type strings before and after lib.X is read.",
    note="Partial: the C compiler and the generated glue are exercised by sampling; bitfields and anonymous nested "
         "structs are out of the model; array realisation after parsing (new_array_type) is not modelled, only compared. "
         "Known findings: enumerator values are not checked in API mode (enumerator-unchecked, open; upstream's "
         "test_typedef_broken_complete_enum asserts the silent behaviour, so no fix is proposed); a checked constant whose "
         "C value is 0 used to be accepted as array length 0 although the cdef says otherwise (zero-const-array-length, "
         "fixed in /repo 8e135ea; a directed witness module is part of every run); cdef constants outside (-2^64, 2^64) used to be truncated by gcc and "
         "accepted (const-beyond-64bit, fixed in /repo 52726e0). Calls, globals, global addresses, typedefs, bitfields and "
         "anonymous nested structs are decided by the correspondence run only.",
    design_ref="DESIGN.md §4 C12")
