"""C19: regenerate coq/C19/Gen.v — the condition of the open-array fast path of direct_from_buffer
(`if (<cond>) arraylength = view->len;`), parsed into the small condition language of coq/C19/Types.v.
Fail closed: any text outside the recognised shape raises RegenError (snapshot is used)."""
import re


class RegenError(Exception):
    pass


FLAGS = {"CT_PRIMITIVE_CHAR": "F_CHAR", "CT_PRIMITIVE_SIGNED": "F_SIGNED", "CT_PRIMITIVE_UNSIGNED": "F_UNSIGNED",
         "CT_PRIMITIVE_FLOAT": "F_FLOAT", "CT_PRIMITIVE_COMPLEX": "F_COMPLEX", "CT_IS_BOOL": "F_BOOL",
         "CT_IS_ENUM": "F_ENUM", "CT_IS_LONGDOUBLE": "F_LONGDOUBLE", "CT_POINTER": "F_POINTER",
         "CT_FUNCTIONPTR": "F_FUNCTIONPTR", "CT_STRUCT": "F_STRUCT", "CT_UNION": "F_UNION", "CT_ARRAY": "F_ARRAY",
         "CT_VOID": "F_VOID", "CT_IS_OPAQUE": "F_OPAQUE"}
ANY = ["CT_PRIMITIVE_SIGNED", "CT_PRIMITIVE_UNSIGNED", "CT_PRIMITIVE_CHAR", "CT_PRIMITIVE_FLOAT", "CT_PRIMITIVE_COMPLEX"]


def norm(s):
    return " ".join(re.sub(r"/\*.*?\*/", " ", s, flags=re.S).split())


def strip_parens(t):
    t = t.strip()
    while t.startswith("(") and t.endswith(")"):
        depth, ok = 0, True
        for i, ch in enumerate(t):
            depth += ch == "("
            depth -= ch == ")"
            if depth == 0 and i < len(t) - 1:
                ok = False
                break
        if not ok:
            break
        t = t[1:-1].strip()
    return t


def parse_atom(t):
    t = strip_parens(t)
    m = re.fullmatch(r"ct->ct_itemdescr->ct_size (==|<=|>) (\d+)", t)
    if m:
        return "CAtom (%s %s)" % ({"==": "ASizeEq", "<=": "ASizeLe", ">": "ASizeGt"}[m.group(1)], m.group(2))
    neg = False
    if t.startswith("!"):
        neg, t = True, strip_parens(t[1:])
    m = re.fullmatch(r"ct->ct_itemdescr->ct_flags & (\w+)", t)
    if m:
        name = m.group(1)
        if name == "CT_PRIMITIVE_ANY" and not neg:
            out = "CAtom (AFlag %s)" % FLAGS[ANY[0]]
            for n in ANY[1:]:
                out = "COr (%s) (CAtom (AFlag %s))" % (out, FLAGS[n])
            return out
        if name not in FLAGS:
            raise RegenError("unknown flag %r" % name)
        return "CAtom (%s %s)" % ("ANotFlag" if neg else "AFlag", FLAGS[name])
    raise RegenError("unrecognised test %r" % t)


def split_top(t, op):
    parts, depth, cur, i = [], 0, "", 0
    while i < len(t):
        if t[i] == "(":
            depth += 1
        elif t[i] == ")":
            depth -= 1
        if depth == 0 and t.startswith(op, i):
            parts.append(cur)
            cur = ""
            i += len(op)
            continue
        cur += t[i]
        i += 1
    parts.append(cur)
    return parts


def parse_cond(t):
    t = strip_parens(t)
    ors = split_top(t, "||")
    if len(ors) > 1:
        out = parse_cond(ors[0])
        for x in ors[1:]:
            out = "COr (%s) (%s)" % (out, parse_cond(x))
        return out
    ands = split_top(t, "&&")
    if len(ands) > 1:
        out = parse_cond(ands[0])
        for x in ands[1:]:
            out = "CAnd (%s) (%s)" % (out, parse_cond(x))
        return out
    return parse_atom(t)


def extract(src):
    m = re.search(r"static PyObject \*direct_from_buffer\(CTypeDescrObject \*ct, PyObject \*x,\s*int require_writable\)\s*\{(.*?)\n\}\n",
                  src, re.S)
    if not m:
        raise RegenError("direct_from_buffer not found")
    body = norm(m.group(1))
    m = re.search(r"if \(ct->ct_length >= 0\) \{ minimumlength = ct->ct_size; arraylength = ct->ct_length; \} "
                  r"else \{ if \((?P<c>.*?)\) \{ arraylength = view->len; \} "
                  r"else if \(ct->ct_itemdescr->ct_size > 0\) \{ arraylength = view->len / ct->ct_itemdescr->ct_size; \} "
                  r"else \{ PyErr_Format\(PyExc_ZeroDivisionError,", body)
    if not m:
        raise RegenError("direct_from_buffer: length computation changed shape")
    return dict(text=m.group("c"), cond=parse_cond(m.group("c")), **extract_fetch(src))


LEAVES = {"-1": "LUnknown", "ct->ct_size": "LCtSize",
          "get_array_length((CDataObject *)x) * ct->ct_itemdescr->ct_size": "LLenTimesItem"}
SCONDS = {"ct->ct_flags & CT_ARRAY": "SIsArray", "ct->ct_itemdescr->ct_size >= 0": "SItemSizeKnown"}


def parse_scond(t):
    parts = [strip_parens(x) for x in split_top(strip_parens(t), "&&")]
    out = None
    for x in parts:
        if x not in SCONDS:
            raise RegenError("_fetch_as_buffer: unrecognised test %r" % x)
        out = SCONDS[x] if out is None else "SAnd (%s) %s" % (out, SCONDS[x])
    return out


def parse_leaf(t):
    t = strip_parens(t)
    if t not in LEAVES:
        raise RegenError("_fetch_as_buffer: unrecognised length expression %r" % t)
    return LEAVES[t]


def extract_fetch(src):
    """the statements that set view->len for a cdata source in _fetch_as_buffer"""
    m = re.search(r"static int _fetch_as_buffer\(PyObject \*x, Py_buffer \*view, int writable_only\)\s*\{(.*?)\n\}\n",
                  src, re.S)
    if not m:
        raise RegenError("_fetch_as_buffer not found")
    body = norm(m.group(1))
    m = re.search(r"view->buf = \(\(CDataObject \*\)x\)->c_data; view->obj = NULL; (?P<s>.*?) return 0; \} else \{", body)
    if not m:
        raise RegenError("_fetch_as_buffer: cdata branch changed shape")
    st = m.group("s")
    m1 = re.fullmatch(r"view->len = (?P<d>[^;?]+); if \((?P<c>.*)\) view->len = (?P<a>[^;?]+);", st)
    if m1:
        expr = "LIf (%s) %s %s" % (parse_scond(m1.group("c")), parse_leaf(m1.group("a")), parse_leaf(m1.group("d")))
    else:
        m2 = re.fullmatch(r"view->len = (?P<c>[^?;]+) \? (?P<a>[^:;]+) : (?P<b>[^;]+);", st)
        if m2:
            expr = "LIf (%s) %s %s" % (parse_scond(m2.group("c")), parse_leaf(m2.group("a")), parse_leaf(m2.group("b")))
        else:
            m3 = re.fullmatch(r"view->len = (?P<a>[^;?]+);", st)
            if not m3:
                raise RegenError("_fetch_as_buffer: unrecognised statements %r" % st)
            expr = parse_leaf(m3.group("a"))
    return dict(fetch_text=st, fetch=expr)


def render(t):
    return ("(* GENERATED by tools/props/c19_regen.py from src/c/_cffi_backend.c (direct_from_buffer) - do not edit. *)\n"
            "From Coq Require Import ZArith.\nFrom Cffi Require Import C19.Types.\nOpen Scope Z_scope.\n\n"
            "(* the test guarding `arraylength = view->len` for an open array 'T[]':\n     %s *)\n"
            "Definition gen_from_buffer_fast : cond := %s.\n\n"
            "(* _fetch_as_buffer, cdata source: the statements computing view->len:\n     %s *)\n"
            "Definition gen_fetch_len : lenexpr := %s.\n"
            % (t["text"].replace("*)", "* )"), t["cond"], t["fetch_text"].replace("*)", "* )"), t["fetch"]))
