"""C19: regenerate coq/C19/Gen.v — the condition of the open-array fast path of direct_from_buffer
(`if (<cond>) arraylength = view->len;`), parsed into the small condition language of coq/C19/Types.v.
Fail closed: any text outside the recognised shape raises RegenError (snapshot is used)."""
import re


class RegenError(Exception):
    pass


FLAGS = {"CT_PRIMITIVE_CHAR": "F_CHAR", "CT_PRIMITIVE_SIGNED": "F_SIGNED", "CT_PRIMITIVE_UNSIGNED": "F_UNSIGNED",
         "CT_PRIMITIVE_FLOAT": "F_FLOAT", "CT_PRIMITIVE_COMPLEX": "F_COMPLEX", "CT_IS_BOOL": "F_BOOL",
         "CT_IS_ENUM": "F_ENUM", "CT_IS_LONGDOUBLE": "F_LONGDOUBLE", "CT_POINTER": "F_POINTER",
         "CT_FUNCTIONPTR": "F_FUNCTIONPTR", "CT_STRUCT": "F_STRUCT", "CT_UNION": "F_UNION", "CT_ARRAY": "F_ARRAY",
         "CT_VOID": "F_VOID", "CT_IS_OPAQUE": "F_OPAQUE"}
ANY = ["CT_PRIMITIVE_SIGNED", "CT_PRIMITIVE_UNSIGNED", "CT_PRIMITIVE_CHAR", "CT_PRIMITIVE_FLOAT", "CT_PRIMITIVE_COMPLEX"]


def norm(s):
    return " ".join(re.sub(r"/\*.*?\*/", " ", s, flags=re.S).split())


def strip_parens(t):
    t = t.strip()
    while t.startswith("(") and t.endswith(")"):
        depth, ok = 0, True
        for i, ch in enumerate(t):
            depth += ch == "("
            depth -= ch == ")"
            if depth == 0 and i < len(t) - 1:
                ok = False
                break
        if not ok:
            break
        t = t[1:-1].strip()
    return t


def parse_atom(t):
    t = strip_parens(t)
    m = re.fullmatch(r"ct->ct_itemdescr->ct_size (==|<=|>) (\d+)", t)
    if m:
        return "CAtom (%s %s)" % ({"==": "ASizeEq", "<=": "ASizeLe", ">": "ASizeGt"}[m.group(1)], m.group(2))
    neg = False
    if t.startswith("!"):
        neg, t = True, strip_parens(t[1:])
    m = re.fullmatch(r"ct->ct_itemdescr->ct_flags & (\w+)", t)
    if m:
        name = m.group(1)
        if name == "CT_PRIMITIVE_ANY" and not neg:
            out = "CAtom (AFlag %s)" % FLAGS[ANY[0]]
            for n in ANY[1:]:
                out = "COr (%s) (CAtom (AFlag %s))" % (out, FLAGS[n])
            return out
        if name not in FLAGS:
            raise RegenError("unknown flag %r" % name)
        return "CAtom (%s %s)" % ("ANotFlag" if neg else "AFlag", FLAGS[name])
    raise RegenError("unrecognised test %r" % t)


def split_top(t, op):
    parts, depth, cur, i = [], 0, "", 0
    while i < len(t):
        if t[i] == "(":
            depth += 1
        elif t[i] == ")":
            depth -= 1
        if depth == 0 and t.startswith(op, i):
            parts.append(cur)
            cur = ""
            i += len(op)
            continue
        cur += t[i]
        i += 1
    parts.append(cur)
    return parts


def parse_cond(t):
    t = strip_parens(t)
    ors = split_top(t, "||")
    if len(ors) > 1:
        out = parse_cond(ors[0])
        for x in ors[1:]:
            out = "COr (%s) (%s)" % (out, parse_cond(x))
        return out
    ands = split_top(t, "&&")
    if len(ands) > 1:
        out = parse_cond(ands[0])
        for x in ands[1:]:
            out = "CAnd (%s) (%s)" % (out, parse_cond(x))
        return out
    return parse_atom(t)


def extract(src, mb_src):
    m = re.search(r"static PyObject \*direct_from_buffer\(CTypeDescrObject \*ct, PyObject \*x,\s*int require_writable\)\s*\{(.*?)\n\}\n",
                  src, re.S)
    if not m:
        raise RegenError("direct_from_buffer not found")
    body = norm(m.group(1))
    m = re.search(r"if \(ct->ct_length >= 0\) \{ minimumlength = ct->ct_size; arraylength = ct->ct_length; \} "
                  r"else \{ if \((?P<c>.*?)\) \{ arraylength = view->len; \} "
                  r"else if \(ct->ct_itemdescr->ct_size > 0\) \{ arraylength = view->len / ct->ct_itemdescr->ct_size; \} "
                  r"else \{ PyErr_Format\(PyExc_ZeroDivisionError,", body)
    if not m:
        raise RegenError("direct_from_buffer: length computation changed shape")
    return dict(text=m.group("c"), cond=parse_cond(m.group("c")), mb=extract_mb(mb_src), **extract_fetch(src))


LEAVES = {"-1": "LUnknown", "ct->ct_size": "LCtSize",
          "get_array_length((CDataObject *)x) * ct->ct_itemdescr->ct_size": "LLenTimesItem"}
SCONDS = {"ct->ct_flags & CT_ARRAY": "SIsArray", "ct->ct_itemdescr->ct_size >= 0": "SItemSizeKnown"}


def parse_scond(t):
    parts = [strip_parens(x) for x in split_top(strip_parens(t), "&&")]
    out = None
    for x in parts:
        if x not in SCONDS:
            raise RegenError("_fetch_as_buffer: unrecognised test %r" % x)
        out = SCONDS[x] if out is None else "SAnd (%s) %s" % (out, SCONDS[x])
    return out


def parse_leaf(t):
    t = strip_parens(t)
    if t not in LEAVES:
        raise RegenError("_fetch_as_buffer: unrecognised length expression %r" % t)
    return LEAVES[t]


def extract_fetch(src):
    """the statements that set view->len for a cdata source in _fetch_as_buffer"""
    m = re.search(r"static int _fetch_as_buffer\(PyObject \*x, Py_buffer \*view, int writable_only\)\s*\{(.*?)\n\}\n",
                  src, re.S)
    if not m:
        raise RegenError("_fetch_as_buffer not found")
    body = norm(m.group(1))
    m = re.search(r"view->buf = \(\(CDataObject \*\)x\)->c_data; view->obj = NULL; (?P<s>.*?) return 0; \} else \{", body)
    if not m:
        raise RegenError("_fetch_as_buffer: cdata branch changed shape")
    st = m.group("s")
    m1 = re.fullmatch(r"view->len = (?P<d>[^;?]+); if \((?P<c>.*)\) view->len = (?P<a>[^;?]+);", st)
    if m1:
        expr = "LIf (%s) %s %s" % (parse_scond(m1.group("c")), parse_leaf(m1.group("a")), parse_leaf(m1.group("d")))
    else:
        m2 = re.fullmatch(r"view->len = (?P<c>[^?;]+) \? (?P<a>[^:;]+) : (?P<b>[^;]+);", st)
        if m2:
            expr = "LIf (%s) %s %s" % (parse_scond(m2.group("c")), parse_leaf(m2.group("a")), parse_leaf(m2.group("b")))
        else:
            m3 = re.fullmatch(r"view->len = (?P<a>[^;?]+);", st)
            if not m3:
                raise RegenError("_fetch_as_buffer: unrecognised statements %r" % st)
            expr = parse_leaf(m3.group("a"))
    return dict(fetch_text=st, fetch=expr)


# ------------------------------------------------------------------------------------------ minibuffer.h bodies
MB_SIGS = [
    ("mb_item", r"static PyObject \*mb_item\(MiniBufferObj \*self, Py_ssize_t idx\)"),
    ("mb_slice", r"static PyObject \*mb_slice\(MiniBufferObj \*self,\s*Py_ssize_t left, Py_ssize_t right\)"),
    ("mb_ass_item", r"static int mb_ass_item\(MiniBufferObj \*self, Py_ssize_t idx, PyObject \*other\)"),
    ("mb_ass_slice", r"static int mb_ass_slice\(MiniBufferObj \*self,\s*Py_ssize_t left, Py_ssize_t right, PyObject \*other\)"),
]
MB_PARAMS = {"mb_item": ["idx"], "mb_slice": ["left", "right"], "mb_ass_item": ["idx"], "mb_ass_slice": ["left", "right"]}
MVARS = {"idx": "Vidx", "left": "Vleft", "right": "Vright", "size": "Vsize", "count": "Vcount"}
MOPS = {"<": "TLt", ">": "TGt", ">=": "TGe", "<=": "TLe", "==": "TEq", "!=": "TNe"}
MEXN = {"PyExc_IndexError": "XIndex", "PyExc_TypeError": "XType", "PyExc_ValueError": "XValue"}


def m_expr(t, scope):
    t = strip_parens(t)
    parts = split_top(t, " - ")
    if len(parts) > 1:
        out = m_expr(parts[0], scope)
        for x in parts[1:]:
            out = "(ESub %s %s)" % (out, m_expr(x, scope))
        return out
    if t in MVARS:
        if t not in scope:
            raise RegenError("minibuffer.h: variable %r used before it is set" % t)
        return "(EV %s)" % MVARS[t]
    if t == "self->mb_size":
        return "ESelfSize"
    if t == "src_view.len":
        if "src_view" not in scope:
            raise RegenError("minibuffer.h: src_view.len used before _fetch_as_buffer")
        return "ESrcLen"
    if re.fullmatch(r"\d+", t):
        return "(EConst %s)" % t
    raise RegenError("minibuffer.h: unrecognised expression %r" % t)


def m_test(t, scope):
    t = strip_parens(t)
    ors = split_top(t, "||")
    if len(ors) > 1:
        out = m_test(ors[0], scope)
        for x in ors[1:]:
            out = "(TOr %s %s)" % (out, m_test(x, scope))
        return out
    ands = split_top(t, "&&")
    if len(ands) > 1:
        out = m_test(ands[0], scope)
        for x in ands[1:]:
            out = "(TAnd %s %s)" % (out, m_test(x, scope))
        return out
    m = re.fullmatch(r"(.+?) (<=|>=|==|!=|<|>) (.+)", t)
    if not m:
        raise RegenError("minibuffer.h: unrecognised test %r" % t)
    return "(%s %s %s)" % (MOPS[m.group(2)], m_expr(m.group(1), scope), m_expr(m.group(3), scope))


def translate_mb(name, body):
    """body: normalised text between the braces of one of the four functions -> list of Coq mstmt terms.
    Every character of the body must be consumed by one of the recognised statement shapes."""
    scope = set(MB_PARAMS[name])
    declared = set()
    out = []
    rest = body.strip()
    getter = name in ("mb_item", "mb_slice")
    ret_err = "NULL" if getter else "-1"
    E = r"([^;{}]+?)"
    while rest:
        m = re.match(r"Py_ssize_t (\w+); ?", rest)
        if m and m.group(1) in MVARS:
            declared.add(m.group(1))
            rest = rest[m.end():]
            continue
        m = re.match(r"Py_buffer src_view; ?", rest)
        if m:
            declared.add("src_view")
            rest = rest[m.end():]
            continue
        m = re.match(r"Py_ssize_t (\w+) = %s; ?" % E, rest)
        if m and m.group(1) in MVARS:
            out.append("SAssign %s %s" % (MVARS[m.group(1)], m_expr(m.group(2), scope)))
            scope.add(m.group(1))
            declared.add(m.group(1))
            rest = rest[m.end():]
            continue
        m = re.match(r"if \(_fetch_as_buffer\(other, &src_view, 0\) < 0\) return -1; ?", rest)
        if m and not getter and "src_view" in declared:
            out.append("SFetch")
            scope.add("src_view")
            rest = rest[m.end():]
            continue
        m = re.match(r"if \(([^{};]+?)\) \{ (PyBuffer_Release\(&src_view\); )?PyErr_SetString\((PyExc_\w+), \"[^\"]*\"( \"[^\"]*\")*\); "
                     r"return %s; \} ?" % re.escape(ret_err), rest)
        if m and m.group(3) in MEXN and (bool(m.group(2)) == ("src_view" in scope)):
            out.append("SIfRaise %s %s" % (m_test(m.group(1), scope), MEXN[m.group(3)]))
            rest = rest[m.end():]
            continue
        m = re.match(r"if \(([^{};]+?)\) (\w+) = %s; ?" % E, rest)
        if m and m.group(2) in MVARS and (m.group(2) in scope):
            out.append("SIfAssign %s %s %s" % (m_test(m.group(1), scope), MVARS[m.group(2)], m_expr(m.group(3), scope)))
            rest = rest[m.end():]
            continue
        m = re.match(r"(\w+) = %s; ?" % E, rest)
        if m and m.group(1) in MVARS and (m.group(1) in scope or m.group(1) in declared):
            out.append("SAssign %s %s" % (MVARS[m.group(1)], m_expr(m.group(2), scope)))
            scope.add(m.group(1))
            rest = rest[m.end():]
            continue
        m = re.match(r"return PyBytes_FromStringAndSize\(self->mb_data \+ ([^,;]+?), %s\); ?" % E, rest)
        if m and getter:
            out.append("SRetBytes %s %s" % (m_expr(m.group(1), scope), m_expr(m.group(2), scope)))
            rest = rest[m.end():]
            if rest:
                raise RegenError("%s: code after the return: %r" % (name, rest[:80]))
            continue
        m = re.match(r"if \(PyBytes_Check\(other\) && PyBytes_GET_SIZE\(other\) == 1\) \{ "
                     r"self->mb_data\[([^\]]+)\] = PyBytes_AS_STRING\(other\)\[0\]; return 0; \} "
                     r"else \{ PyErr_Format\(PyExc_TypeError, [^;]*\); return -1; \} ?", rest)
        if m and name == "mb_ass_item":
            out.append("SStoreByte %s" % m_expr(m.group(1), scope))
            rest = rest[m.end():]
            if rest:
                raise RegenError("%s: code after the store: %r" % (name, rest[:80]))
            continue
        m = re.match(r"(memcpy|memmove)\(self->mb_data \+ ([^,;]+?), src_view\.buf, ([^,;]+?)\); "
                     r"PyBuffer_Release\(&src_view\); return 0; ?", rest)
        if m and name == "mb_ass_slice" and "src_view" in scope:
            out.append("SCopy %s %s %s" % ({"memcpy": "Memcpy", "memmove": "Memmove"}[m.group(1)],
                                           m_expr(m.group(2), scope), m_expr(m.group(3), scope)))
            rest = rest[m.end():]
            if rest:
                raise RegenError("%s: code after the copy: %r" % (name, rest[:80]))
            continue
        raise RegenError("%s: unrecognised statement at %r" % (name, rest[:100]))
    if not out or not out[-1].startswith(("SRetBytes", "SStoreByte", "SCopy")):
        raise RegenError("%s: body does not end in a recognised return" % name)
    return out


def extract_mb(mb_src):
    """the four bodies of src/c/minibuffer.h -> dict name -> (normalised text, [mstmt terms])"""
    res = {}
    for name, sig in MB_SIGS:
        ms = list(re.finditer(sig + r"\s*\{(.*?)\n\}\n", mb_src, re.S))
        if len(ms) != 1:
            raise RegenError("minibuffer.h: %s found %d times" % (name, len(ms)))
        body = norm(ms[0].group(1))
        res[name] = (body, translate_mb(name, body))
    # the dispatch table must still route the sequence slots to these four functions
    table = norm(mb_src)
    for slot in ("(ssizeargfunc)mb_item, ", "(ssizessizeargfunc)mb_slice, ", "(ssizeobjargproc)mb_ass_item, ",
                 "(ssizessizeobjargproc)mb_ass_slice, "):
        if slot not in table:
            raise RegenError("minibuffer.h: mb_as_sequence no longer has %r" % slot.strip())
    return res


def render_mb(mb):
    out = ["\n(* ---- src/c/minibuffer.h: the bodies of mb_item, mb_slice, mb_ass_item, mb_ass_slice, statement by\n"
           "   statement (language: C19/Types.v, semantics: C19/MbSem.v) *)\nRequire Import List.\nImport ListNotations.\n"]
    for name, _ in MB_SIGS:
        text, stmts = mb[name]
        out.append("(* %s:\n     %s *)\nDefinition gen_%s : list mstmt :=\n  [ %s ].\n"
                   % (name, text.replace("*)", "* )").replace("(*", "( *"), name, ";\n    ".join(stmts)))
    return "\n".join(out)


def render(t):
    return ("(* GENERATED by tools/props/c19_regen.py from src/c/_cffi_backend.c (direct_from_buffer, _fetch_as_buffer) and src/c/minibuffer.h - do not edit. *)\n"
            "From Coq Require Import ZArith.\nFrom Cffi Require Import C19.Types.\nOpen Scope Z_scope.\n\n"
            "(* the test guarding `arraylength = view->len` for an open array 'T[]':\n     %s *)\n"
            "Definition gen_from_buffer_fast : cond := %s.\n\n"
            "(* _fetch_as_buffer, cdata source: the statements computing view->len:\n     %s *)\n"
            "Definition gen_fetch_len : lenexpr := %s.\n"
            % (t["text"].replace("*)", "* )"), t["cond"], t["fetch_text"].replace("*)", "* )"), t["fetch"])
            + render_mb(t["mb"]))
