"""C22 worker: runs thread programs over ffi.errno / C calls / callbacks under a chosen interleaving.

A thread program is a list of Python-level operations
    ["set", v] | ["get"] | ["clobber"] | ["sync"] | ["glob"] | ["call", [cop, ...]]
    cop = ["cset", v] | ["cread"] | ["cb", [python-level operations]]
`sync` is a scheduling point (also inside callbacks, i.e. in the middle of a C call, where the GIL is
released): the schedule is the list of thread ids in the order in which they get their turns; a turn
runs from one sync to the next.  Turns are handed over with locks used as semaphores — no sleeping.
Modes: "abi" (ffi.dlopen of the helper + ffi.callback: b_call / invoke_callback) and "api" (compiled
module: generated wrappers with _cffi_restore_errno/_cffi_save_errno, extern "Python":
cffi_call_python, global variable accessor).
"""
import os
import queue
import subprocess
import sys
import threading
import _thread

OVERFLOW = -999999
C_SRC = os.path.join(os.environ.get("VERIF_ROOT", "/verif"), "tools", "props", "c", "c22_helper.c")
CDEF = "int c22_run(int n, const int *script, int *out, int *k, int (*cb)(int));"


class Env:
    pass


def setup(mode):
    import cffi
    work = os.environ["VERIF_WORK"]
    e = Env()
    e.mode = mode
    e.tl = threading.local()
    if mode == "abi":
        so = os.path.join(work, "libc22helper.so")
        if not os.path.exists(so):
            subprocess.check_call(["gcc", "-O1", "-shared", "-fPIC", "-o", so, C_SRC])
        ffi = cffi.FFI()
        ffi.cdef(CDEF)
        e.ffi, e.lib = ffi, ffi.dlopen(so)
        e.cbptr = ffi.callback("int(int)", lambda idx: run_body(e, idx))
        e.errno_owner = ffi
    else:
        ffi = cffi.FFI()
        ffi.cdef(CDEF + '\nextern "Python" int c22_cb(int);\nint c22_glob;')
        import glob
        if not glob.glob(os.path.join(work, "_c22_api*.so")):      # built once by the first (build-only) worker
            ffi.set_source("_c22_api", open(C_SRC).read())
            ffi.compile(tmpdir=work)
        sys.path.insert(0, work)
        import _c22_api
        e.ffi, e.lib = _c22_api.ffi, _c22_api.lib

        @e.ffi.def_extern()
        def c22_cb(idx):
            return run_body(e, idx)
        e.cbptr = e.lib.c22_cb
    return e


def drain(e):
    """append to the thread's observations what the innermost running C call has read so far"""
    tl = e.tl
    if tl.calls:
        out, k, done = tl.calls[-1]
        while done < k[0]:
            tl.obs.append(out[done])
            done += 1
        tl.calls[-1] = (out, k, done)


def run_body(e, idx):
    drain(e)
    exec_py(e, e.tl.bodies[idx])
    return 0


def exec_py(e, ops):
    tl, ffi = e.tl, e.ffi
    for op in ops:
        k = op[0]
        if k == "set":
            try:
                ffi.errno = op[1]
            except OverflowError:
                tl.obs.append(OVERFLOW)
        elif k == "get":
            tl.obs.append(ffi.errno)
        elif k == "clobber":
            try:
                os.stat("/nonexistent-c22-%d" % tl.t)
            except OSError:
                pass
        elif k == "sync":
            tl.ctl.sync(tl.t)
        elif k == "glob":
            if e.mode == "api":
                if e.lib.c22_glob != 42:
                    tl.obs.append(-777777)
        elif k == "call":
            script = []
            nread = 0
            for c in op[1]:
                if c[0] == "cset":
                    script += [4, c[1]]
                elif c[0] == "cread":
                    script += [5, 0]
                    nread += 1
                else:
                    tl.bodies.append(c[1])
                    script += [7, len(tl.bodies) - 1]
            out = ffi.new("int[]", nread + 1)
            kk = ffi.new("int *", 0)
            tl.calls.append((out, kk, 0))
            e.lib.c22_run(len(script) // 2, ffi.new("int[]", script), out, kk, e.cbptr)
            drain(e)
            tl.calls.pop()
        else:
            raise ValueError(k)


class Ctl:
    def __init__(self, n, timeout):
        self.go = [_thread.allocate_lock() for _ in range(n)]
        for l in self.go:
            l.acquire()
        self.msgs = queue.SimpleQueue()
        self.abort = False

    def wait_turn(self, t):
        self.go[t].acquire()
        if self.abort:
            raise SystemExit

    def sync(self, t):
        self.msgs.put((t, "sync"))
        self.wait_turn(t)


def thread_main(e, ctl, t, prog, result):
    tl = e.tl
    tl.t, tl.obs, tl.bodies, tl.calls, tl.ctl = t, [], [], [], ctl
    try:
        ctl.wait_turn(t)
        exec_py(e, prog)
        result[t] = tl.obs
        ctl.msgs.put((t, "end"))
    except SystemExit:
        pass
    except BaseException as ex:      # noqa
        result[t] = ["error", type(ex).__name__, str(ex)[:200]]
        ctl.msgs.put((t, "end"))


def run_sched(e, progs, sched, timeout):
    n = len(progs)
    ctl = Ctl(n, timeout)
    result = [None] * n
    ths = [threading.Thread(target=thread_main, args=(e, ctl, t, progs[t], result), daemon=True) for t in range(n)]
    for th in ths:
        th.start()
    status = "ok"
    try:
        for t in sched:
            ctl.go[t].release()
            m = ctl.msgs.get(timeout=timeout)
            if m[0] != t:
                status = "harness: message from thread %d during the turn of %d" % (m[0], t)
                break
    except queue.Empty:
        status = "timeout"
    if status != "ok" or any(r is None for r in result):
        if status == "ok":
            status = "schedule ended before the threads did"
        ctl.abort = True
        for l in ctl.go:
            try:
                l.release()
            except RuntimeError:
                pass
    for th in ths:
        th.join(5)
    return dict(status=status, obs=result)


def serial_sched(progs, sched):
    out = []
    for t in range(len(progs)):
        out += [t] * sched.count(t)
    return out


def main(payload):
    sys.setswitchinterval(1e-4)
    envs = {}
    out = []
    for mode in payload.get("build", []):
        envs[mode] = setup(mode)
    for case in payload["cases"]:
        mode = case["mode"]
        if mode not in envs:
            envs[mode] = setup(mode)
        e = envs[mode]
        r1 = run_sched(e, case["progs"], case["sched"], payload.get("timeout", 30))
        r2 = run_sched(e, case["progs"], serial_sched(case["progs"], case["sched"]), payload.get("timeout", 30))
        out.append(dict(inter=r1, alone=r2))
    return dict(results=out)


if __name__ == "__main__":
    from lib.vlib import worker_main
    worker_main(main)
