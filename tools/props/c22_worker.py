"""C22 worker: runs thread programs over ffi.errno / C calls / callbacks under a chosen interleaving.

A thread program is a list of Python-level operations
    ["set", v] | ["get"] | ["clobber"] | ["sync"] | ["glob"] | ["call", [cop, ...]]
    | ["tcall", [cop, ...], final]     the C script runs in a fresh pthread (one that never held the GIL); the
                                       calling C function waits for it and then assigns errno = final
    | ["raise", hops] | ["badret", hops]   only as the last executed operation of a callback body (or of an
                                       onerror handler): the callback raises / returns a value that cannot be
                                       converted; `hops` are the operations the onerror handler performs
                                       (ignored when the callback was created without onerror)
    cop = ["cset", v] | ["cread"] | ["cb", body] | ["cbe", body] (callback with onerror=)
          | ["cbu"]  (API mode: an extern "Python" function with NO @ffi.def_extern() attached)
`sync` is a scheduling point (also inside callbacks, i.e. in the middle of a C call, where the GIL is
released): the schedule is the list of thread ids in the order in which they get their turns; a turn
runs from one sync to the next.  Turns are handed over with locks used as semaphores — no sleeping.
A pthread started by `tcall` runs inside the turns of the strand that started it (the starter is blocked
in pthread_join); its observations are recorded separately: the result of strand t is the list
[observations of the thread itself, of its 1st pthread, of its 2nd pthread, ...] in order of creation.
Modes: "abi" (ffi.dlopen of the helper + ffi.callback: b_call / invoke_callback) and "api" (compiled
module: generated wrappers with _cffi_restore_errno/_cffi_save_errno, extern "Python":
cffi_call_python, global variable accessor).
"""
import itertools
import os
import queue
import subprocess
import sys
import threading
import _thread

OVERFLOW = -999999
C_SRC = os.path.join(os.environ.get("VERIF_ROOT", "/verif"), "tools", "props", "c", "c22_helper.c")
CDEF = """int c22_run(int n, const int *script, int *out, int *k, int (*cb)(int), int (*cbe)(int), int (*cbu)(int));
int c22_run_thread(int n, const int *script, int *out, int *k, int (*cb)(int), int (*cbe)(int), int (*cbu)(int),
                   int final);"""


class Env:
    pass


class C22Exc(Exception):
    pass


class BadRet(Exception):
    pass


class LCtx:
    """one logical thread: a strand's own thread or a pthread started by it"""
    def __init__(self, strand):
        self.strand, self.obs, self.calls = strand, [], []


class Strand:
    def __init__(self, t, ctl):
        self.t, self.ctl = t, ctl
        self.subs = [LCtx(self)]


def setup(mode):
    import cffi
    work = os.environ["VERIF_WORK"]
    e = Env()
    e.mode = mode
    e.tl = threading.local()
    e.bodies = {}
    e.ids = itertools.count()

    def body(idx):
        return run_body(e, idx)

    def onerr(exc, val, tb):
        lctx, hops = e.tl.last
        try:
            exec_py(e, lctx, hops)
        except BadRet:
            return "not an int"
        return None
    if mode == "abi":
        so = os.path.join(work, "libc22helper.so")
        if not os.path.exists(so):
            subprocess.check_call(["gcc", "-O1", "-shared", "-fPIC", "-pthread", "-o", so, C_SRC])
        ffi = cffi.FFI()
        ffi.cdef(CDEF)
        e.ffi, e.lib = ffi, ffi.dlopen(so)
        e.cbptr = ffi.callback("int(int)", body)
        e.cbeptr = ffi.callback("int(int)", body, onerror=onerr)
        e.cbuptr = ffi.NULL
        e.keep = (body, onerr)
    else:
        ffi = cffi.FFI()
        ffi.cdef(CDEF + '\nextern "Python" int c22_cb(int);\nextern "Python" int c22_cbe(int);\n'
                 'extern "Python" int c22_cbu(int);\nint c22_glob;')
        import glob
        if not glob.glob(os.path.join(work, "_c22_api*.so")):      # built once by the first (build-only) worker
            ffi.set_source("_c22_api", open(C_SRC).read(), libraries=["pthread"])
            ffi.compile(tmpdir=work)
        sys.path.insert(0, work)
        import _c22_api
        e.ffi, e.lib = _c22_api.ffi, _c22_api.lib
        e.ffi.def_extern(name="c22_cb")(body)
        e.ffi.def_extern(name="c22_cbe", onerror=onerr)(body)
        # c22_cbu deliberately gets no @ffi.def_extern()
        e.cbptr, e.cbeptr, e.cbuptr = e.lib.c22_cb, e.lib.c22_cbe, e.lib.c22_cbu
    return e


def drain(lctx):
    """append to the logical thread's observations what its innermost running C call has read so far"""
    if lctx.calls:
        out, k, done = lctx.calls[-1]
        while done < k[0]:
            lctx.obs.append(out[done])
            done += 1
        lctx.calls[-1] = (out, k, done)


def run_body(e, idx):
    lctx, ops = e.bodies[idx]
    drain(lctx)
    try:
        exec_py(e, lctx, ops)
    except BadRet:
        return "not an int"
    return 0


def build_script(e, cops, owner):
    script, nread = [], 0
    for c in cops:
        if c[0] == "cset":
            script += [4, c[1]]
        elif c[0] == "cread":
            script += [5, 0]
            nread += 1
        elif c[0] in ("cb", "cbe"):
            idx = next(e.ids)
            e.bodies[idx] = (owner, c[1])
            script += [7 if c[0] == "cb" else 8, idx]
        elif c[0] == "cbu":
            if e.mode != "api":
                raise ValueError("cbu needs API mode")
            script += [9, 0]
        else:
            raise ValueError(c[0])
    return script, nread


def exec_py(e, lctx, ops):
    ffi = e.ffi
    for op in ops:
        k = op[0]
        if k == "set":
            try:
                ffi.errno = op[1]
            except OverflowError:
                lctx.obs.append(OVERFLOW)
        elif k == "get":
            lctx.obs.append(ffi.errno)
        elif k == "clobber":
            try:
                os.stat("/nonexistent-c22-%d" % lctx.strand.t)
            except OSError:
                pass
        elif k == "sync":
            lctx.strand.ctl.sync(lctx.strand.t)
        elif k == "glob":
            if e.mode == "api":
                if e.lib.c22_glob != 42:
                    lctx.obs.append(-777777)
        elif k in ("call", "tcall"):
            owner = lctx
            if k == "tcall":
                owner = LCtx(lctx.strand)
                lctx.strand.subs.append(owner)
            script, nread = build_script(e, op[1], owner)
            out = ffi.new("int[]", nread + 1)
            kk = ffi.new("int *", 0)
            buf = ffi.new("int[]", script)
            owner.calls.append((out, kk, 0))
            if k == "call":
                e.lib.c22_run(len(script) // 2, buf, out, kk, e.cbptr, e.cbeptr, e.cbuptr)
            else:
                if e.lib.c22_run_thread(len(script) // 2, buf, out, kk, e.cbptr, e.cbeptr, e.cbuptr, op[2]) != 0:
                    lctx.obs.append(-888888)
            drain(owner)
            owner.calls.pop()
        elif k == "raise":
            e.tl.last = (lctx, op[1])
            raise C22Exc("callback raises")
        elif k == "badret":
            e.tl.last = (lctx, op[1])
            raise BadRet()
        else:
            raise ValueError(k)


class Ctl:
    def __init__(self, n, timeout):
        self.go = [_thread.allocate_lock() for _ in range(n)]
        for l in self.go:
            l.acquire()
        self.msgs = queue.SimpleQueue()
        self.abort = False

    def wait_turn(self, t):
        self.go[t].acquire()
        if self.abort:
            raise SystemExit

    def sync(self, t):
        self.msgs.put((t, "sync"))
        self.wait_turn(t)


def thread_main(e, ctl, t, prog, result):
    strand = Strand(t, ctl)
    try:
        ctl.wait_turn(t)
        exec_py(e, strand.subs[0], prog)
        result[t] = [c.obs for c in strand.subs]
        ctl.msgs.put((t, "end"))
    except SystemExit:
        pass
    except BaseException as ex:      # noqa
        result[t] = ["error", type(ex).__name__, str(ex)[:200]]
        ctl.msgs.put((t, "end"))


def run_sched(e, progs, sched, timeout):
    n = len(progs)
    e.bodies.clear()
    ctl = Ctl(n, timeout)
    result = [None] * n
    ths = [threading.Thread(target=thread_main, args=(e, ctl, t, progs[t], result), daemon=True) for t in range(n)]
    for th in ths:
        th.start()
    status = "ok"
    try:
        for t in sched:
            ctl.go[t].release()
            m = ctl.msgs.get(timeout=timeout)
            if m[0] != t:
                status = "harness: message from thread %d during the turn of %d" % (m[0], t)
                break
    except queue.Empty:
        status = "timeout"
    if status != "ok" or any(r is None for r in result):
        if status == "ok":
            status = "schedule ended before the threads did"
        ctl.abort = True
        for l in ctl.go:
            try:
                l.release()
            except RuntimeError:
                pass
    for th in ths:
        th.join(5)
    return dict(status=status, obs=result)


def serial_sched(progs, sched):
    out = []
    for t in range(len(progs)):
        out += [t] * sched.count(t)
    return out


def main(payload):
    sys.setswitchinterval(1e-4)
    envs = {}
    out = []
    for mode in payload.get("build", []):
        envs[mode] = setup(mode)
    # cffi reports un-attached extern "Python" functions and exceptions in callbacks on stderr
    sys.stderr.flush()
    saved = os.dup(2)
    null = os.open(os.devnull, os.O_WRONLY)
    os.dup2(null, 2)
    os.close(null)
    try:
        for case in payload["cases"]:
            mode = case["mode"]
            if mode not in envs:
                envs[mode] = setup(mode)
            e = envs[mode]
            r1 = run_sched(e, case["progs"], case["sched"], payload.get("timeout", 30))
            r2 = run_sched(e, case["progs"], serial_sched(case["progs"], case["sched"]), payload.get("timeout", 30))
            out.append(dict(inter=r1, alone=r2))
    finally:
        sys.stderr.flush()
        os.dup2(saved, 2)
        os.close(saved)
    return dict(results=out)


if __name__ == "__main__":
    from lib.vlib import worker_main
    worker_main(main)
