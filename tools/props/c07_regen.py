"""C07 — regenerates coq/C07/Gen.v from the cffi sources (fail closed).

Extracted on every run:
  * the keyword table of next_token()'s `switch (*p)` (src/c/parse_c_type.c): every
    `if (tok->size == N && !memcmp(p, "lit", N)) tok->kind = TOK_X;` inside `case 'c':`, with the checks
    N == len(lit), both N equal, lit[0] == c, one `break` per case, nothing else in the switch;
  * `_CFFI_OP_*` of src/cffi/parse_c_type.h and `OP_*` of src/cffi/cffi_opcode.py;
  * the recursion limit of realize_c_type() (`_realize_recursion_level >= N`, src/c/realize_c_type.c);
  * `#define FFI_COMPLEXITY_OUTPUT N` (src/c/ffi_obj.c);
  * the non-Windows rows of common_simple_types[] (src/c/commontypes.c).
coq/C07/GenFacts.v pins C07.Model / C07.Realize / C07.PyModel to these by reflexivity, so an edit of the source
breaks an obligation.  Any unexpected shape raises Untranslatable: regen() then reports `fallback` AND a broken
obligation (the old Gen.v is never silently kept as if it were current).
"""
import os
import re

from lib import vlib, py2coq
from lib.py2coq import Untranslatable
from props import c06_extract as X

GEN = os.path.join(vlib.COQ, "C07", "Gen.v")

TOK2KW = {"TOK__BOOL": "K_Bool", "TOK_CDECL": "K_cdecl", "TOK_STDCALL": "K_stdcall", "TOK__COMPLEX": "K_Complex",
          "TOK_CHAR": "K_char", "TOK_CONST": "K_const", "TOK_DOUBLE": "K_double", "TOK_ENUM": "K_enum",
          "TOK_FLOAT": "K_float", "TOK_INT": "K_int", "TOK_LONG": "K_long", "TOK_SHORT": "K_short",
          "TOK_SIGNED": "K_signed", "TOK_STRUCT": "K_struct", "TOK_UNION": "K_union", "TOK_UNSIGNED": "K_unsigned",
          "TOK_VOID": "K_void", "TOK_VOLATILE": "K_volatile"}

_KW_IF = re.compile(r'if\s*\(\s*tok->size\s*==\s*(\d+)\s*&&\s*!\s*memcmp\s*\(\s*p\s*,\s*"([^"\\]*)"\s*,\s*(\d+)\s*\)\s*\)'
                    r'\s*tok->kind\s*=\s*(TOK_\w+)\s*;')


def _balanced(text, i):
    """text[i] == '{' -> index just after the matching '}' (string/char literals skipped)"""
    depth, n = 0, len(text)
    while i < n:
        c = text[i]
        if c in "\"'":
            j = i + 1
            while j < n and text[j] != c:
                j += 2 if text[j] == "\\" else 1
            i = j + 1
            continue
        if c == "{":
            depth += 1
        elif c == "}":
            depth -= 1
            if depth == 0:
                return i + 1
        i += 1
    raise Untranslatable("unbalanced braces")


def c_keywords(text):
    """[(literal, TOK_X)] in source order from next_token()'s keyword switch"""
    t = X.strip_c_comments(text)
    m = re.search(r"\bstatic\s+void\s+next_token\s*\(\s*token_t\s*\*\s*tok\s*\)\s*\{", t)
    if not m:
        raise Untranslatable("next_token() not found")
    body = t[m.end() - 1:_balanced(t, m.end() - 1)]
    # the identifier branch: default kind, size loop, then the switch
    m = re.search(r"tok->kind\s*=\s*TOK_IDENTIFIER\s*;\s*tok->p\s*=\s*p\s*;\s*tok->size\s*=\s*1\s*;\s*"
                  r"while\s*\(\s*is_ident_next\s*\(\s*p\s*\[\s*tok->size\s*\]\s*\)\s*\)\s*tok->size\s*\+\+\s*;\s*"
                  r"switch\s*\(\s*\*\s*p\s*\)\s*\{", body)
    if not m:
        raise Untranslatable("next_token(): identifier scan + switch (*p) not in the expected shape")
    sw = body[m.end() - 1:_balanced(body, m.end() - 1)]
    if body[m.end() - 1 + len(sw):].strip() != "}":
        raise Untranslatable("next_token(): code after the keyword switch")
    inner = sw[1:-1]
    parts = re.split(r"case\s*'(.)'\s*:", inner)
    if parts[0].strip():
        raise Untranslatable("keyword switch: text before the first case")
    out, seen_case = [], set()
    for ch, blk in zip(parts[1::2], parts[2::2]):
        if ch in seen_case:
            raise Untranslatable("keyword switch: duplicate case %r" % ch)
        seen_case.add(ch)
        rest = blk
        found = 0
        while True:
            mm = _KW_IF.match(rest.lstrip())
            if not mm:
                break
            rest = rest.lstrip()[mm.end():]
            n1, lit, n2, tk = int(mm.group(1)), mm.group(2), int(mm.group(3)), mm.group(4)
            if n1 != n2 or n1 != len(lit):
                raise Untranslatable("keyword %r: sizes %d/%d do not match the literal" % (lit, n1, n2))
            if not lit or lit[0] != ch:
                raise Untranslatable("keyword %r under case %r is unreachable" % (lit, ch))
            if not re.match(r"^[A-Za-z_][A-Za-z_0-9]*$", lit):
                raise Untranslatable("keyword %r is not an identifier" % lit)
            out.append((lit, tk))
            found += 1
        if rest.strip() != "break;" or not found:
            raise Untranslatable("keyword switch: case %r is not a list of memcmp tests followed by break" % ch)
    lits = [l for l, _ in out]
    if len(set(lits)) != len(lits):
        raise Untranslatable("keyword switch: duplicate literal")
    return out


def c_recursion_limit(text):
    t = X.strip_c_comments(text)
    ms = re.findall(r"if\s*\(\s*_realize_recursion_level\s*>=\s*(\d+)\s*\)", t)
    if len(ms) != 1:
        raise Untranslatable("realize_c_type(): expected exactly one `_realize_recursion_level >= N` test")
    if len(re.findall(r"_realize_recursion_level\s*\+\+", t)) != 1 or len(re.findall(r"_realize_recursion_level\s*--", t)) != 1:
        raise Untranslatable("realize_c_type(): expected one increment and one decrement of the recursion level")
    return int(ms[0])


def c_single_define(text, prefix, rest):
    d = dict(X.c_defines(text, prefix))
    if rest not in d:
        raise Untranslatable("#define %s%s <int> not found" % (prefix, rest))
    return d[rest]


def c_common_types(text):
    """rows of common_simple_types[] outside `#ifdef MS_WIN32` blocks"""
    t = X.strip_c_comments(text)
    m = re.search(r"static\s+const\s+char\s*\*\s*common_simple_types\s*\[\s*\]\s*=\s*\{", t)
    if not m:
        raise Untranslatable("common_simple_types[] not found")
    if not re.search(r'#\s*define\s+EQ\(key,\s*value\)\s+key\s+"\\0"\s+value', t):
        raise Untranslatable("EQ(key, value) is not key \"\\0\" value")
    end = t.find("};", m.end())
    if end < 0:
        raise Untranslatable("common_simple_types[]: no end")
    rows, win = [], False
    for line in t[m.end():end].splitlines():
        s = line.strip()
        if not s:
            continue
        if s.startswith("#"):
            if re.match(r"#\s*ifdef\s+MS_WIN32\b", s) and not win:
                win = True
            elif re.match(r"#\s*endif\b", s) and win:
                win = False
            else:
                raise Untranslatable("common_simple_types[]: unexpected directive %r" % s)
            continue
        mm = re.match(r'^EQ\(\s*"([^"\\]*)"\s*,\s*(.*?)\s*\)\s*,$', s)
        if not mm:
            raise Untranslatable("common_simple_types[]: unexpected row %r" % s)
        if win:
            continue
        mv = re.match(r'^"([^"\\]*)"$', mm.group(2))
        if not mv:
            raise Untranslatable("common_simple_types[]: value of %r is not a string literal" % mm.group(1))
        rows.append((mm.group(1), mv.group(1)))
    if win or not rows:
        raise Untranslatable("common_simple_types[]: unbalanced #ifdef or no portable row")
    return rows


def cstr_any(s):
    """list N literal for an arbitrary printable ASCII string"""
    if not all(32 <= ord(c) < 127 and c != '"' for c in s):
        raise Untranslatable("unexpected characters in %r" % s)
    return '(s2l "%s")' % s


def extract(repo):
    op = py2coq.parse_source(os.path.join(repo, "src/cffi/cffi_opcode.py"))
    d = dict(
        keywords=c_keywords(X.read(repo, "src/c/parse_c_type.c")),
        c_ops=X.c_defines(X.read(repo, "src/cffi/parse_c_type.h"), "_CFFI_OP_"),
        py_ops=X.py_int_constants(op, "OP_"),
        limit=c_recursion_limit(X.read(repo, "src/c/realize_c_type.c")),
        complexity=c_single_define(X.read(repo, "src/c/ffi_obj.c"), "FFI_COMPLEXITY_", "OUTPUT"),
        common=c_common_types(X.read(repo, "src/c/commontypes.c")),
    )
    for lit, tk in d["keywords"]:
        if tk not in TOK2KW:
            raise Untranslatable("token kind %s has no constructor in C07.Model.kw" % tk)
    return d


def render(d):
    L = []
    A = L.append
    A("(* GENERATED by tools/props/c07_regen.py regen() from the cffi sources - do not edit.\n"
      "   Data only; pinned to C07.Model / C07.Realize by C07/GenFacts.v. *)")
    A("From Coq Require Import String ZArith NArith List.\nImport ListNotations.\n"
      "From Cffi Require Import C07.Model.\nOpen Scope Z_scope.\n")

    def table(name, ty, rows, comment):
        A("(* %s *)\nDefinition %s : %s := [\n  %s]%%string.\n" % (comment, name, ty, ";\n  ".join(rows)))

    table("keywords", "list (str * kw)", ["(%s, %s)" % (cstr_any(l), TOK2KW[t]) for l, t in d["keywords"]],
          "next_token(), src/c/parse_c_type.c: if (tok->size == N && !memcmp(p, lit, N)) tok->kind = TOK_x")
    table("c_ops", "list (str * Z)", ["(%s, %d)" % (cstr_any(k), v) for k, v in d["c_ops"]],
          "_CFFI_OP_* of src/cffi/parse_c_type.h")
    table("py_ops", "list (str * Z)", ["(%s, %d)" % (cstr_any(k), v) for k, v in d["py_ops"]],
          "OP_* of src/cffi/cffi_opcode.py")
    A("(* realize_c_type(), src/c/realize_c_type.c: if (_realize_recursion_level >= N) *)\n"
      "Definition realize_recursion_limit : Z := %d.\n" % d["limit"])
    A("(* #define FFI_COMPLEXITY_OUTPUT, src/c/ffi_obj.c *)\nDefinition ffi_complexity_output : Z := %d.\n" % d["complexity"])
    table("common_simple_types", "list (str * str)",
          ["(%s, %s)" % (cstr_any(k), cstr_any(v)) for k, v in d["common"]],
          "common_simple_types[] of src/c/commontypes.c, rows outside #ifdef MS_WIN32")
    return "\n".join(L)


_state = {}


def complexity_output(default=1200):
    """FFI_COMPLEXITY_OUTPUT as extracted by the last regen() (default only when extraction failed, in which case
    regen() has already reported the broken obligation)"""
    return _state.get("complexity", default)


def regen(ctx, gen=GEN):
    try:
        d = extract(vlib.REPO)
        _state["complexity"] = d["complexity"]
        st = py2coq.write_if_changed(gen, render(d))
        ctx.translator("C07/Gen.v", st)
    except (Untranslatable, OSError, SyntaxError) as e:
        ctx.translator("C07/Gen.v", "fallback: %s" % e)
        ctx.obligation_broken("C07/Gen.v regeneration", "source no longer has the expected shape: %s" % e)
