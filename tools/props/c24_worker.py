"""C24 worker (scratch copy of cffi): for each case, the reference bytes (FFI.emit_c_code into a file) and the bytes
produced by the cffi-gen-src entry point function `cffi._cffi_gen_src.run(argv)` called in-process, to a file and to
'-' (stdout replaced by a UTF-8 text wrapper over a byte buffer)."""
import io
import os
import sys
import warnings

import cffi
from cffi import _cffi_gen_src
from lib.vlib import worker_main

assert os.path.dirname(cffi.__file__).startswith(os.environ["VERIF_SCRATCH"]), cffi.__file__
warnings.simplefilter("ignore")


def reference(c, work):
    """emit_c_code for FFI().cdef(text); set_source(name, prelude)"""
    try:
        ffi = cffi.FFI()
        ffi.cdef(c["cdef"])
        ffi.set_source(c["name"], c["csrc"])
        path = os.path.join(work, "ref.c")
        if os.path.exists(path):
            os.unlink(path)
        ffi.emit_c_code(path)
        with open(path, "rb") as f:
            return dict(bytes=f.read().hex())
    except Exception as e:
        return dict(exc=type(e).__name__)


def call_run(argv, outpath, preload=None):
    """-> dict(status, out=hex of file or stdout bytes | None, exc)"""
    buf = io.BytesIO()
    old_stdout, old_stderr, old_argv = sys.stdout, sys.stderr, sys.argv
    wrapper = io.TextIOWrapper(buf, encoding="utf-8", newline=None, write_through=True)
    sys.stdout = wrapper
    sys.stderr = io.StringIO()
    res = {}
    if outpath and os.path.exists(outpath):
        os.unlink(outpath)
    if preload is not None:
        with open(outpath, "wb") as f:
            f.write(preload)
    try:
        try:
            _cffi_gen_src.run(argv)
            res["status"] = "returned"
        except SystemExit as e:
            res["status"] = e.code if isinstance(e.code, int) else (0 if e.code is None else 1)
        except BaseException as e:
            res["status"] = 1                     # an uncaught exception ends the interpreter with status 1
            res["exc"] = type(e).__name__
        wrapper.flush()
    finally:
        sys.stdout, sys.stderr, sys.argv = old_stdout, old_stderr, old_argv
    if outpath:
        res["out"] = open(outpath, "rb").read().hex() if os.path.exists(outpath) else None
    else:
        res["out"] = buf.getvalue().hex()
    wrapper.detach()
    return res


def main(payload):
    work = os.path.join(os.environ["VERIF_WORK"], "c24")
    os.makedirs(work, exist_ok=True)
    results = []
    for i, c in enumerate(payload["cases"]):
        d = os.path.join(work, "case%d" % i)
        os.makedirs(d, exist_ok=True)
        r = dict(ref=reference(c, d), dir=d)
        files = {}
        for fname, data in c["files"].items():
            p = os.path.join(d, fname)
            with open(p, "wb") as f:
                f.write(bytes.fromhex(data))
            files[fname] = p
        out = os.path.join(d, "out.c")
        argv = [files.get(a[1:], a[1:]) if a.startswith("@") else a for a in c["argv"]]
        r["file"] = call_run(argv + [out], out)
        sys.modules.pop("helper_mod", None)
        r["stdout"] = call_run(argv + ["-"], None)
        r["argv"] = argv
        if c.get("crlf_target") and "bytes" in r["ref"]:
            # the witness of C24_direct_crlf_target_refuted on the real programs: OUTPUT / the emit_c_code target
            # already holds the generated text with CRLF line ends
            ref = bytes.fromhex(r["ref"]["bytes"])
            crlf = ref.replace(b"\n", b"\r\n")
            sys.modules.pop("helper_mod", None)
            t = call_run(argv + [out], out, preload=crlf)
            p2 = os.path.join(d, "ref_crlf.c")
            with open(p2, "wb") as f:
                f.write(crlf)
            ffi = cffi.FFI()
            ffi.cdef(c["cdef"])
            ffi.set_source(c["name"], c["csrc"])
            ffi.emit_c_code(p2)
            got = open(p2, "rb").read()
            r["crlf_target"] = dict(tool_status=t["status"], tool_equals_ref=t["out"] == r["ref"]["bytes"],
                                    direct_kept_crlf=got == crlf, direct_equals_ref=got == ref, has_newline=crlf != ref)
        sys.modules.pop("helper_mod", None)      # each case has its own sibling module of that name
        results.append(r)
    return dict(results=results)


if __name__ == "__main__":
    worker_main(main)
