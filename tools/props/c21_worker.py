"""C21 worker: executes operation histories on the real cffi (scratch build), with gc.collect()
after every operation, and records after every step, for every object created so far:
alive (weakref), destructor/free call count, whether a bytearray source refuses to resize;
plus per-operation results (exceptions, from_handle identity, struct memory probes)."""
import gc
import weakref

import cffi
from lib.vlib import worker_main

ffi = cffi.FFI()
ffi.cdef("struct c21s { long a; long b; }; struct c21v { int n; int tail[]; };")


# (ctype, initializer the conversion rejects after the memory was obtained)
REJECTED = [("long[4]", [1, 2, 3, 4, 5]),                 # too many items
            ("long[4]", [1, "x"]),                        # wrongly typed element
            ("struct c21s *", {"zz": 1}),                 # unknown field
            ("int[2]", [1 << 40]),                        # out-of-range integer
            ("struct c21v *", [1, [1 << 40]]),            # overflowing element in a var-sized tail
            ("struct c21s *", [1, 2, 3])]                 # too many initializers for the struct


class BA(bytearray):
    """bytearray that can be weakly referenced and can carry references (cycles)"""


class Run:
    def __init__(self):
        self.held = {}        # id -> object (while the program holds at least one variable)
        self.count = {}       # id -> number of variables
        self.weak = []        # id -> weakref
        self.calls = {}       # id -> destructor / free calls
        self.kind = []        # id -> model kind name
        self.struct_of = {}   # pointer id -> struct object id
        self.handle_x = {}    # handle id -> id of the object given to new_handle
        self.pattern = {}     # struct object id -> value written through the pointer
        self.released = set() # ids explicitly released (and the struct object behind a released pointer)

    def new_id(self, obj, kind, hold):
        i = len(self.weak)
        self.weak.append(weakref.ref(obj))
        self.kind.append(kind)
        if hold:
            self.held[i] = obj
            self.count[i] = 1
        return i

    def hold(self, i, obj):
        self.count[i] = self.count.get(i, 0) + 1
        self.held[i] = obj

    def usable(self, i):
        return self.count.get(i, 0) > 0

    def make_allocator(self, gcp_id_box, has_free):
        run = self

        def alloc(n):
            raw = ffi.new("char[]", n)
            gcp_id_box.append(weakref.ref(raw))
            return raw
        if has_free:
            def free(x, _box=gcp_id_box):
                run.calls[_box[0]] = run.calls.get(_box[0], 0) + 1
        else:
            free = None
        return ffi.new_allocator(alloc, free)

    def step(self, op):
        """returns a small result record"""
        t = op[0]
        res = {}
        try:
            if t == "ONew":
                self.new_id(ffi.new("long[4]"), "KOwn", True)
            elif t == "ONewStruct":
                p = ffi.new("struct c21s *")
                st = self.new_id(p[0], "KOwn", False)
                pi = self.new_id(p, "KStructPtr", True)
                self.struct_of[pi] = st
                p.a = 1000 + pi
                self.pattern[st] = 1000 + pi
            elif t == "OAllocNew":
                box = [None]          # box[0] = id of the wrapper (for the free counter)
                A = self.make_allocator(box, op[3])
                w = A("long[4]")
                raw_ref = box.pop()
                ri = len(self.weak)
                self.weak.append(raw_ref)
                self.kind.append("KRaw")
                wi = self.new_id(w, "KGcp", True)
                box[0] = wi
                self.calls.setdefault(wi, 0)
            elif t == "OAllocNewStruct":
                box = [None]
                A = self.make_allocator(box, op[4])
                p = A("struct c21s *")
                raw_ref = box.pop()
                self.weak.append(raw_ref)
                self.kind.append("KRaw")
                gi = self.new_id(p[0], "KGcp", False)
                box[0] = gi
                self.calls.setdefault(gi, 0)
                pi = self.new_id(p, "KStructPtr", True)
                self.struct_of[pi] = gi
                p.a = 1000 + pi
                self.pattern[gi] = 1000 + pi
            elif t == "ONewFail":
                # rejected initialisers, default allocator: the cdata made before the conversion must not
                # survive (each leaked cdata keeps one reference to its ctype)
                import sys
                ctname, init = REJECTED[op[1] % len(REJECTED)]
                ct = ffi.typeof(ctname)
                gc.collect()
                before = sys.getrefcount(ct)
                reps, ok = 25, 0
                for _ in range(reps):
                    try:
                        ffi.new(ct, init)
                        ok += 1
                    except (TypeError, ValueError, OverflowError, IndexError, KeyError):
                        pass
                gc.collect()
                res["ct_refs_delta"] = sys.getrefcount(ct) - before
                res["reps"] = reps
                if ok:
                    res["unexpected_success"] = True
            elif t == "OAllocNewFail":
                wi = len(self.weak) + 1            # ids: the block from alloc(), then the wrapper
                box = [wi]
                A = self.make_allocator(box, op[3])
                ctname, init = REJECTED[op[4] % len(REJECTED)]
                try:
                    A(ctname, init)
                    res["unexpected_success"] = True
                except (TypeError, ValueError, OverflowError, IndexError, KeyError):
                    pass
                refs = box[1:]
                res["alloc_calls"] = len(refs)
                self.weak.append(refs[0] if refs else (lambda: None))
                self.kind.append("KRaw")
                self.weak.append(lambda: None)     # the wrapper never reached Python: dead by construction
                self.kind.append("KGcp")
                self.calls.setdefault(wi, 0)
            elif t == "OAlias":
                p = op[1]
                if self.usable(p) and self.kind[p] == "KStructPtr":
                    self.hold(self.struct_of[p], self.held[p][0])
            elif t == "OGc":
                p, y = op[1], op[3]
                if self.usable(p) and (y is None or (self.usable(y) and self.kind[y] == "KPy")):
                    wi = len(self.weak)
                    run = self
                    re = op[4] if len(op) > 4 else 0
                    box = []       # re-entrant destructors reach their own wrapper through a weak reference

                    def d(x, _i=wi, _y=(self.held[y] if y is not None else None), _box=box, _re=re):
                        run.calls[_i] = run.calls.get(_i, 0) + 1
                        if run.calls[_i] > 3:
                            return                      # a runaway recursion is cut: the count shows it
                        me = _box[0]() if _box else None
                        if me is not None and _re == 1:
                            ffi.release(me)             # nested cdatagcp_finalize on the same wrapper
                        elif me is not None and _re == 2:
                            ffi.gc(me, None)            # Py_CLEAR(destructor) while the destructor runs
                    w = ffi.gc(self.held[p], d)
                    if re:
                        box.append(weakref.ref(w))
                    del d
                    assert self.new_id(w, "KGcp", True) == wi
                    self.calls.setdefault(wi, 0)
            elif t == "OGcNone":
                if self.usable(op[1]):
                    ffi.gc(self.held[op[1]], None)
            elif t == "ORelease":
                i = op[1]
                if self.usable(i):
                    o = self.held[i]
                    self.released.add(i)
                    if i in self.struct_of:
                        self.released.add(self.struct_of[i])
                    if len(op) > 2 and op[2] and isinstance(o, ffi.CData):
                        with o:
                            pass
                    else:
                        ffi.release(o)
                    del o
            elif t == "OHold":
                if self.usable(op[1]):
                    self.count[op[1]] += 1
            elif t == "ODrop":
                i = op[1]
                if self.usable(i):
                    self.count[i] -= 1
                    if self.count[i] == 0:
                        del self.held[i]
            elif t == "ONewPy":
                b = BA(b"0123456789abcdef")
                b.refs = []
                self.new_id(b, "KPy", True)
            elif t == "OSetRef":
                x, y = op[1], op[2]
                if self.usable(x) and self.usable(y):
                    self.held[x].refs.append(self.held[y])
            elif t == "OFromBuffer":
                src = op[1]
                if self.usable(src) and self.kind[src] == "KPy":
                    self.new_id(ffi.from_buffer(self.held[src]), "KFromBuf", True)
            elif t == "OFromBufferFail":
                src, tag = op[1], op[2]
                if self.usable(src) and self.kind[src] == "KPy":
                    o = self.held[src]
                    variant = op[3] if len(op) > 3 else 0
                    if tag == 1:                 # fixed-length array type, buffer too small
                        bad = ffi.from_buffer("long[100]" if variant == 0 else "char[17]", o)
                    elif variant == 0:           # not a buffer at all
                        bad = ffi.from_buffer("char[]", o.refs)
                    elif variant == 1:           # read-only buffer, writable required
                        bad = ffi.from_buffer("char[]", bytes(o), require_writable=True)
                    else:                        # unicode
                        bad = ffi.from_buffer("char[]", u"text")
                    res["unexpected_success"] = True
                    del bad
            elif t == "ONewHandle":
                x = op[1]
                if self.usable(x):
                    hi = self.new_id(ffi.new_handle(self.held[x]), "KHandle", True)
                    self.handle_x[hi] = x
            elif t == "OFromHandle":
                h = op[1]
                if self.usable(h) and self.kind[h] == "KHandle":
                    r = ffi.from_handle(self.held[h])
                    x = self.handle_x[h]
                    res["from_handle_identity"] = r is self.weak[x]()
                    self.hold(x, r)
                    del r
            elif t == "OCollectAuto":
                pass
            else:
                raise ValueError("unknown op %r" % (op,))
        except (TypeError, ValueError, AttributeError, BufferError) as e:
            res["exc"] = type(e).__name__
        gc.collect()
        return res

    def observe(self):
        out = []
        for i, w in enumerate(self.weak):
            o = w()
            alive = o is not None
            blocked = False
            if alive and self.kind[i] == "KPy":
                try:
                    o.append(0)
                    o.pop()
                except BufferError:
                    blocked = True
            out.append([alive, self.calls.get(i, 0), blocked])
            del o
        return out

    def memory_probe(self):
        """struct memory reachable through a held pointer or a held alias still has its pattern"""
        bad = []
        for pi, st in self.struct_of.items():
            if self.usable(pi):
                p = self.held[pi]
                if self.kind[st] == "KGcp" and st in self.released:
                    continue        # explicitly released allocation: memory is the allocator's business
                if p.a != self.pattern[st]:
                    bad.append([pi, int(p.a), self.pattern[st]])
            elif self.usable(st):
                s = self.held[st]
                if self.kind[st] == "KGcp" and st in self.released:
                    continue
                if s.a != self.pattern[st]:
                    bad.append([st, int(s.a), self.pattern[st]])
        return bad


def run_history(ops):
    r = Run()
    trace, results, mem = [], [], []
    for op in ops:
        results.append(r.step(op))
        trace.append(r.observe())
        mem.append(r.memory_probe())
    kinds = list(r.kind)
    r.held.clear()
    del r
    gc.collect()
    return dict(trace=trace, results=results, mem=mem, kinds=kinds)


def main():
    """results are kept as JSON text: container objects would be tracked by the collector and
    make every gc.collect() of the later histories slower"""
    import json
    import sys
    payload = json.load(sys.stdin)
    out = []
    for h in payload["histories"]:
        try:
            out.append(json.dumps(run_history(h)))
        except Exception:
            import traceback
            out.append(json.dumps(dict(harness_error=traceback.format_exc()[-1500:])))
    sys.stdout.write('\nRESULT {"results": [' + ", ".join(out) + "]}\n")
    sys.stdout.flush()


if __name__ == "__main__":
    main()
