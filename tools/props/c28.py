"""C28 — embedded-library startup initializes once and never deadlocks.

Proof: coq/C28 (N-thread, any-number-of-libraries transition system of _embedding.h; inductive invariants for
ALL schedules; a weight function that bounds the number of effective steps and a bounded-fair termination
theorem for libraries that do not call into each other; refutation witness for the cross-library clause).
Tie 1 (regenerated, fail closed): five order/placement facts are read from /repo/src/cffi/_embedding.h on every
run and written to coq/C28/Gen.v, and the model's step function consults them: where _cffi_start_python switches
to the fast path; whether both exits of _cffi_initialize_python pass PyGILState_Release; whether the CAS guard
of _cffi_acquire_reentrant_mutex is released before pthread_mutex_lock; whether _cffi_start_and_call_python
zeroes the result under `fnptr == NULL` and calls only under `fnptr != NULL`; whether the failure branch resets
_cffi_call_python_org.  The proofs are about the code as it is (all facts true): any other value breaks
C28/Proofs.v (step_cases / step_cstep) and with it every theorem about [step].  The rest of the 19-pc step
function is hand-written.
Tie 2 (correspondence): two real embedded libraries (built as /repo/testing/embedding builds them, scratch tree on
PYTHONPATH) and a C driver whose threads and the libraries' init codes meet at semaphores, so that the
interleavings the model distinguishes are forced on the real code: call during another thread's init, failing
init with a waiter, recursion from the init code, two libraries in parallel, init codes calling across
libraries (control and the deadlocking variant = the witness schedule of C28_two_libraries_deadlock_refuted).
The event log decides the property on the implementation; the final observation is compared with the model run
on the corresponding schedule(s).  Label: partial (memory model, pthread and CPython are hypotheses; the
schedules on the real code are a sample).
"""
from lib import vlib
from lib.vlib import cbool, clist

import os
import re

ID = "C28"
GEN = os.path.join(vlib.COQ, "C28", "Gen.v")


class Untranslatable(Exception):
    pass


def _block(text, start):
    """text[start] == '{': index just after the matching '}' (comments and strings of this file hold no braces
    except in comments, which are removed beforehand)"""
    depth = 0
    for i in range(start, len(text)):
        if text[i] == "{":
            depth += 1
        elif text[i] == "}":
            depth -= 1
            if depth == 0:
                return i + 1
    raise Untranslatable("unbalanced braces")


def guard_release_first(src):
    """_cffi_acquire_reentrant_mutex: is the one-time-init guard (CAS lock 1 -> NULL) released before
    pthread_mutex_lock(&_cffi_embed_startup_lock)?"""
    m = re.search(r"static void _cffi_acquire_reentrant_mutex\(void\)\s*\{", src)
    if not m:
        raise Untranslatable("_cffi_acquire_reentrant_mutex not found")
    body = re.sub(r"/\*.*?\*/", " ", src[m.end() - 1:_block(src, m.end() - 1)], flags=re.S)
    acq = [x.start() for x in re.finditer(r"cffi_compare_and_swap\(&lock,\s*NULL,\s*\(void \*\)1\)", body)]
    rel = [x.start() for x in re.finditer(r"cffi_compare_and_swap\(&lock,\s*\(void \*\)1,\s*NULL\)", body)]
    lck = [x.start() for x in re.finditer(r"pthread_mutex_lock\(&_cffi_embed_startup_lock\)", body)]
    if len(acq) != 1 or len(rel) != 1 or len(lck) != 1 or not acq[0] < min(rel[0], lck[0]):
        raise Untranslatable("_cffi_acquire_reentrant_mutex: unexpected shape (acquire %r, release %r, lock %r)" % (acq, rel, lck))
    return rel[0] < lck[0]


def init_exits(src):
    """_cffi_initialize_python: does the success exit / the error exit pass PyGILState_Release?
    The body after PyGILState_Ensure is cut into statements; the success path starts there and the
    error path at label `error`; a path follows unconditional gotos and ends at a `return`."""
    m = re.search(r"static int _cffi_initialize_python\(void\)\s*\{", src)
    if not m:
        raise Untranslatable("_cffi_initialize_python not found")
    body = src[m.end() - 1:_block(src, m.end() - 1)]
    body = re.sub(r"/\*.*?\*/", " ", body, flags=re.S)
    body = re.sub(r'"(?:[^"\\\\]|\\\\.)*"', '""', body)
    e = re.search(r"state\s*=\s*PyGILState_Ensure\(\)\s*;", body)
    if not e:
        raise Untranslatable("PyGILState_Ensure not found")
    # tokens of interest, in order
    toks = [(x.start(), x.group(0)) for x in re.finditer(
        r"\n\s*(\w+):;?(?=\s)|(?<![\w])if\s*\([^;{}]*\)\s*goto\s+\w+\s*;|goto\s+\w+\s*;|return\b[^;]*;|PyGILState_Release\(state\)\s*;", body)]
    labels = {}
    for i, (pos, t) in enumerate(toks):
        lm = re.match(r"\n\s*(\w+):", t)
        if lm:
            labels[lm.group(1)] = i

    def follow(i, seen=()):
        released = False
        while i < len(toks):
            t = toks[i][1]
            if t.startswith("PyGILState_Release"):
                released = True
            elif t.startswith("return"):
                return released
            elif t.startswith("goto"):
                lab = re.match(r"goto\s+(\w+)", t).group(1)
                if lab not in labels or lab in seen:
                    raise Untranslatable("goto %s" % lab)
                seen = seen + (lab,)
                i = labels[lab]
            i += 1
        raise Untranslatable("a path of _cffi_initialize_python does not end in a return")
    start = next((i for i, (pos, t) in enumerate(toks) if pos > e.end()), None)
    if start is None or "error" not in labels:
        raise Untranslatable("_cffi_initialize_python: no statements after Ensure or no label 'error'")
    if any(pos < e.start() and (t.startswith("return") or "goto" in t) for pos, t in toks):
        raise Untranslatable("_cffi_initialize_python: exit before PyGILState_Ensure")
    return follow(start), follow(labels["error"])


def zero_on_null(src):
    """_cffi_start_and_call_python: is the result buffer zeroed under `if (fnptr == NULL) { ... }` (fnptr being the
    value of _cffi_start_python()), and does the one call through fnptr stand directly under `if (fnptr != NULL)`,
    after the memset?  Unknown shapes (no such function, several calls/assignments) are untranslatable; a missing or
    differently placed memset / an unguarded call give False."""
    m = re.search(r"void\s+_cffi_start_and_call_python\(struct _cffi_externpy_s \*externpy,\s*char \*args\)\s*\{", src)
    if not m:
        raise Untranslatable("_cffi_start_and_call_python not found")
    body = src[m.end() - 1:_block(src, m.end() - 1)]
    body = re.sub(r"/\*.*?\*/", " ", body, flags=re.S)
    body = re.sub(r'"(?:[^"\\]|\\.)*"', '""', body)
    asg = [x.end() for x in re.finditer(r"(?<![\w>.])fnptr\s*=(?!=)", body)]
    start = [x.end() for x in re.finditer(r"(?<![\w>.])fnptr\s*=\s*_cffi_start_python\(\)\s*;", body)]
    calls = [x.start() for x in re.finditer(r"(?<![\w>.])fnptr\s*\(", body)]
    if len(asg) != 1 or len(start) != 1 or len(calls) != 1 or not start[0] < calls[0]:
        raise Untranslatable("_cffi_start_and_call_python: unexpected shape (%d assignments to fnptr, %d from "
                             "_cffi_start_python(), %d calls through it)" % (len(asg), len(start), len(calls)))
    if not re.match(r"fnptr\s*\(\s*externpy\s*,\s*args\s*\)\s*;", body[calls[0]:]):
        raise Untranslatable("_cffi_start_and_call_python: the call through fnptr has unexpected arguments")
    zeroed = False
    for g in re.finditer(r"if\s*\(\s*fnptr\s*==\s*NULL\s*\)\s*\{", body):
        if g.start() < start[0]:
            continue
        blk = body[g.end() - 1:_block(body, g.end() - 1)]
        if g.end() < calls[0] and blk.count("{") == 1 and \
                re.search(r"(?<![\w])memset\(\s*args\s*,\s*0\s*,\s*externpy->size_of_result\s*\)\s*;", blk):
            zeroed = True
    guarded = re.search(r"if\s*\(\s*fnptr\s*!=\s*NULL\s*\)\s*\{?\s*$", body[:calls[0]]) is not None
    return zeroed and guarded


def fail_resets_org(body, cstart, cend):
    """_cffi_start_python (comment-free body; body[cstart:cend] = the block of `if (!called)`): does the failure branch
    of the one `_cffi_initialize_python()` test contain `_cffi_call_python_org = NULL;`?  No such assignment anywhere
    -> False; an assignment at any other place -> untranslatable."""
    inits = [x.start() for x in re.finditer(r"_cffi_initialize_python\(\)", body)]
    if len(inits) != 1 or not cstart <= inits[0] < cend:
        raise Untranslatable("_cffi_start_python: expected exactly one _cffi_initialize_python() inside 'if (!called)'")
    asg = [x.start() for x in re.finditer(r"_cffi_call_python_org\s*=(?!=)", body)]
    nul = [x.start() for x in re.finditer(r"_cffi_call_python_org\s*=\s*NULL\s*;", body)]
    if not asg:
        return False
    if len(asg) != 1 or asg != nul:
        raise Untranslatable("_cffi_start_python: unexpected assignments to _cffi_call_python_org")
    a = asg[0]
    blk = body[cstart:cend]
    ok = re.search(r"if\s*\(\s*_cffi_initialize_python\(\)\s*==\s*0\s*\)\s*\{", blk)
    ne = re.search(r"if\s*\(\s*_cffi_initialize_python\(\)\s*!=\s*0\s*\)\s*\{", blk)
    if ok:
        oend = _block(body, cstart + ok.end() - 1)
        e = re.match(r"\s*else\s*\{", body[oend:])
        if e and oend + e.end() - 1 <= a < _block(body, oend + e.end() - 1):
            return True
    elif ne:
        nstart = cstart + ne.end() - 1
        if nstart <= a < _block(body, nstart):
            return True
    raise Untranslatable("_cffi_start_python: '_cffi_call_python_org = NULL' is not in the failure branch of the "
                         "_cffi_initialize_python() test")


def translate_gen():
    """where does _cffi_start_python switch _cffi_call_python to the fast path?"""
    src = open(os.path.join(vlib.REPO, "src", "cffi", "_embedding.h")).read()
    m = re.search(r"static _cffi_call_python_fnptr _cffi_start_python\(void\)\s*\{", src)
    if not m:
        raise Untranslatable("_cffi_start_python not found")
    body = src[m.end() - 1:_block(src, m.end() - 1)]
    body = re.sub(r"/\*.*?\*/", " ", body, flags=re.S)
    sw = [x.start() for x in re.finditer(r"_cffi_call_python\s*=\s*\(_cffi_call_python_fnptr\)\s*_cffi_call_python_org\s*;", body)]
    if len(sw) != 1:
        raise Untranslatable("%d assignments to _cffi_call_python" % len(sw))
    sw = sw[0]
    c = re.search(r"if\s*\(\s*!called\s*\)\s*\{", body)
    rel = re.search(r"_cffi_release_reentrant_mutex\(\)\s*;", body)
    if not c or not rel:
        raise Untranslatable("'if (!called)' block or the mutex release not found")
    cend = _block(body, c.end() - 1)
    if c.end() <= sw < cend:
        ok = re.search(r"if\s*\(\s*_cffi_initialize_python\(\)\s*==\s*0\s*\)\s*\{", body[c.end():cend])
        if not ok:
            raise Untranslatable("success branch of _cffi_initialize_python() not found")
        ostart = c.end() + ok.end() - 1
        if not (ostart <= sw < _block(body, ostart)):
            raise Untranslatable("the switch is inside 'if (!called)' but outside the success branch")
        inside = True
        what = 'inside "if (!called) { ... if (_cffi_initialize_python() == 0) { HERE } }"'
    elif cend <= sw < rel.start():
        g = re.search(r"if\s*\(\s*_cffi_call_python_org\s*!=\s*NULL\s*\)\s*\{", body[cend:rel.start()])
        if not g or not (cend + g.end() - 1 <= sw < _block(body, cend + g.end() - 1)):
            raise Untranslatable("the switch follows the 'if (!called)' block without the expected guard")
        inside = False
        what = 'after the "if (!called)" block, under "if (_cffi_call_python_org != NULL)", before the mutex release'
    else:
        raise Untranslatable("the switch is neither in the success branch nor between the block and the release")
    exits = init_exits(src)
    relfirst = guard_release_first(src)
    zeronull = zero_on_null(src)
    failreset = fail_resets_org(body, c.end() - 1, cend)
    return ("""(* C28/Gen.v — REGENERATED on every run by tools/props/c28.py:regen from
     /repo/src/cffi/_embedding.h   (_cffi_start_python: where "_cffi_call_python = ... _cffi_call_python_org"
                                    stands relative to the "if (!called)" block and its success branch, and
                                    whether the failure branch resets _cffi_call_python_org;
                                    _cffi_initialize_python: PyGILState_Release on both exits;
                                    _cffi_acquire_reentrant_mutex: guard released before the lock;
                                    _cffi_start_and_call_python: memset / call under the NULL tests)
   Do not edit: this committed copy is the snapshot used when the translator fails. *)

(* the switch to the fast path is %s *)
Definition gen_switch_in_success : bool := %s.

(* _cffi_initialize_python: (the success exit, the error exit) passes PyGILState_Release(state) *)
Definition gen_init_exits : bool * bool := (%s, %s).

(* _cffi_acquire_reentrant_mutex: the CAS guard is released before pthread_mutex_lock *)
Definition gen_guard_released_before_lock : bool := %s.

(* _cffi_start_and_call_python: memset(args, 0, size_of_result) under "if (fnptr == NULL)", and the only
   call through fnptr under "if (fnptr != NULL)", after it *)
Definition gen_zero_on_null : bool := %s.

(* _cffi_start_python: the failure branch of _cffi_initialize_python(), inside "if (!called)", resets
   _cffi_call_python_org = NULL *)
Definition gen_fail_resets_org : bool := %s.
""" % (what, "true" if inside else "false", "true" if exits[0] else "false", "true" if exits[1] else "false",
       "true" if relfirst else "false", "true" if zeronull else "false", "true" if failreset else "false"))


def regen(ctx):
    try:
        text = translate_gen()
    except (Untranslatable, OSError) as e:
        ctx.translator("C28/Gen.v", "fallback: %s" % e)
        return
    old = open(GEN).read() if os.path.exists(GEN) else None
    if old == text:
        ctx.translator("C28/Gen.v", "unchanged")
    else:
        with vlib.CoqLock():
            with open(GEN, "w") as f:
                f.write(text)
        ctx.translator("C28/Gen.v", "regenerated")


def go(t, k, c="COk"):
    return [(t, c)] * k


def sched_literal(sched):
    def ch(c):
        return c if isinstance(c, str) else "(CCall %d)" % c
    return clist(["(%d, %s)" % (t, ch(c)) for t, c in sched])


def random_fair(rng, calls, fail=False, rounds=60):
    """every thread starts its call(s); then random single steps until everybody must be done"""
    n = len(calls)
    sched = []
    pending = {t: list(ls) for t, ls in enumerate(calls)}
    order = []
    for t in range(n):
        order += [t] * (30 * len(calls[t]))
    rng.shuffle(order)
    started = set()
    c = "CFail" if fail else "COk"
    for t in order:
        if t not in started:
            started.add(t)
            sched.append((t, pending[t].pop(0)))
        else:
            sched.append((t, c))
    # drain: everybody finishes; a thread with further calls starts them one after the other
    for t in range(n):
        sched += go(t, 20, c)
        while pending[t]:
            sched.append((t, pending[t].pop(0)))
            sched += go(t, 30, c)
    for _ in range(2):
        for t in range(n):
            sched += go(t, 20, c)
    return sched


def scenarios(ctx):
    """(name, driver scenario, [model schedules], nthreads, expected deadlock)"""
    rng = ctx.rng
    out = []
    out.append(dict(name="single", drv=dict(main="", threads=["c0:1"]),
                    scheds=[[(0, 0)] + go(0, 30)], n=1))
    for nthr in ([3] if not ctx.thorough else [2, 3, 5, 8]):
        for rep in range(ctx.n(1, 4)):
            out.append(dict(name="race%d" % nthr,
                            drv=dict(main="", threads=["b,c0:%d" % (i + 1) for i in range(nthr)], mode0="sleep"),
                            scheds=[random_fair(rng, [[0]] * nthr) for _ in range(ctx.n(3, 10))], n=nthr))
    # T1 calls while T0 is inside the init code
    out.append(dict(name="call-during-init",
                    drv=dict(main="w1,p5,d200,p2", threads=["c0:1", "w5,c0:2"], mode0="sync"),
                    scheds=[[(0, 0)] + go(0, 13) + [(1, 0)] + go(1, 20) + go(0, 21) + go(1, 20)], n=2))
    out.append(dict(name="fail-with-waiter",
                    drv=dict(main="w1,p5,d200,p2", threads=["c0:1,c0:5", "w5,c0:2"], mode0="sync+fail"),
                    scheds=[[(0, 0)] + go(0, 13) + [(1, 0)] + go(1, 20) + go(0, 21, "CFail") + go(1, 20)
                            + [(0, 0)] + go(0, 30, "CFail")], n=2))
    out.append(dict(name="fail-race", drv=dict(main="", threads=["b,c0:1", "b,c0:2", "b,c0:3"], mode0="sleep+fail"),
                    scheds=[random_fair(rng, [[0]] * 3, fail=True) for _ in range(ctx.n(2, 8))], n=3))
    out.append(dict(name="recursion",
                    drv=dict(main="", threads=["c0:1", "d800,c0:2"], mode0="pre+post"),
                    scheds=[[(0, 0)] + go(0, 13) + [(0, 0)] + go(0, 12) + [(0, 0)] + go(0, 12) + go(0, 21)
                            + [(1, 0)] + go(1, 30)], n=2))
    # a recursive call from the init code (function already attached), then the init code fails:
    # later calls must return the zeroed result
    out.append(dict(name="recursion-then-fail",
                    drv=dict(main="", threads=["c0:1,c0:5"], mode0="post+fail"),
                    scheds=[[(0, 0)] + go(0, 13) + [(0, 0)] + go(0, 12) + go(0, 21, "CFail")
                            + [(0, 0)] + go(0, 30, "CFail")], n=1))
    # a recursive call from the init code, then a second thread makes its first call while the init
    # code is still running: it must wait
    out.append(dict(name="recursion-then-waiter",
                    drv=dict(main="w9,p5,d300,p10", threads=["c0:1", "w5,c0:2"], mode0="post+sync2"),
                    scheds=[[(0, 0)] + go(0, 13) + [(0, 0)] + go(0, 12) + [(1, 0)] + go(1, 20) + go(0, 21)
                            + go(1, 20)], n=2))
    # library 0's init fails in T0; afterwards a different thread makes its first call into library 1:
    # it must not hang (the failing thread must have given the GIL back)
    out.append(dict(name="fail-then-other-library",
                    drv=dict(main="", threads=["c0:1,p5", "w5,c1:2"], mode0="fail", watchdog=ctx.n(8, 12)),
                    scheds=[[(0, 0)] + go(0, 40, "CFail") + [(1, 1)] + go(1, 40)], n=2))
    # a second thread is already waiting for the start-up mutex when the init code makes its
    # (supported) recursive call: the recursion must get through the one-time-init guard
    out.append(dict(name="waiter-then-recursion",
                    drv=dict(main="w1,p5,d500,p2", threads=["c0:1", "w5,c0:2"], mode0="sync+post", watchdog=ctx.n(8, 12)),
                    scheds=[[(0, 0)] + go(0, 13) + [(1, 0)] + go(1, 20) + [(0, 0)] + go(0, 12) + go(0, 21)
                            + go(1, 20)], n=2))
    out.append(dict(name="two-libraries",
                    drv=dict(main="", threads=["b,c0:1", "b,c1:2"]),
                    scheds=[random_fair(rng, [[0], [1]]) for _ in range(ctx.n(3, 10))], n=2))
    # lib0's init code calls lib1 while lib1 is being initialized by T1 (which does not call back)
    out.append(dict(name="cross-control",
                    drv=dict(main="w1,w3,p2,d300,p4", threads=["c0:1", "c1:2"], mode0="sync+cross", mode1="sync"),
                    scheds=[[(0, 0)] + go(0, 13) + [(1, 1)] + go(1, 12) + [(0, 1)] + go(0, 20) + go(1, 21)
                            + go(0, 40)], n=2))
    # both init codes call the other library: the witness of C28_two_libraries_deadlock_refuted
    out.append(dict(name="cross-deadlock",
                    drv=dict(main="w1,w3,p2,p4", threads=["c0:1", "c1:2"], mode0="sync+cross", mode1="sync+cross",
                             watchdog=ctx.n(6, 12)),
                    scheds=["deadlock_schedule"], n=2, expect_deadlock=True))
    if ctx.thorough:
        out.append(dict(name="three-waiters",
                        drv=dict(main="w1,p5,p5,p5,d300,p2", threads=["c0:1", "w5,c0:2", "w5,c0:3", "w5,c1:4"], mode0="sync"),
                        scheds=[[(0, 0)] + go(0, 13) + [(1, 0), (2, 0), (3, 1)] + go(1, 20) + go(2, 20) + go(3, 40)
                                + go(0, 21) + go(1, 20) + go(2, 20)], n=4))
    return out


def generate(ctx):
    return [dict(kind="scenario", **sc) for sc in scenarios(ctx)]


def analyse(events, nlibs=2):
    """property predicate on the event log + the observation compared with the model"""
    bad = []
    pyinit = sum(1 for t, e in events if e == "PYINIT")
    if pyinit > 1:
        bad.append("Py_InitializeEx called %d times" % pyinit)
    obs = []
    early = False
    for k in range(nlibs):
        starts = [(i, t) for i, (t, e) in enumerate(events) if e == "INIT_START %d" % k]
        done = [i for i, (t, e) in enumerate(events) if e == "INIT_DONE %d" % k]
        fail = [i for i, (t, e) in enumerate(events) if e == "INIT_FAIL %d" % k]
        if len(starts) > 1:
            bad.append("init code of library %d ran %d times" % (k, len(starts)))
        initializer = starts[0][1] if starts else None
        for i, (t, e) in enumerate(events):
            if e == "EXT %d" % k:
                if not ((done and done[0] < i) or t == initializer):
                    early = True
                    bad.append("thread %d ran the extern function of library %d before its initialization finished" % (t, k))
                if fail and fail[0] < i:
                    early = True
                    bad.append("extern function of library %d ran after its initialization failed" % k)
        res = [(i, t, e.split()) for i, (t, e) in enumerate(events) if e.startswith("RES %d " % k)]
        zeros = 0
        for i, t, w in res:
            arg, val = int(w[2]), int(w[3])
            if fail:
                if val != 0:
                    bad.append("library %d: call returned %d although the initialization failed" % (k, val))
            elif val != arg + 100 * (k + 1):
                bad.append("library %d: f(%d) returned %d" % (k, arg, val))
            zeros += val == 0
        calls = sum(1 for t, e in events if e.startswith("CALL %d " % k))
        ist = 3 if fail else 2 if done else 1 if starts else 0
        obs.append((len(starts), zeros, ist))
    deadlock = any(e == "DEADLOCK" for t, e in events)
    finished = any(e == "ALLDONE" for t, e in events)
    return bad, (pyinit, early, obs), deadlock, finished


def evaluate(ctx, cases):
    if not cases:
        return
    s = ctx.scratch()
    out, p = s.run_worker("c28_worker.py", dict(scenarios=[c["drv"] for c in cases]), timeout=3000)
    if out is None:
        ctx.obligation_broken("C28 worker (build of the embedded libraries or the driver)", (p.stderr or p.stdout)[-3000:])
        return
    ctx.extra["build_s"] = round(out.get("build_s", 0), 1)
    coqcases, owner = [], []
    for c, r in zip(cases, out["results"]):
        ctx.count()
        ctx.hist("scenario", c["name"])
        ctx.nontrivial((c["name"], c["drv"]))
        events = [(t, e) for t, e in r["events"]]
        bad, obs, deadlock, finished = analyse(events)
        small = dict(c, scheds=c["scheds"][:1])
        if r["rc"] is None or (not deadlock and not finished):
            ctx.violation(small, "scenario %s: the process neither finished nor was stopped by the watchdog (rc=%r): %s"
                          % (c["name"], r["rc"], r["stderr"][-400:]))
            continue
        for b in bad:
            ctx.violation(small, "scenario %s: %s; events: %r" % (c["name"], b, events[:40]))
        if deadlock:
            key = "cross-library-init-deadlock" if c.get("expect_deadlock") else None
            ctx.violation(small, "scenario %s: deadlock (the calls did not return within the watchdog time); events: %r"
                          % (c["name"], events[:40]), key)
        pyinit, early, libobs = obs
        busy = [deadlock] * c["n"]
        exp = "(%d, %s, %s, %s)" % (pyinit, cbool(early),
                                    clist(["(%d, %d, %d)" % o for o in libobs]), clist([cbool(b) for b in busy]))
        for sched in c["scheds"]:
            lit = sched if isinstance(sched, str) else sched_literal(sched)
            coqcases.append(("((%d, %s) : nat * list (nat * choice))" % (c["n"], lit),
                             "(%s : nat * bool * list (nat * nat * nat) * list bool)" % exp))
            owner.append(small)
    fexpr = ("fun (ns : nat * list (nat * choice)) => let s := run (fst ns) (snd ns) in "
             "(pycount s, bad s, map (fun l => (icount (libs s l), zeros s l, "
             "match ist (libs s l) with NotStarted => 0 | Running _ => 1 | DoneOk => 2 | DoneFail => 3 end)) (seq 0 2), "
             "map (fun t => busy s t) (seq 0 (fst ns)))")
    eqb = ("fun (a b : nat * bool * list (nat * nat * nat) * list bool) => match a, b with (p1, b1, l1, s1), (p2, b2, l2, s2) => "
           "Nat.eqb p1 p2 && Bool.eqb b1 b2 && "
           "list_eqb (fun x y => match x, y with (i1, z1, c1), (i2, z2, c2) => Nat.eqb i1 i2 && Nat.eqb z1 z2 && Nat.eqb c1 c2 end) l1 l2 "
           "&& list_eqb Bool.eqb s1 s2 end")
    # the deadlocked model state has both libraries still Running: the real log shows INIT_START only
    badi, outs, err = vlib.coq_mismatches(["C28.Model", "C28.Proofs4"], fexpr, eqb, coqcases, shard=40)
    if err:
        ctx.obligation_broken("C28 model evaluation", err)
    for i in badi:
        ctx.mismatch(owner[i], "scenario %s: model observation %s, real %s" % (owner[i]["name"], outs.get(i), coqcases[i][1]),
                     "C28.Model.run on the scenario's schedule vs real embedded libraries")
    ctx.extra["model_evaluations"] = len(coqcases)
    ctx.sample(dict(cases[0], scheds=cases[0]["scheds"][:1]))


def run(ctx):
    ctx.cov["rule"] = (
        "scenarios on two real embedded libraries and a semaphore-driven C driver: single call; N threads racing for "
        "the first call; a call arriving while another thread runs the init code; failing init with a waiter and a "
        "later call; failing init under a race; recursion from the init code (before and after def_extern); two "
        "libraries in parallel; init code of one library calling the other while that one is being initialized; both "
        "init codes calling each other (model's deadlock witness). Each compared with the model on the corresponding "
        "schedule or on several random fair schedules. Non-trivial = every scenario; distinct by name and parameters.")
    ctx.assumptions += [
        "model C28/Model.v of _embedding.h: the 19-pc step function is hand-written; five order/placement facts it "
        "consults (Gen.v: fast-path switch position, PyGILState_Release on both exits of _cffi_initialize_python, CAS "
        "guard released before pthread_mutex_lock, memset-under-NULL / call-under-non-NULL, failure branch resets "
        "_cffi_call_python_org) are regenerated from the source on every run; everything else is tied by this run's "
        "scenarios only",
        "atomic CAS; pthread recursive mutex = 'free iff no other thread is between lock and unlock'; sequentially "
        "consistent memory (write/read barrier pair not modelled); Py_InitializeEx, module init and init code are single steps",
        "termination is proved under a bounded-fair scheduler (rounds in which every thread is scheduled at least once) "
        "for libraries that do not call into each other and user code that stops starting nested calls "
        "(C28_independent_libraries_terminate / C28_single_library_terminates, bound weight s <= 18 * frames); for an "
        "arbitrary scheduler only the number of effective steps is bounded (C28_effective_steps_bounded) and "
        "deadlock-freedom holds; fairness of the OS scheduler and of the GIL hand-over are hypotheses",
        "the real schedules are forced by semaphores and short delays; the verdict is taken from the event order, "
        "never from the delays; deadlock on the real code = watchdog timeout"]
    evaluate(ctx, generate(ctx))


MANIFEST = dict(
    technique="Coq proof (N-thread / any-library transition system of _embedding.h, inductive invariants over all "
              "schedules; weight function bounding the effective steps and a bounded-fair termination theorem; "
              "refutation witness for the cross-library clause) + five order/placement facts of _embedding.h "
              "regenerated from the source into coq/C28/Gen.v on every run (fail closed; the step function consults "
              "them and the proofs only go through for the values of the code as it is) + scenario correspondence on "
              "real embedded libraries with a semaphore-driven driver",
    text="Model hypotheses: sequentially consistent memory (the write/read barrier pair is not modelled), atomic CAS, "
         "pthread recursive mutex as specified, Py_InitializeEx / module init / init code as single steps, fair GIL "
         "hand-over. Under these, proof for all schedules, thread counts, libraries and recursion depths: "
         "Py_InitializeEx at most once; each library's init code and mutex creation at most once; no thread but the "
         "initializer runs an extern function before the library's init finished; slot and mutex exclusion; after a "
         "failed init the state is final, the function pointer stays NULL, the extern function is never entered and a "
         "call at the end of _cffi_start_python returns the zeroed result (one-step statements "
         "C28_failed_init_returns_zero / C28_failed_call_progress); nobody leaves _cffi_initialize_python keeping the "
         "GIL (C28_gil_never_kept); in every reachable state with a call in progress some thread can move, for one "
         "library (C28_no_deadlock_one_library) and for any number of libraries that do not call into each other "
         "(C28_no_deadlock_independent_libraries). Bound: weight = sum of the ranks (1..18) of all frames; a step "
         "that does not change the stepping thread's stack changes nothing (C28_stutter), every other step that "
         "does not start a call strictly decreases the weight (C28_weight_decreases), a call adds at most 18 "
         "(C28_weight_call), weight <= 18 * frames (C28_weight_bound); hence under ANY schedule without further "
         "calls at most weight s effective steps happen (C28_effective_steps_bounded), and under a bounded-fair "
         "scheduler (rounds in which every thread is scheduled at least once) with independent libraries / one "
         "library every call has returned after weight s <= 18 * frames rounds "
         "(C28_independent_libraries_terminate, C28_single_library_terminates; non-vacuity Examples "
         "C28_example_rounds, C28_example_independent). C28_bounded_steps is only the one-step shape lemma behind "
         "this. The no-deadlock clause is refuted for two libraries whose init codes call each other "
         "(C28_two_libraries_deadlock_refuted, witness schedule replayed on the real code). Regenerated on every run "
         "(Gen.v, consulted by the step function): position of the fast-path switch, PyGILState_Release on both exits "
         "of _cffi_initialize_python, CAS guard released before pthread_mutex_lock, memset under fnptr == NULL and "
         "call under fnptr != NULL in _cffi_start_and_call_python, failure branch resets _cffi_call_python_org; the "
         "rest of the step function is hand-written and tied by the scenarios only.",
    note="Partial: memory model, pthread mutex, CPython and scheduler fairness are hypotheses of the model; "
         "termination is not proved for user code that keeps starting nested calls; real schedules are a sample. "
         "Known finding: cross-library-init-deadlock.",
    design_ref="DESIGN.md §4 C28")
