"""C20 — ffi.new zero-fills and initializes exactly like assignment; flexible-array sizing.

Tie: correspondence of the Coq model C20/Model.v (direct_newp sizing + convert_from_object family, both passes of
convert_struct_from_object) with the real backend on generated (type, nested initializer) pairs:
    bytes/size/exception class of   p = ffi.new(T, init)                       vs  model new_bytes
    bytes/exception class of        q = ffi.new(T) [or a zero block]; q[0]=init vs  model assign_bytes
and the property predicate on the implementation itself: the two byte images are equal, ffi.sizeof(p[0]) is the
block size, a flexible array gets the requested number of items, a length-only initializer leaves zeros.
Types come from the C01 declaration generator (restricted to initialisable primitive kinds); their layout is read
from the real typeof(T).fields and checked against the model's wf_type on every case. Thorough: ASan build.
"""
import os
import re
import struct
import subprocess

from lib import vlib
from props import c01

ID = "C20"

# C spelling -> (model kind code, size)   kinds: 0 signed, 1 unsigned, 2 bool, 3 float, 4 char, 5 pointer
PRIMS = {"signed char": (0, 1), "short": (0, 2), "int": (0, 4), "long": (0, 8), "long long": (0, 8),
         "int8_t": (0, 1), "int16_t": (0, 2), "int32_t": (0, 4), "int64_t": (0, 8), "ssize_t": (0, 8),
         "unsigned char": (1, 1), "unsigned short": (1, 2), "unsigned int": (1, 4), "unsigned long": (1, 8),
         "unsigned long long": (1, 8), "uint8_t": (1, 1), "uint16_t": (1, 2), "uint32_t": (1, 4),
         "uint64_t": (1, 8), "size_t": (1, 8), "_Bool": (2, 1), "float": (3, 4), "double": (3, 8),
         "char": (4, 1), "wchar_t": (4, 4), "char16_t": (4, 2), "char32_t": (4, 4),
         "void *": (5, 8), "char *": (5, 8), "int **": (5, 8), "fnptr_t": (5, 8), "double *": (5, 8)}
INTS = [k for k, v in PRIMS.items() if v[0] in (0, 1)]
ERR_CODE = {"TypeError": 1, "ValueError": 2, "IndexError": 3, "KeyError": 4, "OverflowError": 5, "MemoryError": 8}

prim, arr, agg, fld = c01.prim, c01.arr, c01.agg, c01.fld


# ------------------------------------------------------------------------------------------ types

def rand_prim(rng):
    r = rng.random()
    if r < 0.5:
        return prim(rng.choice(INTS))
    return prim(rng.choice(list(PRIMS)))


def rand_bitfield(rng, nm):
    t = rng.choice(INTS + ["_Bool"])
    s = PRIMS[t][1]
    w = 1 if t == "_Bool" else rng.choice([1, 1, 2, 3, rng.randint(1, min(8 * s, 63)), min(8 * s, 63)])
    if rng.random() < 0.1:
        return fld("", prim(t), rng.choice([0, w]) if t != "_Bool" else 0)
    return fld(nm(), prim(t), w)


def rand_agg(rng, nm, depth, pack=0, inline=False, flex_ok=True):
    union = rng.random() < 0.2
    nf = rng.choice([1, 2, 2, 3, 3, 4, 5, 6])
    fields = []
    for i in range(nf):
        r = rng.random()
        if r < 0.25 and pack == 0:
            fields.append(rand_bitfield(rng, nm))
        elif r < 0.6 or depth >= 3:
            fields.append(fld(nm(), rand_prim(rng)))
        elif r < 0.8:
            it = rand_prim(rng) if rng.random() < 0.7 else rand_agg(rng, nm, depth + 1, 0, False, flex_ok=False)
            dims = [rng.choice([1, 2, 3, 4]) for _ in range(rng.choice([1, 1, 1, 2]))]
            t = it
            for d in reversed(dims):
                t = arr(t, d)
            fields.append(fld(nm(), t))
        else:
            k = rng.random()
            if k < 0.45:
                fields.append(fld(nm(), rand_agg(rng, nm, depth + 1, rng.choice([0, 0, 0, 1, 2]), False, flex_ok=False)))
            elif k < 0.7:
                fields.append(fld(nm(), rand_agg(rng, nm, depth + 1, pack, True, flex_ok=False)))
            else:
                fields.append(fld("", rand_agg(rng, nm, depth + 1, pack, True, flex_ok=False)))
    if not union and flex_ok and any(f["name"] for f in fields):
        r = rng.random()
        if r < 0.3:
            fields.append(fld(nm(), arr(prim(rng.choice(["int", "char", "short", "unsigned char", "wchar_t", "double",
                                                          "long", "void *", "char16_t", "char32_t", "char16_t",
                                                          "signed char", "_Bool"])), -1)))
        elif r < 0.42 and depth < 3:
            # a var-sized struct as last member (CT_WITH_VAR_ARRAY propagates)
            inl = rng.random() < 0.5
            inner = rand_agg(rng, nm, depth + 1, pack if inl else 0, inl, flex_ok=True)   # in-place: inherits the packing
            if c01.has_flex(inner) and not inner["u"]:
                fields.append(fld(nm(), inner))
    return agg(union, pack, fields, inline)


# ------------------------------------------------------------------------------------------ initializers

def flat_nodes(node, ignored=False):
    """flattened named fields of an aggregate as cffi lists them: [(name, field dict, ignored in ctor)]"""
    out = []
    for i, f in enumerate(node["fields"]):
        ign = ignored or (node["u"] and i > 0)
        if f["name"]:
            out.append((f["name"], f, ign))
        elif f["t"]["k"] == "agg":
            out += flat_nodes(f["t"], ign)
    return out


def int_range(cname, bits=-1):
    kind, s = PRIMS[cname]
    if bits >= 0:
        if kind == 0:
            return -(1 << (bits - 1)), (1 if bits == 1 else (1 << (bits - 1)) - 1)
        return 0, (1 << bits) - 1
    if kind == 0:
        return -(1 << (8 * s - 1)), (1 << (8 * s - 1)) - 1
    if kind == 2:
        return 0, 1
    return 0, (1 << (8 * s)) - 1


WRONG = [dict(n=1), dict(l=[]), dict(b="4142"), dict(d=[]), dict(cd="", same=False, T="")]


def gen_prim(rng, cname, errp, bits=-1):
    kind, s = PRIMS[cname]
    if rng.random() < errp:
        if kind in (0, 1, 2) and rng.random() < 0.6:
            lo, hi = int_range(cname, bits)
            return dict(i=rng.choice([lo - 1, hi + 1, hi + 2, lo - 5, 1 << 64, -(1 << 63) - 1]))
        return dict(rng.choice(WRONG if kind != 4 else WRONG[:2] + WRONG[3:]))
    if kind in (0, 1, 2):
        lo, hi = int_range(cname, bits)
        return dict(i=rng.choice([lo, hi, 0, 1 if hi >= 1 else 0, rng.randint(lo, hi), rng.randint(lo, hi)]))
    if kind == 3:
        return dict(f=rng.choice([0.0, 1.5, -2.25, 1024.0, rng.randint(-4096, 4096) / 8.0]))
    if kind == 4:
        if s == 1:
            return dict(b="%02x" % rng.randint(1, 255))
        pool = [65, 0x3b1, 0x4e2d, 1, 0xD800, 0xDFFF, 0xFFFF] + ([0x10000, 0x1F600, 0x10FFFF] if s == 4 else [])
        if s == 2 and rng.random() < errp:
            return dict(s=[rng.choice([0x10000, 0x1F600])])       # does not fit a single char16_t
        return dict(s=[rng.choice(pool)])
    return dict(p=rng.choice([0, 0, 0x1234, 0x7fff12345678]))


NODES = []      # struct/union nodes of the type being initialised, in c01.agg_nodes order (for "@k" references)


def gen_init(rng, t, errp, depth=0):
    """a Python initializer (JSON form) for a value of tree type t"""
    if t["k"] == "prim":
        return gen_prim(rng, t["c"], errp)
    if t["k"] == "arr":
        return gen_array_init(rng, t["item"], t["n"], errp, depth)
    # struct / union
    flat = flat_nodes(t)
    r = rng.random()
    if r < errp:
        return dict(rng.choice([dict(i=3), dict(n=1), dict(b="00"), dict(cd="", same=False, T=""), dict(f=1.0)]))
    if r < 0.08 and not c01.has_flex(t) and not t["inline"]:
        size_hint = 64
        return dict(cd="".join("%02x" % rng.randint(0, 255) for _ in range(size_hint)), same=True,
                    T="@%d" % [id(n) for n in NODES].index(id(t)), fit=True)
    if r < 0.6:
        elig = [(n, f) for n, f, ign in flat if not ign]
        k = rng.randint(0, len(elig))
        if rng.random() < errp:
            k = len(elig) + 1
        items = []
        for j in range(k):
            if j < len(elig):
                items.append(gen_field_init(rng, elig[j][1], errp, depth))
            else:
                items.append(dict(i=0))
        return dict(l=items, tuple=rng.random() < 0.3)
    names = [(n, f) for n, f, ign in flat]
    rng.shuffle(names)
    names = names[:rng.randint(0, len(names))]
    d = [[n, gen_field_init(rng, f, errp, depth)] for n, f in names]
    if rng.random() < errp:
        d.insert(rng.randint(0, len(d)), ["nosuchfield", dict(i=0)])
    return dict(d=d)


def gen_field_init(rng, f, errp, depth):
    if f["bits"] >= 0:
        return gen_prim(rng, f["t"]["c"], errp, f["bits"])
    return gen_init(rng, f["t"], errp, depth + 1)


def gen_array_init(rng, item, n, errp, depth):
    flex = n < 0
    cap = rng.choice([0, 1, 2, 3, 5, 9]) if flex else n
    r = rng.random()
    if item["k"] == "prim" and PRIMS[item["c"]][1] == 1 and PRIMS[item["c"]][0] in (0, 1, 2, 4) and r < 0.45:
        k = rng.choice([cap, max(cap - 1, 0), rng.randint(0, cap)]) if rng.random() >= errp or flex else cap + 1
        hi = 1 if item["c"] == "_Bool" and rng.random() >= errp else 255
        return dict(b="".join("%02x" % rng.randint(0 if hi == 1 else 1, hi) for _ in range(k)))
    if item["k"] == "prim" and PRIMS[item["c"]][0] == 4 and PRIMS[item["c"]][1] > 1 and r < 0.55:
        # str initializer: BMP, astral (two char16_t units each) and lone surrogates; k counts UNITS
        units = 2 if PRIMS[item["c"]][1] == 2 else 1
        k = rng.choice([cap, max(cap - 1, 0), rng.randint(0, cap)]) if rng.random() >= errp or flex else cap + 1
        cps, used = [], 0
        while used < k:
            c = rng.choice([65, 66, 0x3b1, 0x4e2d, 0xD800, 0xDC00, 0x10000, 0x1F600, 0x10FFFF, 0x1F600])
            w = units if c > 0xFFFF else 1
            if used + w > k:
                c, w = 66, 1
            cps.append(c)
            used += w
        return dict(s=cps)
    if flex and r < 0.6:
        if rng.random() < errp:
            return dict(i=rng.choice([-1, -5, 1 << 63, 1 << 62]))
        return dict(i=cap)
    if not flex and r < 0.52 and item["k"] == "prim":
        s = PRIMS[item["c"]][1]
        return dict(cd="".join("%02x" % rng.randint(0, 255) for _ in range(n * s)), same=True,
                    T="%s[%d]" % (item["c"], n), alen=n)
    if rng.random() < errp / 2:
        return dict(rng.choice([dict(i=3), dict(n=1), dict(f=2.0)])) if not flex else dict(rng.choice([dict(n=1), dict(f=2.0)]))
    k = rng.randint(0, cap)
    if rng.random() < errp and not flex:
        k = cap + 1
    return dict(l=[gen_init(rng, item, errp, depth + 1) for _ in range(k)], tuple=rng.random() < 0.2)


# ------------------------------------------------------------------------------------------ cases

def generate(ctx):
    rng = ctx.rng
    cases = []
    n = ctx.n(260, 8000)
    for i in range(n):
        nm = c01.Namer()
        errp = rng.choice([0.0, 0.0, 0.0, 0.04, 0.15])
        r = rng.random()
        if r < 0.75:
            top = rand_agg(rng, nm, 1, rng.choice([0, 0, 0, 0, 1, 2]))
            NODES[:] = c01.agg_nodes(top)
            cases.append(dict(form="ptr", top=top, init=gen_init(rng, top, errp)))
        elif r < 0.9:
            item = rand_prim(rng) if rng.random() < 0.6 else rand_agg(rng, nm, 2, 0, flex_ok=False)
            ln = rng.choice([-1, -1, 1, 2, 3, 5])
            NODES[:] = c01.agg_nodes(item)
            cases.append(dict(form="arr", top=item, len=ln, init=gen_array_init(rng, item, ln, errp, 0)))
        else:
            p = rand_prim(rng)
            cases.append(dict(form="ptr", top=p, init=gen_prim(rng, p["c"], errp)))
    cases += directed_cases(rng)
    return cases


def directed_cases(rng):
    out = []
    V = lambda nm: agg(False, 0, [fld(nm(), prim("int")), fld(nm(), arr(prim("int"), -1))])
    # flexible array: items / length / bytes, nested var-sized struct, union member, huge lengths (overflow test)
    for init in ([dict(i=7), dict(l=[dict(i=1), dict(i=2), dict(i=3)])], [dict(i=7), dict(i=5)], [dict(i=7), dict(i=0)],
                 [dict(i=7)], [], [dict(i=7), dict(l=[])], [dict(i=7), dict(i=-1)], [dict(i=7), dict(i=(1 << 63) - 1)],
                 [dict(i=7), dict(i=1 << 61)], [dict(i=7), dict(i=(1 << 61) - 2)], [dict(i=7), dict(i=1 << 64)]):
        nm = c01.Namer()
        out.append(dict(form="ptr", top=V(nm), init=dict(l=init)))
    nm = c01.Namer()
    C = agg(False, 0, [fld(nm(), prim("char")), fld(nm(), arr(prim("char"), -1))])
    out.append(dict(form="ptr", top=C, init=dict(l=[dict(b="78"), dict(b="616263")])))
    nm = c01.Namer()
    X = agg(False, 0, [fld(nm(), prim("int")), fld(nm(), V(nm))])
    out.append(dict(form="ptr", top=X, init=dict(l=[dict(i=5), dict(l=[dict(i=1), dict(l=[dict(i=k) for k in range(9)])])])))
    nm = c01.Namer()
    X = agg(False, 0, [fld(nm(), prim("int")), fld(nm(), V(nm))])
    out.append(dict(form="ptr", top=X, init=dict(d=[["f2", dict(d=[["f4", dict(i=3)]])]])))
    # flexible character arrays of every character type, str/bytes initializers with astral characters and lone
    # surrogates, positional / by name / nested in a var-sized member
    for ct in ("char", "wchar_t", "char16_t", "char32_t"):
        for txt in ([97], [0x1F600], [97, 0x1F600, 0x10000, 98], [0xD800], [0xDC00, 0xD800], [0x10FFFF] * 3, []):
            nm = c01.Namer()
            S = agg(False, 0, [fld(nm(), prim("int")), fld(nm(), arr(prim(ct), -1))])
            v = dict(b="".join("%02x" % (c % 255 + 1) for c in txt)) if ct == "char" else dict(s=txt)
            out.append(dict(form="ptr", top=S, init=dict(l=[dict(i=1), v])))
            nm = c01.Namer()
            S = agg(False, 0, [fld(nm(), prim("int")), fld(nm(), arr(prim(ct), -1))])
            out.append(dict(form="ptr", top=S, init=dict(d=[["f2", v]])))
            nm = c01.Namer()
            inner = agg(False, 0, [fld(nm(), prim("short")), fld(nm(), arr(prim(ct), -1))])
            X = agg(False, 0, [fld(nm(), prim("long")), fld(nm(), inner)])
            out.append(dict(form="ptr", top=X, init=dict(l=[dict(i=2), dict(d=[["f2", v]])])))
        out.append(dict(form="arr", top=prim(ct), len=-1,
                        init=dict(b="414243") if ct == "char" else dict(s=[0x1F600, 65, 0x10000])))
        out.append(dict(form="arr", top=prim(ct), len=4,
                        init=dict(b="41424344") if ct == "char" else dict(s=[0x1F600, 65, 66])))
    # sequence initializers skip the non-first members of (anonymous) unions
    for k in (1, 2, 3, 4):
        nm = c01.Namer()
        U = agg(True, 0, [fld(nm(), prim("int")), fld(nm(), prim("char")), fld(nm(), prim("short"))], inline=True)
        S = agg(False, 0, [fld(nm(), prim("int")), fld("", U), fld(nm(), prim("short")), fld(nm(), prim("long"))])
        out.append(dict(form="ptr", top=S, init=dict(l=[dict(i=j + 1) for j in range(k)])))
    nm = c01.Namer()
    U = agg(True, 0, [fld(nm(), prim("short")), fld(nm(), prim("long")), fld(nm(), arr(prim("char"), 3))])
    out.append(dict(form="ptr", top=U, init=dict(l=[dict(i=-2)])))
    for c in out:
        c["stream"] = "directed"
    return out


def finding_cases():
    """arrays whose items are var-sized structs: the sizing pass does not look inside arrays (known finding).
    Only ever executed under ASan, in their own process."""
    out = []
    nm = c01.Namer()
    V = agg(False, 0, [fld(nm(), prim("int")), fld(nm(), arr(prim("int"), -1))])
    big = dict(l=[dict(i=1), dict(l=[dict(i=k) for k in range(40)])])
    out.append(dict(form="arr", top=V, len=1, init=dict(l=[big]), stream="finding"))
    nm = c01.Namer()
    V = agg(False, 0, [fld(nm(), prim("int")), fld(nm(), arr(prim("int"), -1))])
    W = agg(False, 0, [fld(nm(), arr(V, 2))])
    out.append(dict(form="ptr", top=W, init=dict(l=[dict(l=[big, big])]), stream="finding"))
    return out


# ------------------------------------------------------------------------------------------ wire

def le_int(hexbytes):
    return int.from_bytes(bytes.fromhex(hexbytes), "little")


class Layout:
    def __init__(self, case, facts):
        self.facts = facts        # tag -> dict(size, fields)

    def ltype(self, t):
        if t["k"] == "prim":
            k, s = PRIMS[t["c"]]
            return "(WLPrim %d %d)" % (k, s)
        if t["k"] == "arr":
            return "(WLArr %s (%d))" % (self.ltype(t["item"]), t["n"])
        f = self.facts[t["tag"]]
        flat = flat_nodes(t)
        fs = "WFNil"
        for (name, fd, ign), row in reversed(list(zip(flat, f["fields"]))):
            assert row[0] == name, (row, name)
            fs = "(WFCons %s (%d) (%d) (%d) (%d) %s)" % (self.ltype(fd["t"]), row[1], row[2], row[3], row[4], fs)
        return "(WLAgg %d %s %s)" % (f["size"], "true" if c01.has_flex(t) else "false", fs)

    def size(self, t):
        if t["k"] == "prim":
            return PRIMS[t["c"]][1]
        if t["k"] == "arr":
            return -1 if t["n"] < 0 else t["n"] * self.size(t["item"])
        return self.facts[t["tag"]]["size"]

    def wval(self, v, t, bitfield=False):
        if "i" in v:
            return "(WInt (%d))" % v["i"]
        if "f" in v:
            return "(WFloat %d %d)" % (int.from_bytes(struct.pack("<f", v["f"]), "little"),
                                        int.from_bytes(struct.pack("<d", v["f"]), "little"))
        if "b" in v:
            return "(WBytes %d 0x%x)" % (len(v["b"]) // 2, le_int(v["b"]) if v["b"] else 0)
        if "s" in v:
            z = "ZNil"
            for c in reversed(v["s"]):
                z = "(ZCons %d %s)" % (c, z)
            return "(WStr %s)" % z
        if "l" in v:
            # positional: element types are determined by t
            if t["k"] == "arr":
                ts = [(t["item"], False)] * len(v["l"])
            elif t["k"] == "agg":
                elig = [(f["t"], f["bits"] >= 0) for n, f, ign in flat_nodes(t) if not ign]
                ts = elig + [(prim("int"), False)] * len(v["l"])
            else:
                ts = [(prim("int"), False)] * len(v["l"])
            l = "WVNil"
            for x, (tt, bf) in reversed(list(zip(v["l"], ts))):
                l = "(WVCons %s %s)" % (self.wval(x, tt, bf), l)
            return "(WList %s)" % l
        if "d" in v:
            names = [n for n, f, ign in flat_nodes(t)] if t["k"] == "agg" else []
            fl = {n: f for n, f, ign in flat_nodes(t)} if t["k"] == "agg" else {}
            kv = "WKNil"
            for k, x in reversed(v["d"]):
                idx = names.index(k) if k in names else -1
                tt = fl[k]["t"] if k in fl else prim("int")
                kv = "(WKCons (%d) %s %s)" % (idx, self.wval(x, tt), kv)
            return "(WDict %s)" % kv
        if "cd" in v:
            return "(WCData %s %d 0x%x %d)" % ("true" if v["same"] else "false", len(v["cd"]) // 2, le_int(v["cd"]) if v["cd"] else 0,
                                              v.get("alen", 0))
        if "p" in v:
            return "(WPtr %d)" % v["p"]
        return "WNone"


def fit_cdata(v, t, lay):
    """cdata initializers were generated before the layout was known: cut/pad their bytes to sizeof"""
    if "cd" in v and v.get("fit"):
        n = lay.size(t)
        v["cd"] = (v["cd"] + "00" * n)[:2 * n]
    elif "l" in v:
        if t["k"] == "arr":
            for x in v["l"]:
                fit_cdata(x, t["item"], lay)
        elif t["k"] == "agg":
            elig = [f for n, f, ign in flat_nodes(t) if not ign]
            for x, f in zip(v["l"], elig):
                fit_cdata(x, f["t"], lay)
    elif "d" in v and t["k"] == "agg":
        fl = {n: f for n, f, ign in flat_nodes(t)}
        for k, x in v["d"]:
            if k in fl:
                fit_cdata(x, fl[k]["t"], lay)


def wout(r):
    if r is None:
        return "(WErr 0)"
    if "error" in r:
        return "(WErr %d)" % ERR_CODE.get(r["error"], 99)
    return "(WOk %d 0x%x)" % (len(r["bytes"]) // 2, le_int(r["bytes"]) if r["bytes"] else 0)


# ------------------------------------------------------------------------------------------ evaluation

def prepare(case, idx):
    """-> worker payload entry"""
    top = case["top"]
    nodes = c01.assign_tags(case, "k%d" % idx) if top["k"] == "agg" else []
    decls = [dict(src="%s %s %s;" % (c01.kw(n), n["tag"], c01.body(n)), pack=n["pack"]) for n in nodes]
    tags = [(n["tag"], "%s %s" % (c01.kw(n), n["tag"])) for n in nodes]
    tstr = c01.type_string(top)
    case = dict(case, init=resolve_refs(case["init"], nodes))
    if case["form"] == "ptr":
        newT = tstr + " *"
        var = top["k"] == "agg" and c01.has_flex(top)
        assign = dict(form="cast", T=newT, size=None) if var else dict(form="literal", T=newT)
        flexlen = None
        if var and top["fields"][-1]["t"]["k"] == "arr" and top["fields"][-1]["t"]["n"] < 0:
            flexlen = top["fields"][-1]["name"]
        named = None
        if top["k"] == "agg" and "l" in case["init"]:
            elig = [n for n, f, ign in flat_nodes(top) if not ign]
            if len(case["init"]["l"]) <= len(elig):
                named = dict(d=[[n, x] for n, x in zip(elig, case["init"]["l"])])
        if "n" in case["init"]:
            assign = None            # ffi.new(T, None) means "no initializer"; p[0] = None is not an assignment of it
        return dict(decls=decls, tags=tags, init=case["init"], newT=newT, isptr=True, assign=assign, flexlen=flexlen,
                    named_init=named)
    ln = case["len"]
    newT = "%s[%s]" % (tstr, "" if ln < 0 else ln)
    assign = None if ln < 0 or "n" in case["init"] else dict(form="literal", T="%s(*)[%d]" % (tstr, ln))
    return dict(decls=decls, tags=tags, init=case["init"], newT=newT, isptr=False, assign=assign)


def resolve_refs(v, nodes):
    if "cd" in v and v.get("T", "").startswith("@"):
        n = nodes[int(v["T"][1:])]
        return dict(v, T="%s %s" % (c01.kw(n), n["tag"]))
    if "l" in v:
        return dict(v, l=[resolve_refs(x, nodes) for x in v["l"]])
    if "d" in v:
        return dict(v, d=[[k, resolve_refs(x, nodes)] for k, x in v["d"]])
    return v


def needs_layout_fit(v):
    if isinstance(v, dict):
        if v.get("fit"):
            return True
        return any(needs_layout_fit(x) for x in v.get("l", [])) or any(needs_layout_fit(x) for _, x in v.get("d", []))
    return False


def evaluate(ctx, cases, asan=False):
    s = ctx.scratch(asan=asan)
    # pass 0 (only for cases with struct cdata initializers): sizes are needed to build the cdata
    entries = [prepare(c, i) for i, c in enumerate(cases)]
    pre = [i for i, c in enumerate(cases) if needs_layout_fit(c["init"])]
    if pre:
        out, p = s.run_worker("c20_worker.py", dict(cases=[dict(entries[i], init=dict(n=1), assign=None) for i in pre]),
                              timeout=1800)
        if out is None:
            ctx.violation(cases[pre[0]], "cffi worker crashed while reading layouts: " + (p.stderr or p.stdout)[-1500:])
            return
        for i, r in zip(pre, out["results"]):
            if "layout" in r:
                fit_cdata(cases[i]["init"], cases[i]["top"] if cases[i]["form"] == "ptr" else
                          arr(cases[i]["top"], cases[i]["len"]), Layout(cases[i], r["layout"]))
                entries[i] = prepare(cases[i], i)
    out, p = s.run_worker("c20_worker.py", dict(cases=entries, progress=asan), timeout=3000)
    if out is None:
        done = len(re.findall(r"^done \d+", p.stderr, re.M))
        culprit = cases[min(done, len(cases) - 1)]
        san = "AddressSanitizer" in p.stderr or "runtime error" in p.stderr
        ctx.violation(strip_case(culprit), "ffi.new / assignment crashed the interpreter (rc=%s)%s: %s" % (
            p.returncode, " under ASan" if san else "", sanitizer_summary(p.stderr)), key=finding_key(culprit))
        # the rest of the batch is re-run without the culprit
        rest = cases[:done] + cases[done + 1:]
        if rest and len(rest) < len(cases):
            evaluate(ctx, rest, asan)
        return
    coq_cases, owner = [], []
    for c, e, r in zip(cases, entries, out["results"]):
        ctx.count()
        if "harness_error" in r:
            ctx.violation(strip_case(c), "declaration rejected or harness error: " + r["harness_error"])
            continue
        lay = Layout(c, r["layout"])
        top = c["top"]
        target = top if c["form"] == "ptr" else arr(top, c["len"])
        new, asg = r["new"], r["assign"]
        classify(ctx, c, new)
        # ---- the property predicate on the implementation
        problems = []
        if "bytes" in new:
            nbytes = len(new["bytes"]) // 2
            if new["sizeof"] != nbytes:
                problems.append("ffi.sizeof = %d but the block has %d bytes" % (new["sizeof"], nbytes))
            if asg and "bytes" in asg and asg["bytes"] != new["bytes"]:
                problems.append("ffi.new(T, init) gives %s, ffi.new(T) then [0] = init gives %s" % (new["bytes"], asg["bytes"]))
            if asg and "error" in asg:
                problems.append("ffi.new(T, init) succeeds, assignment of the same initializer raises " + asg["error"])
            nm_ = r.get("named")
            if nm_ is not None and nm_.get("bytes") != new["bytes"]:
                problems.append("positional initializer gives %s, the same values given by field name (leading fields in "
                                "order; first member of a union) give %s" % (new["bytes"], nm_.get("bytes") or nm_.get("error")))
            want = flex_request(c)
            if want is not None and new.get("flexlen") is not None and new["flexlen"] < want:
                problems.append("flexible array initialised with %d items reads back with only %d" % (want, new["flexlen"]))
            if not has_content(c["init"]) and set(new["bytes"]) - {"0"}:
                problems.append("no value written, memory not zero: " + new["bytes"])
        elif r.get("named") is not None and "bytes" in r["named"]:
            problems.append("positional initializer raises %s, the same values given by field name (leading fields in "
                            "order; first member of a union) are accepted" % new["error"])
        elif asg and "bytes" in asg and e["assign"]["form"] == "literal":
            problems.append("ffi.new(T, init) raises %s, ffi.new(T) then [0] = init succeeds" % new["error"])
        elif asg and "error" in asg and e["assign"]["form"] == "literal" and asg["error"] != new["error"]:
            problems.append("ffi.new(T, init) raises %s, assignment raises %s" % (new["error"], asg["error"]))
        for what in problems[:2]:
            ctx.violation(strip_case(c), "%s ; init %r: %s" % (e["newT"], c["init"], what), key=finding_key(c))
        # ---- model
        if c["form"] == "ptr":
            head = "true %s 0" % lay.ltype(top)
        else:
            head = "false %s (%d)" % (lay.ltype(top), c["len"])
        if e["assign"] is None or (e["assign"]["form"] == "cast" and "bytes" not in new):
            do_assign, asize = False, 0
        else:
            do_assign = True
            if e["assign"]["form"] == "cast":
                asize = len(new["bytes"]) // 2
            else:
                asize = lay.size(target)
        coq_cases.append("(C20Cons %s %s %d %s %s %s" % (head, lay.wval(c["init"], target), asize,
                                                         "true" if do_assign else "false", wout(new), wout(asg if do_assign else None)))
        owner.append((c, e, new, asg))
        if len(ctx.cov["samples"]) < 4 and "bytes" in new and len(new["bytes"]) > 16:
            ctx.sample(dict(T=e["newT"], decls=[d["src"] for d in e["decls"]], init=c["init"], new=new, assign=asg))
    bad, detail, err = coq_run(coq_cases)
    if err:
        ctx.obligation_broken("C20 model evaluation", err)
    for i in bad:
        c, e, new, asg = owner[i]
        ctx.mismatch(strip_case(c), "%s init %r: real new=%r assign=%r ; model (new, assign, wf_type, no_var_items) = %s" % (
            e["newT"], c["init"], new, asg, detail.get(i)),
            "C20.Model.new_bytes/assign_bytes vs _cffi_backend.c direct_newp/convert_from_object")


def sanitizer_summary(stderr):
    stderr = re.sub(r"^done \d+\n", "", stderr, flags=re.M)
    m = re.search(r"(ERROR: AddressSanitizer[^\n]*)", stderr)
    s = m.group(1) if m else stderr[-300:]
    m = re.search(r"(#\d+ 0x[0-9a-f]+ in (?:convert_|direct_newp|b_newp)[^\n]*)", stderr)
    return s + (" | " + m.group(1).strip() if m else "")


def flex_request(c):
    """number of items requested for the top-level flexible array by a positional initializer, if evident"""
    top = c["top"]
    if c["form"] != "ptr" or top["k"] != "agg" or "l" not in c["init"]:
        return None
    elig = [f for n, f, ign in flat_nodes(top) if not ign]
    items = c["init"]["l"]
    if not elig or len(items) != len(elig):
        return None
    last, v = elig[-1], items[-1]
    if not (last["t"]["k"] == "arr" and last["t"]["n"] < 0 and last is top["fields"][-1]):
        return None
    if "i" in v:
        return v["i"]
    if "l" in v:
        return len(v["l"])
    if "b" in v:
        return len(v["b"]) // 2 + 1
    if "s" in v:
        two = last["t"]["item"]["k"] == "prim" and PRIMS[last["t"]["item"]["c"]][1] == 2
        return sum(2 if (two and c > 0xFFFF) else 1 for c in v["s"]) + 1
    return None


def has_content(v):
    """does the initializer contain any leaf value that is written? (lengths of flexible arrays are not)"""
    if "l" in v:
        return any(has_content(x) for x in v["l"])
    if "d" in v:
        return any(has_content(x) for _, x in v["d"])
    return True      # conservative: any leaf may write something


def has_var_item_array(t):
    if t["k"] == "arr":
        it = t
        while it["k"] == "arr":
            it = it["item"]
        return (it["k"] == "agg" and c01.has_flex(it)) or has_var_item_array(it)
    if t["k"] == "agg":
        return any(has_var_item_array(f["t"]) for f in t["fields"])
    return False


def finding_key(c):
    t = c["top"] if c["form"] == "ptr" else arr(c["top"], c["len"])
    if has_var_item_array(t):
        return "array_of_varsize_struct"
    return None


def strip_case(c):
    d = dict(form=c["form"], top=c01.strip(c["top"]), init=c["init"], stream=c.get("stream", "random"))
    if "len" in c:
        d["len"] = c["len"]
    return d


def classify(ctx, c, new):
    top = c["top"]
    kinds = set()

    def walk(v):
        for k in ("l", "d", "cd", "b", "s", "i", "f", "p", "n"):
            if k in v:
                kinds.add({"l": "list", "d": "dict", "cd": "cdata", "b": "bytes", "s": "str", "i": "int", "f": "float",
                           "p": "pointer", "n": "none"}[k])
        for x in v.get("l", []):
            walk(x)
        for _, x in v.get("d", []):
            walk(x)
    walk(c["init"])
    if v_tuple(c["init"]):
        kinds.add("tuple")
    for k in kinds:
        ctx.hist("init_kind", k)
    ctx.hist("form", c["form"] + ("-flex" if (c["form"] == "arr" and c["len"] < 0) else ""))
    var = top["k"] == "agg" and c01.has_flex(top)
    ctx.hist("var_sized", var)
    ctx.hist("outcome", new.get("error", "ok"))
    if "bytes" in new:
        ctx.hist("block_bytes", min(len(new["bytes"]) // 2 // 16 * 16, 256))
    if ("bytes" in new and (kinds & {"list", "dict", "cdata", "bytes", "str"})) or var:
        ctx.nontrivial(("case", strip_case(c)))


def v_tuple(v):
    return bool(v.get("tuple")) or any(v_tuple(x) for x in v.get("l", [])) or any(v_tuple(x) for _, x in v.get("d", []))


def coq_run(coq_cases, shard=1500, timeout=900):
    if not coq_cases:
        return [], {}, None
    d = vlib.mkscratch("coq")
    header = ("From Coq Require Import ZArith List.\nImport ListNotations.\n"
              "From Cffi Require Import C20.Model.\nOpen Scope Z_scope.\n")
    bad, detail, err = [], {}, None
    try:
        paths = []
        for k, j in enumerate(range(0, len(coq_cases), shard)):
            chunk = coq_cases[j:j + shard]
            body = "\n ".join(chunk) + "\n C20Nil" + ")" * len(chunk)
            path = os.path.join(d, "w%d.v" % k)
            with open(path, "w") as f:
                f.write(header + "Definition cs := %s.\nEval vm_compute in c20_mismatches %d cs.\n" % (body, j))
            paths.append(path)

        def run1(path):
            return subprocess.run(["timeout", str(timeout), "coqc"] + vlib.COQ_FLAGS + ["-Q", d, "Scratch", path],
                                  stdout=subprocess.PIPE, stderr=subprocess.STDOUT, text=True, cwd=d)
        from concurrent.futures import ThreadPoolExecutor
        with ThreadPoolExecutor(4) as ex:
            results = list(ex.map(run1, paths))
        for p in results:
            m = re.search(r"=\s*\[(.*?)\]\s*:\s*list Z", p.stdout, re.S)
            if p.returncode != 0 or not m:
                err = err or "coqc failed on a shard: " + p.stdout[-1500:]
                continue
            bad += [int(x) for x in m.group(1).replace("\n", " ").split(";") if x.strip()]
        if bad and not err:
            sel = sorted(bad)[:12]
            body = header
            for i in sel:
                parts = split_args(coq_cases[i][len("(C20Cons "):])
                body += "Eval vm_compute in c20_detail %s.\n" % " ".join(parts[:5])
            ok, out = vlib.coq_eval([], body, timeout=timeout, workdir=d, name="detail")
            for i, c in zip(sel, re.split(r"^\s*= ", out, flags=re.M)[1:]):
                detail[i] = " ".join(c.split())[:1500]
    finally:
        import shutil
        shutil.rmtree(d, ignore_errors=True)
        if d in vlib._scratch_dirs:
            vlib._scratch_dirs.remove(d)
    return sorted(bad), detail, err


def split_args(s):
    """split a Coq application text into its top-level arguments"""
    out, depth, cur = [], 0, ""
    for ch in s:
        if ch == "(":
            depth += 1
        elif ch == ")":
            depth -= 1
        if ch == " " and depth == 0:
            if cur:
                out.append(cur)
            cur = ""
        else:
            cur += ch
    if cur:
        out.append(cur)
    return out


# ------------------------------------------------------------------------------------------ API mode (lazy field lists)

# each probe runs in a fresh process in which it is the first operation touching the struct type
API_PROBES = [
    "p = ffi.new('struct V[2]', [[1, [7, 8]], [2]])",
    "p = ffi.new('struct V[1]', [[1, [7, 8, 9, 10, 11, 12, 13, 14]]])",
    "p = ffi.new('struct V[2]', [[1], [2]])",
    "p = ffi.new('struct V[2]', [[1, 0], {'n': 2}])",
    "p = ffi.new('struct V[3]', ([1, []], (2,), {'a': 0}))",
    "p = ffi.new('struct X[2]', [[1, [2, [3, 4]]], [5]])",
    "p = ffi.new('struct X[2]', [[1, [2]], [5]])",
    "p = ffi.new('struct W *', [[[1, [7, 8]], [2]], 9])",
    "p = ffi.new('struct W *', [[[1], [2]], 9])",
    "p = ffi.new('struct C[2]', [[b'x', b'abc'], [b'y']])",
    "p = ffi.new('struct V(*)[2]'); p[0] = [[1, [7, 8]], [2]]",
    "p = ffi.new('struct V(*)[2]'); p[0] = [[1], [2]]",
    "p = ffi.new('struct V *', [1, [7, 8]])",
    "p = ffi.new('struct X *', [1, [2, [3, 4]]])",
]


def api_mode(ctx):
    """ffi.new behaves the same whether the struct's field list was loaded lazily (compiled API module) or eagerly
    (in-line FFI): same bytes or same exception class; refused initializers are refused in both."""
    s = ctx.scratch()
    out, p = s.run_worker("c20_api_worker.py", dict(mode="build"), timeout=600)
    if out is None:
        ctx.obligation_broken("C20 API-mode module does not build", (p.stderr or p.stdout)[-2000:])
        return
    from concurrent.futures import ThreadPoolExecutor

    def probe(args):
        code, flavour = args
        return s.run_worker("c20_api_worker.py", dict(mode="probe", flavour=flavour, code=code), timeout=300)
    jobs = [(c, f) for c in API_PROBES for f in ("api", "inline")]
    with ThreadPoolExecutor(6) as ex:
        res = list(ex.map(probe, jobs))
    for i, code in enumerate(API_PROBES):
        (ra, pa), (ri, pi) = res[2 * i], res[2 * i + 1]
        ctx.count()
        ctx.hist("api_probe", "crash" if ra is None else ra.get("error", "ok"))
        case = dict(kind="api_probe", code=code)
        if ri is None:
            ctx.violation(case, "in-line FFI probe crashed: %s (rc=%s)" % (code, pi.returncode))
        elif ra is None:
            ctx.violation(case, "%s as the first operation on a lazily-loaded struct (API-mode module) crashed the "
                                "interpreter (rc=%s: %s); the in-line FFI gives %r" % (
                                    code, pa.returncode, sanitizer_summary(pa.stderr)[:200], ri))
        elif ra != ri:
            ctx.violation(case, "%s as the first operation on a lazily-loaded struct (API-mode module) gives %r; "
                                "with eagerly loaded fields (in-line FFI) it gives %r" % (code, ra, ri))
        else:
            ctx.nontrivial(("api", code))


def replay(ctx, body):
    if body["case"].get("kind") == "api_probe":
        global API_PROBES
        API_PROBES = [body["case"]["code"]]
        api_mode(ctx)
    else:
        evaluate(ctx, [body["case"]])


# ------------------------------------------------------------------------------------------ regenerated order fact

GEN = "C20/Gen.v"
GEN_TEXT = """(* C20 — REGENERATED on every run by tools/props/c20.py regen() from /repo/src/c/_cffi_backend.c
   (convert_array_from_object, comments stripped; fail closed -> this committed snapshot).
   Order fact extracted: in the function's text the call force_lazy_struct(ctitem) comes BEFORE
   the first read of ct_flags_mut (CT_WITH_VAR_ARRAY is only set once a struct's field list has
   been loaded; API-mode modules load field lists lazily).
     true  = the item struct is forced before its CT_WITH_VAR_ARRAY flag is read;
     false = the flag may be read while the fields are still lazy, i.e. as 0. *)
Definition forced_before_flag_read : bool := %s.
"""


def order_fact():
    src = open(os.path.join(vlib.REPO, "src/c/_cffi_backend.c")).read()
    m = re.search(r"\nconvert_array_from_object\(char \*data[^)]*\)\s*\{(.*?)\n\}\n", src, re.S)
    if not m:
        raise ValueError("convert_array_from_object not found")
    body = re.sub(r"/\*.*?\*/", " ", m.group(1), flags=re.S)
    reads = [x.start() for x in re.finditer(r"ct_flags_mut", body)]
    forces = [x.start() for x in re.finditer(r"force_lazy_struct\s*\(\s*ctitem\s*\)", body)]
    if not reads:
        raise ValueError("no read of ct_flags_mut in convert_array_from_object (guard removed?)")
    if not forces:
        return False
    return forces[0] < reads[0]


def regen(ctx):
    path = os.path.join(vlib.COQ, GEN)
    old = open(path).read() if os.path.exists(path) else None
    try:
        text = GEN_TEXT % ("true" if order_fact() else "false")
    except Exception as e:
        ctx.translator(GEN, "fallback: %s" % e)
        return
    if text != old:
        with vlib.CoqLock():
            with open(path, "w") as f:
                f.write(text)
        ctx.translator(GEN, "regenerated")
    else:
        ctx.translator(GEN, "unchanged")


def run(ctx):
    ctx.cov["rule"] = ("one evaluation = one (type, initializer) pair run through ffi.new(T, init), through the assignment "
                       "form (ffi.new(T); p[0] = init, or a zero block of the same size for var-sized structs, or a "
                       "pointer-to-array for arrays) and through the Coq model. Types: C01 generator restricted to "
                       "initialisable primitive kinds (structs/unions, bit-fields < 64 bits, arrays, nested/anonymous "
                       "aggregates, packing, trailing flexible arrays, var-sized structs as last member). Initializers: "
                       "nested lists/tuples (prefixes), dicts (subsets, any order), bytes/str for char arrays, same-type "
                       "cdata structs/arrays, lengths for flexible arrays, boundary integers; 0-15% injected errors (too "
                       "many items, unknown key, overflow, wrong type, negative/huge length). Non-trivial = succeeded "
                       "with a structured initializer, or a var-sized target; distinct by (type, initializer).")
    ctx.assumptions += [
        "hand-written model C20/Model.v of direct_newp / convert_from_object / convert_struct_from_object (both passes); "
        "tied to the C code by this run's differential test (bytes, sizes, exception classes)",
        "layouts (sizes, offsets, bit shifts) are read from the real typeof(T).fields; wf_type is evaluated on each "
        "(C01 owns their correctness)",
        "leaf stores are the shared models, not private copies: integers/_Bool = C03.Store.convert_from_object_int, "
        "bit-fields = C02.Model.bf_write, bytes/str into character arrays and single wide chars = C15.Model.convert_array / "
        "new_array_length / C15.Gen.as_single_char16,32 (C15/Gen.v regenerated by ./check C15, read as it is on disk here); "
        "their UB / impossible-exception outcomes are mapped to SegV; float encodings supplied by struct.pack (C05 owns "
        "them); long double / complex / enum initializers not generated",
        "Py_ssize_t wrap-around test of add_varsize_length modelled as a comparison with 2^63-1",
        "wide-char arrays: terminator written iff the units do not fill the array exactly (C15.convert_array, "
        "cffi after commit 2103790)",
        "C20/Gen.v (regenerated): in convert_array_from_object force_lazy_struct(ctitem) precedes the first read of "
        "ct_flags_mut; API-mode (lazy field lists) behaviour is compared with the in-line FFI in fresh processes"]
    cases = generate(ctx)
    evaluate(ctx, cases)
    if ctx.thorough:
        # the same cases under AddressSanitizer + UBSan, then the known-finding witnesses (one process each)
        # (packed types are left out: cffi stores pointers / floats / wide chars into packed structs with plain
        # unaligned stores, which UBSan reports as misaligned; harmless on x86-64 and not C20's subject)
        unpacked = [c for c in cases if not any(n["pack"] for n in c01.agg_nodes(c["top"]))]
        evaluate(ctx, unpacked[:ctx.n(0, 3000)], asan=True)
    # witnesses of the (fixed) finding array_of_varsize_struct, always under ASan
    evaluate(ctx, finding_cases(), asan=True)
    # out-of-line API module: lazily loaded field lists, one fresh process per probe
    api_mode(ctx)


MANIFEST = dict(
    technique="Coq proof (memory safety of ffi.new: the sizing pass dominates every write of the filling pass, by strong "
              "induction on fuel over nested initializers with a joint invariant of the two passes of "
              "convert_struct_from_object; new = zero block + assignment) + differential correspondence with the real "
              "backend (bytes, sizes, exception classes), ASan/UBSan build in thorough",
    text="Proof: for every well-formed layout (wf_type, evaluated on the real typeof(T).fields of every case) and every "
         "initializer (lists, tuples, dicts, bytes, str counted in units of the item type, cdata, lengths; valid or not), "
         "the model of ffi.new never writes outside the block sized by direct_newp / the optvarsize pass "
         "(C20_sizing_dominates, C20_need_is_enough: a joint invariant of the two passes of convert_struct_from_object, "
         "all nesting depths); converting an initializer into a member changes no byte outside that member "
         "(C20_assign_stays_inside, frame); with a keyword initializer every byte outside the named members is zero and "
         "the block has sizeof bytes (C20_unnamed_bytes_are_zero); a positional initializer IS the keyword initializer over "
         "the leading fields without BF_IGNORE_IN_CTOR, a union sequence sets its first member only and longer ones are "
         "refused (C20_positional_is_keyword, C20_positional_too_long, C20_union_sequence_first_member); array sequences "
         "fill the leading items and leave the rest zero (C20_array_sequence_leading); ffi.sizeof(p[0]) / sizeof(p) = the "
         "size the sizing pass computed = the real block size, var-sized structs included (C20_sizeof_is_alloc_size, with "
         "direct_newp's stored length and _cdata_var_byte_size modelled). Which values are written: the leaves of the "
         "filling pass are the functions C03/C02/C15 prove correct and tie to regenerated source (C20_prim_is_C03, "
         "C20_bitfield_is_C02, C20_char_array_is_C15, C20_byte_array_is_C15: identifications, by construction of the "
         "model, so the C20 correspondence run exercises those models); consequences: C20_prim_closed_form (accepted iff "
         "C03.in_range, then the little-endian bytes, else OverflowError), C20_prim_reads_back, C20_bitfield_reads_back "
         "(the field reads back as z through C02.bf_read and every other bit of the unit is kept), "
         "C20_wf_bitfield_is_placement (wf_type's bit-field clause = C02's placement), C20_char_array_units (number of "
         "units stored, never more than the declared length). SegV now also stands for C undefined behaviour in a leaf "
         "(C03 UB / C02 BUB), so C20_sizing_dominates / C20_need_is_enough / C20_assign_stays_inside also say no leaf "
         "store is UB for well-formed layouts (wf_type now demands 1 <= bits, shift + bits <= 8*size <= 64). C20_new_is_assign is definitional (one fill in the "
         "model, as one convert_from_object in the C code): the equality new(T, init) == new(T); p[0] = init is decided by "
         "the correspondence on the real code. The earlier refutation for arrays of var-sized structs (heap overflow, "
         "finding array_of_varsize_struct) was repaired in /repo commit 812503f; the guard is modelled (item_guard) and "
         "the theorem now holds without that exclusion; its proof uses the regenerated order fact C20/Gen.v (the item "
         "struct is forced before CT_WITH_VAR_ARRAY is read), so moving the flag read before force_lazy_struct breaks "
         "the obligation, and an API-mode module with lazily loaded structs is probed in fresh processes. The hand model is tied to the C code on every run by comparing "
         "bytes / ffi.sizeof / exception class of ffi.new(T, init), of the assignment form and of the by-name form on "
         "generated nested initializers.",
    note="Trusted: Coq kernel; hand model C20/Model.v (tied by differential testing, not by translation); layouts are read "
         "from real cffi (C01 owns them: no theorem connects wf_type to C01's cffi_layout) and checked against wf_type on "
         "each case; C03.Store / C02.Model / C15.Model are imported (the chain to regenerated text is C03_gen_store_refines, "
         "C02_gen_write_refines, C15/Gen.v); float / pointer leaves still supplied as bytes; Py_ssize_t wrap-around tests "
         "(add_varsize_length, direct_newp) modelled as bounds. Not proved: zero-outside-init for var-sized / nested partial "
         "initializers, exact allocation size of a flexible initializer (Examples + correspondence only); the call-site facts "
         "of convert_vfield_from_object / direct_newp are not regenerated (C20/Gen.v is one order fact).",
    design_ref="DESIGN.md §4 C20")
