"""C07 — Python and C type-string parsers denote the same type.

Three-way tie on the same strings, over random declaration contexts:
  (i)   C parser vs model:   (a) the unmodified parse_c_type.c compiled into a harness, opcode array or
        (message, error_location) compared with C07.Model.parse_c_type on EVERY string (well-formed, near-miss,
        garbage, tiny output buffers);  (b) a generated out-of-line ABI module's ffi.typeof(s) vs
        C07.Realize.c_typeof (parse + realize);
  (ii)  Python parser vs model: cffi.FFI().typeof(render t) vs C07.PyModel.denote t, and Coq's `render t`
        must be the very string used;
  (iii) the property predicate, decided on the implementation: in-line FFI vs out-of-line FFI on the same
        string: both reject, or the same type (identical ctype object when no aggregate is involved; same
        kind and name at aggregate leaves).
Known divergences are classified by *repair* matchers (finding_key): a disagreement belongs to a class only if
the class's syntactic feature is present and removing exactly that feature makes the two parsers agree.
"""
import json
import os
import subprocess

from lib import vlib
from props import c07_gen as G
from props import c07_regen

ID = "C07"
FFI_OUTPUT_SIZE = 1200          # FFI_COMPLEXITY_OUTPUT, ffi_obj.c:26 (pinned: C07_tables_are_the_sources)


def regen(ctx):
    """coq/C07/Gen.v from parse_c_type.c / parse_c_type.h / cffi_opcode.py / realize_c_type.c / ffi_obj.c /
    commontypes.c (fail closed, see c07_regen.py)"""
    c07_regen.regen(ctx)


def ffi_output_size():
    """FFI_COMPLEXITY_OUTPUT as read from ffi_obj.c by regen() (the harness then uses the tree's own value)"""
    return c07_regen.complexity_output(FFI_OUTPUT_SIZE)


# ------------------------------------------------------------------------------------------ generation

def generate(ctx):
    rng = ctx.rng
    cases = []
    nctx = ctx.n(8, 30)
    per = ctx.n(250, 750)
    for ci in range(nctx):
        dctx = G.gen_ctx(rng)
        osz = ffi_output_size() if ci % 5 else rng.choice([0, 1, 2, 3, 5, 8, 13, 30])
        for i in range(per):
            t = G.gen_type(rng, dctx, rng.choice([0, 1, 1, 2, 2, 3]))
            toks = G.tokens(t)
            r = rng.random()
            if r < 0.62:
                gaps = G.gen_gaps(rng, len(toks))
                item = dict(kind="cst", t=t, gaps=gaps, s=G.spell(toks, gaps))
            elif r < 0.97:
                for _ in range(rng.choice([1, 1, 1, 2])):
                    toks = G.mutate(rng, toks)
                item = dict(kind="mut", toks=toks, s=G.spell(toks, G.gen_gaps(rng, len(toks))))
            else:
                s = "".join(rng.choice(" \t*()[],.0123456789abcxXintlog_$") for _ in range(rng.randrange(0, 14)))
                item = dict(kind="mut", toks=None, s=s)
            if "\0" in item["s"]:
                continue
            cases.append(dict(ctx=dctx, osz=osz, item=item))
    return cases


# ------------------------------------------------------------------------------------------ helpers

def build_harness(ctx):
    s = ctx.scratch()
    exe = os.path.join(s.dir, "c07_harness")
    if not os.path.exists(exe):
        src = os.path.join(vlib.ROOT, "tools", "props", "c", "c07_harness.c")
        # AddressSanitizer/UBSan: the harness gives parse_c_type() exact-size heap buffers, so any access outside
        # the output buffer or past the string's terminator aborts the harness (reported as a violation)
        p = subprocess.run(["gcc", "-w", "-O1", "-g", "-fsanitize=address,undefined", "-fno-sanitize-recover=undefined",
                            "-fno-omit-frame-pointer", "-o", exe,
                            '-DPARSE_C_TYPE_C="%s"' % os.path.join(vlib.REPO, "src/c/parse_c_type.c"),
                            '-DCOMMONTYPES_C="%s"' % os.path.join(vlib.REPO, "src/c/commontypes.c"),
                            "-I" + os.path.join(vlib.REPO, "src/c"), "-I" + s.pyinc, src],
                           capture_output=True, text=True)
        if p.returncode:
            raise vlib.BuildError(p.stderr[-2000:])
    return exe


def group_cases(cases):
    groups, order = {}, []
    for i, c in enumerate(cases):
        k = json.dumps([c["ctx"], c["osz"]], sort_keys=True)
        if k not in groups:
            groups[k] = dict(ctx=c["ctx"], osz=c["osz"], idx=[])
            order.append(k)
        groups[k]["idx"].append(i)
    return [groups[k] for k in order]


def run_harness(ctx, groups, cases):
    exe = build_harness(ctx)
    inp, owner = [], []
    for g in groups:
        inp += G.harness_ctx(g["ctx"], g["osz"])
        for i in g["idx"]:
            inp.append("S " + cases[i]["item"]["s"].encode("utf-8").hex())
            owner.append(i)
    env = dict(os.environ, ASAN_OPTIONS="detect_leaks=0:abort_on_error=0:exitcode=77", UBSAN_OPTIONS="print_stacktrace=1")
    p = subprocess.run([exe], input="\n".join(inp) + "\n", capture_output=True, text=True, timeout=600, env=env)
    if p.returncode:
        return None, "harness exit status %d (77 = AddressSanitizer): %s" % (p.returncode, p.stderr[-1800:])
    lines = p.stdout.splitlines()
    if len(lines) != len(owner):
        return None, "harness printed %d lines for %d strings" % (len(lines), len(owner))
    return dict(zip(owner, lines)), None


def harness_literal(line):
    f = line.split()
    if f[0] == "OK":
        e = 7
        for x in f[3:]:
            e = (e * 1000003 + (int(x) % (1 << 64)) + 1) % 2305843009213693951
        return "(o_ok (%s)%%Z %s%%Z %d%%Z)" % (f[1], f[2], e)
    return "(o_err %s%%N %s%%N)" % (f[1], f[2])


COQ_DRIVER = """
Definition case_t := (string * ((Z * Z * Z) + (N * N)) * option (option ctype)
                      * option (tyexpr * list string * option ctype))%%type.
(* bit 0: parse_c_type vs harness; bit 1: c_typeof vs out-of-line FFI; bit 2: denote vs in-line FFI; bit 3: render *)
Definition check (c : case_t) : N :=
  let '(s, exp_a, exp_b, exp_c) := c in
  let '(osz, cx) := cx in
  let '(g_c, g_py) := genv2 in
  let input := s2l s in
  ((if obs_eqb (parse_obs_hash osz cx input) exp_a then 0 else 1)
   + match exp_b with
     | Some e => if opt_ctype_eqb (c_typeof %d g_c input) e then 0 else 2
     | None => 0
     end
   + match exp_c with
     | Some (t, gaps, e) =>
       (if opt_ctype_eqb (py_typeof g_py t (map s2l gaps)) e then 0 else 4)
       + (if str_eqb (render t (map s2l gaps)) input then 0 else 8)
     | None => 0
     end)%%N.
Definition detail (c : case_t) :=
  let '(s, exp_a, exp_b, exp_c) := c in
  let '(osz, cx) := cx in
  let '(g_c, g_py) := genv2 in
  (parse_obs osz cx (s2l s), c_typeof 1200 g_c (s2l s),
   match exp_c with Some (t, gaps, _) => Some (py_typeof g_py t (map s2l gaps), render t (map s2l gaps)) | None => None end).
Fixpoint failures (i : N) (l : list case_t) : list (N * N) :=
  match l with
  | [] => []
  | c :: l' => let r := check c in
               if N.eqb r 0 then failures (N.succ i) l' else (i, r) :: failures (N.succ i) l'
  end.
"""


def coq_run(jobs_in, shard=400, jobs=8, timeout=900):
    """jobs_in: [(prelude, [case literal, ...]), ...] (one entry per declaration context).  Evaluates `check` on every
    case (sharded, in parallel); returns ([(global index, flags)], {global index: model detail}, err)."""
    import re
    import shutil
    d = vlib.mkscratch("coq")
    header0 = ("From Coq Require Import ZArith NArith List Bool String.\nImport ListNotations.\n"
               "From Cffi Require Import C07.Model.\n")
    shards, base = [], 0
    for prelude, lits in jobs_in:
        for k in range(0, len(lits), shard):
            shards.append((base + k, prelude, lits[k:k + shard]))
        base += len(lits)
    bad, detail, err = [], {}, None
    try:
        running = []

        def reap():
            nonlocal err
            k, off, pr = running.pop(0)
            out, _ = pr.communicate()
            if pr.returncode != 0:
                err = err or "coqc failed on shard %d: %s" % (k, out[-2500:])
                return
            m = re.search(r"=\s*\[(.*?)\]\s*:\s*list \(N \* N\)", out, re.S)
            if not m:
                err = err or "cannot parse coqc output of shard %d: %s" % (k, out[-1500:])
                return
            for a, b in re.findall(r"\((\d+)%?N?,\s*(\d+)%?N?\)", m.group(1)):
                bad.append((off + int(a), int(b)))

        for k, (off, prelude, sh) in enumerate(shards):
            path = os.path.join(d, "s%d.v" % k)
            with open(path, "w") as f:
                f.write(header0 + prelude)
                f.write("Definition cases : list case_t := [\n%s\n].\n" % ";\n".join(sh))
                f.write("Eval vm_compute in failures 0%N cases.\n")
            while len(running) >= jobs:
                reap()
            running.append((k, off, subprocess.Popen(["timeout", str(timeout), "coqc"] + vlib.COQ_FLAGS + [path],
                                                     stdout=subprocess.PIPE, stderr=subprocess.STDOUT, text=True, cwd=d)))
        while running:
            reap()
        if bad and not err:
            # model outputs for the first few failures of the first failing shards
            byshard = {}
            for i, _ in sorted(bad):
                for off, prelude, sh in shards:
                    if off <= i < off + len(sh):
                        byshard.setdefault(off, (prelude, sh, []))[2].append(i)
            for off in sorted(byshard)[:3]:
                prelude, sh, idx = byshard[off]
                sel = idx[:6]
                body = header0 + prelude + "".join("Eval vm_compute in detail %s.\n" % sh[i - off] for i in sel)
                ok, out = vlib.coq_eval([], body, timeout=timeout, workdir=d, name="detail%d" % off)
                chunks = re.split(r"^\s*= ", out, flags=re.M)[1:]
                for i, c in zip(sel, chunks):
                    detail[i] = " ".join(c.split())
    finally:
        shutil.rmtree(d, ignore_errors=True)
        if d in vlib._scratch_dirs:
            vlib._scratch_dirs.remove(d)
    return sorted(bad), detail, err


def coq_string(s):
    return '"%s"%%string' % s.replace('"', '""')


def agree(rp, rc):
    """the property predicate on two results of the worker (before the identity requirement)"""
    if "err" in rp and "err" in rc:
        return True
    if "ok" in rp and "ok" in rc:
        return rp["ok"] == rc["ok"]
    return False


# ------------------------------------------------------------------------------------------ finding classes

SPEC_KW = set(G.MODS + G.BASES + ["_Complex"])
ABI = ("__stdcall", "__cdecl")


def spec_runs(toks):
    """maximal runs of specifier keywords and qualifiers: list of (start, end)"""
    runs, i = [], 0
    while i < len(toks):
        if toks[i] in SPEC_KW or toks[i] in G.QUALS:
            j = i
            while j < len(toks) and (toks[j] in SPEC_KW or toks[j] in G.QUALS):
                j += 1
            runs.append((i, j))
            i = j
        else:
            i += 1
    return runs


def rep_qual_between(toks, dctx):
    out, drop = list(toks), set()
    for a, b in spec_runs(toks):
        kws = [k for k in range(a, b) if toks[k] in SPEC_KW]
        if len(kws) >= 2:
            for k in range(kws[0], kws[-1]):
                if toks[k] in G.QUALS:
                    drop.add(k)
    return [t for k, t in enumerate(out) if k not in drop]


def rep_nested_parens(toks, dctx):
    """'(' directly followed by '(' : the outer pair is a grouping around a direct declarator; (D)S == D S"""
    toks = list(toks)
    changed = True
    while changed:
        changed = False
        for i in range(len(toks) - 1):
            if toks[i] == "(" and toks[i + 1] == "(":
                depth, j = 0, i
                while j < len(toks):
                    if toks[j] == "(":
                        depth += 1
                    elif toks[j] == ")":
                        depth -= 1
                        if depth == 0:
                            break
                    j += 1
                if j < len(toks):
                    del toks[j]
                    del toks[i]
                    changed = True
                    break
    return toks


function_typedef_names = G.function_typedef_names
void_typedef_names = G.void_typedef_names


def rep_function_typedef(toks, dctx):
    names = function_typedef_names(dctx)
    out = []
    for t in toks:
        out.append(t)
        if t in names:
            out.append("*")
    return out


def rep_ellipsis_only(toks, dctx):
    out, i = [], 0
    while i < len(toks):
        if toks[i:i + 3] == ["(", "...", ")"]:
            out += ["(", "int", ",", "...", ")"]
            i += 3
        else:
            out.append(toks[i])
            i += 1
    return out


def rep_implicit_int(toks, dctx):
    """a run of qualifiers only, where a type must start (beginning, after '(' or ',')"""
    out, i = [], 0
    while i < len(toks):
        if toks[i] in G.QUALS and (i == 0 or toks[i - 1] in ("(", ",")):
            j = i
            while j < len(toks) and toks[j] in G.QUALS:
                j += 1
            nxt = toks[j] if j < len(toks) else None
            declared = ({td["name"] for td in dctx["typedefs"]} | set(G.STD_NAMES) | {"bool", "FILE", "struct",
                                                                                     "union", "enum"})
            out += toks[i:j]
            if nxt not in SPEC_KW and nxt not in declared:
                out.append("int")
            i = j
        else:
            out.append(toks[i])
            i += 1
    return out


def rep_signed_ignored(toks, dctx):
    out, drop = list(toks), set()
    for a, b in spec_runs(toks):
        run = toks[a:b]
        if "signed" in run and (run.count("signed") > 1 or "unsigned" in run or
                                any(k in run for k in ("float", "double", "void", "_Bool", "_Complex"))):
            drop |= {k for k in range(a, b) if toks[k] == "signed"}
    return [t for k, t in enumerate(out) if k not in drop]


def rep_sole_void(toks, dctx):
    vnames = void_typedef_names(dctx)
    out, i = [], 0
    while i < len(toks):
        if toks[i] == "(":
            j = i + 1
            inner = []
            while j < len(toks) and toks[j] not in ("(", ")", ",", "[", "*"):
                inner.append(toks[j])
                j += 1
            core = [t for t in inner if t not in G.QUALS]
            if len(core) == 2 and G.wordy(core[1]) and not core[1][0].isdigit() and core[1] not in type_names(dctx) \
                    and core[1] not in SPEC_KW and core[1] not in ABI:
                core = core[:1]                       # a parameter name
            if (j < len(toks) and toks[j] == ")" and len(core) == 1 and (core[0] == "void" or core[0] in vnames)
                    and inner != ["void"]):
                out += ["(", "void", ")"]
                i = j + 1
                continue
        out.append(toks[i])
        i += 1
    return out


def rep_stray_abi(toks, dctx):
    return [t for t in toks if t not in ABI]


def rep_decayed_length(toks, dctx):
    neg = {n for n, v in dctx["consts"] if v < 0 or v > 2 ** 63 - 1}
    neg |= {n for e in dctx["enums"] for n, v in e["values"] if v < 0}
    out = list(toks)
    for i in range(1, len(toks) - 1):
        if toks[i - 1] == "[" and toks[i + 1] == "]":
            t = toks[i]
            big = False
            try:
                big = t[0].isdigit() and int(t, 0) > 2 ** 63 - 1
            except ValueError:
                try:
                    big = t[0] == "0" and int(t, 8) > 2 ** 63 - 1
                except ValueError:
                    big = False
            if t in neg or big:
                out[i] = "1"
    return out


def rep_ellipsis_no_comma(toks, dctx):
    out = []
    for i, t in enumerate(toks):
        if t == "..." and i and toks[i - 1] not in ("(", ","):
            out.append(",")
        out.append(t)
    return out


def rep_qual_in_brackets(toks, dctx):
    out = []
    for i, t in enumerate(toks):
        if t in G.QUALS + ["static"] and i and (toks[i - 1] == "[" or (out and out[-1] == "[" and toks[i - 1] in G.QUALS)):
            continue
        out.append(t)
    return out


def rep_toplevel_comma(toks, dctx):
    depth = 0
    for i, t in enumerate(toks):
        if t in ("(", "["):
            depth += 1
        elif t in (")", "]"):
            depth -= 1
            if depth < 0:
                return toks[:i]
        elif t == "," and depth == 0:
            return toks[:i]
    return toks


def type_names(dctx):
    return {td["name"] for td in dctx["typedefs"]} | set(G.STD_NAMES) | {"bool", "FILE"}


def rep_qual_first_param(toks, dctx):
    """'(' qualifiers X  ->  '(' X qualifiers   (X a specifier keyword, a type name or struct/union/enum tag)"""
    out, i = [], 0
    tn = type_names(dctx)
    while i < len(toks):
        out.append(toks[i])
        if toks[i] == "(":
            j = i + 1
            while j < len(toks) and toks[j] in G.QUALS:
                j += 1
            if j > i + 1 and j < len(toks) and (toks[j] in SPEC_KW or toks[j] in tn or toks[j] in ("struct", "union", "enum")):
                k = j + 1
                if toks[j] in ("struct", "union", "enum") and k < len(toks):
                    k += 1
                else:
                    while k < len(toks) and toks[k] in SPEC_KW:
                        k += 1
                out += toks[j:k] + toks[i + 1:j]
                i = k
                continue
        i += 1
    return out


def rep_paren_name(toks, dctx):
    """'(' name ... ')' : grouping parentheses around a direct declarator that starts with a name; (D)S == D S"""
    toks = list(toks)
    tn = type_names(dctx)
    changed = True
    while changed:
        changed = False
        for i in range(1, len(toks) - 1):
            n = toks[i + 1]
            if (toks[i] == "(" and G.wordy(n) and not n[0].isdigit() and n not in tn and n not in SPEC_KW
                    and n not in G.QUALS and n not in ABI and n not in ("struct", "union", "enum")):
                depth, j = 0, i
                while j < len(toks):
                    if toks[j] == "(":
                        depth += 1
                    elif toks[j] == ")":
                        depth -= 1
                        if depth == 0:
                            break
                    j += 1
                if j < len(toks):
                    del toks[j]
                    del toks[i]
                    changed = True
                    break
    return toks


def rep_undeclared_tag(toks, dctx):
    decl = {"struct": [x["name"] for x in dctx["structs"] if x["kind"] == "struct"],
            "union": [x["name"] for x in dctx["structs"] if x["kind"] == "union"],
            "enum": [x["name"] for x in dctx["enums"]]}
    out, i = [], 0
    while i < len(toks):
        t = toks[i]
        if t in decl and i + 1 < len(toks) and G.wordy(toks[i + 1]) and not toks[i + 1][0].isdigit() \
                and toks[i + 1] not in decl[t] and toks[i + 1] not in SPEC_KW and toks[i + 1] not in G.QUALS \
                and toks[i + 1] not in ABI and toks[i + 1] not in decl:
            if decl[t]:
                out += [t, decl[t][0]]
            else:
                out.append("int")
            i += 2
            continue
        out.append(t)
        i += 1
    return out


def rep_array_of_function(toks, dctx):
    """a function-typedef name followed (after qualifiers / a parameter name) by '[' .. ']': first pair -> '*'"""
    names = function_typedef_names(dctx)
    tn = type_names(dctx)
    out, i = [], 0
    while i < len(toks):
        out.append(toks[i])
        if toks[i] in names:
            j = i + 1
            while j < len(toks) and (toks[j] in G.QUALS or (G.wordy(toks[j]) and toks[j] not in tn
                                                           and toks[j] not in SPEC_KW and not toks[j][0].isdigit())):
                j += 1
            if j < len(toks) and toks[j] == "[":
                k = j
                while k < len(toks) and toks[k] != "]":
                    k += 1
                if k < len(toks):
                    out += ["*"] + toks[i + 1:j]
                    i = k + 1
                    continue
        i += 1
    return out


def rep_after_ellipsis(toks, dctx):
    """qualifiers and a declarator name between '...' and the closing parenthesis"""
    out, i = [], 0
    while i < len(toks):
        out.append(toks[i])
        if toks[i] == "...":
            j = i + 1
            while j < len(toks) and (toks[j] in G.QUALS or (G.wordy(toks[j]) and not toks[j][0].isdigit()
                                                           and toks[j] not in SPEC_KW and toks[j] not in ABI
                                                           and toks[j] not in type_names(dctx)
                                                           and toks[j] not in ("struct", "union", "enum"))):
                j += 1
            if j < len(toks) and toks[j] == ")":
                i = j
                continue
        i += 1
    return out


REPAIRS = [
    ("qualifier_between_specifiers", rep_qual_between),
    ("nested_grouping_parens", rep_nested_parens),
    ("function_typedef_param", rep_function_typedef),
    ("ellipsis_only_params", rep_ellipsis_only),
    ("implicit_int", rep_implicit_int),
    ("signed_ignored", rep_signed_ignored),
    ("sole_void_param_not_bare", rep_sole_void),
    ("stray_abi_keyword", rep_stray_abi),
    ("decayed_array_length", rep_decayed_length),
    ("ellipsis_without_comma", rep_ellipsis_no_comma),
    ("qualifier_in_array_brackets", rep_qual_in_brackets),
    ("toplevel_comma_or_paren", rep_toplevel_comma),
    ("undeclared_tag", rep_undeclared_tag),
    ("qualifier_first_param_as_grouping", rep_qual_first_param),
    ("parenthesised_name", rep_paren_name),
    ("array_of_function_typedef_param", rep_array_of_function),
    ("tokens_after_ellipsis", rep_after_ellipsis),
]
EXOTIC_WS = "\r\f\v"


def forced_names(dctx):
    """{forced ctype name: 'struct tag'} for `typedef struct tag name;` (first such typedef wins)"""
    out, seen = {}, set()
    for td in dctx["typedefs"]:
        t = td["t"]
        core = [s for s in t["specs"] if s not in G.QUALS]
        if t["decl"] == G.empty_decl() and len(core) == 1 and isinstance(core[0], list) \
                and core[0][0] in ("struct", "union"):       # enums defined earlier are never renamed
            key = (core[0][0], core[0][1])
            if key not in seen:
                seen.add(key)
                out[td["name"]] = "%s %s" % key
    return out


def unforce(desc, forced):
    if desc[0] == "agg":
        return ["agg", desc[1], forced.get(desc[2], desc[2])]
    if desc[0] in ("ptr", "arr"):
        return [desc[0], unforce(desc[1], forced)] + desc[2:]
    if desc[0] == "func":
        return ["func", unforce(desc[1], forced), [unforce(a, forced) for a in desc[2]], desc[3]]
    return desc


def agree_mod_forced(rp, rc, forced):
    if "ok" in rp and "ok" in rc:
        return unforce(rp["ok"], forced) == rc["ok"]
    return agree(rp, rc)


def item_tokens(item):
    if item["kind"] == "cst":
        return G.tokens(item["t"])
    return item.get("toks")


# ------------------------------------------------------------------------------------------ evaluation

def evaluate(ctx, cases):
    groups = group_cases(cases)
    prim_index = G.prim_index_from_source(vlib.REPO)
    # ---- (i-a) harness vs Model.parse_c_type
    lines, err = run_harness(ctx, groups, cases)
    if lines is None:
        ctx.violation(cases[0], "parse_c_type.c harness failed on this batch: " + err)
        return
    # ---- real FFIs
    s = ctx.scratch()
    payload = dict(groups=[dict(cdef=G.ctx_cdef(g["ctx"]), strings=[cases[i]["item"]["s"] for i in g["idx"]])
                           for g in groups])
    out, p = s.run_worker("c07_worker.py", payload, timeout=3000)
    if out is None:
        ctx.violation(cases[0], "worker failed: " + (p.stderr[-1500:] or p.stdout[-500:]))
        return
    real = {}
    dropped = 0
    for g, r in zip(groups, out["groups"]):
        if "cdef_error" in r:
            dropped += len(g["idx"])
            ctx.hist("context", "cdef refused: " + r["cdef_error"][:60])
            g["dead"] = True
            continue
        ctx.hist("context", "ok")
        for i, rr in zip(g["idx"], r["results"]):
            real[i] = rr
    ctx.extra["cases_dropped_with_refused_context"] = dropped

    # ---- Coq: one pass over all cases; one shard per declaration context
    jobs_in, owner = [], []
    for gi, g in enumerate(groups):
        prelude = ["From Cffi Require Import C07.Realize C07.PyModel.",
                   "Definition cx := Eval vm_compute in (%d%%nat, %s)." % (g["osz"], G.coq_ctx(g["ctx"]))]
        if not g.get("dead"):
            prelude.append(G.coq_genv_defs(0, g["ctx"]))
            prelude.append("Definition genv2 := (g_c_0, g_py_0).")
        else:
            prelude.append("Definition genv2 := (mkGenv [] [] [] [], mkGenv [] [] [] []).")
        prelude.append(COQ_DRIVER % ffi_output_size())
        lits = []
        for i in g["idx"]:
            it = cases[i]["item"]
            exp_b = "None"
            exp_c = "None"
            if i in real:
                exp_b = "(Some %s)" % G.coq_res(real[i]["c"], prim_index, g["ctx"])
                if it["kind"] == "cst":
                    exp_c = "(Some (%s, [%s], %s))" % (G.coq_tyexpr(it["t"]), "; ".join(coq_string(w) for w in it["gaps"]),
                                                       G.coq_res(real[i]["py"], prim_index, g["ctx"]))
            lits.append("(%s, %s, %s, %s)" % (coq_string(it["s"]), harness_literal(lines[i]), exp_b, exp_c))
            owner.append(i)
        jobs_in.append(("\n".join(prelude) + "\n", lits))
    bad, detail, err = coq_run(jobs_in)
    if err:
        ctx.obligation_broken("C07 model evaluation", err)
    CORR = ["C07.Model.parse_c_type vs parse_c_type.c (harness)",
            "C07.Realize.c_typeof vs out-of-line module ffi.typeof",
            "C07.PyModel.denote vs cffi.FFI().typeof", "C07.PyModel.render vs the generator's spelling"]
    for k, flags in bad:
        i = owner[k]
        for bit, corr in enumerate(CORR):
            if flags & (1 << bit):
                ctx.mismatch(cases[i], "string %r: model: %s || implementation: harness %s, out-of-line %r, in-line %r" % (
                    cases[i]["item"]["s"], detail.get(k, "?")[:1500], lines[i][:300], real.get(i, {}).get("c"),
                    real.get(i, {}).get("py")), corr)

    # ---- (iii) the property predicate on the implementation
    disagree = []
    for gi, g in enumerate(groups):
        if g.get("dead"):
            continue
        forced = forced_names(g["ctx"])
        for i in g["idx"]:
            it, rr = cases[i]["item"], real[i]
            ctx.count()
            ctx.hist("stream", it["kind"])
            ctx.hist("c_result", lines[i].split()[0] + ("" if lines[i].startswith("OK") else " " + lines[i].split()[1]))
            ctx.hist("verdict", ("both accept" if "ok" in rr["py"] else "py rejects, c accepts") if "ok" in rr["c"]
                     else ("py accepts, c rejects" if "ok" in rr["py"] else "both reject"))
            if "ok" in rr["py"] or "ok" in rr["c"]:
                ctx.nontrivial(it["s"].split())
            if agree(rr["py"], rr["c"]):
                if "ok" in rr["py"] and not G.has_agg(rr["py"]["ok"]) and rr["same"] is not True:
                    ctx.violation(cases[i], "typeof(%r): equal descriptions %r but not the identical ctype object"
                                  % (it["s"], rr["py"]["ok"]))
                continue
            if forced and agree_mod_forced(rr["py"], rr["c"], forced):
                ctx.violation(cases[i], "typeof(%r): in-line %r vs out-of-line %r" % (it["s"], rr["py"], rr["c"]),
                              "typedef_forces_aggregate_name")
                continue
            disagree.append((gi, i))
    if disagree:
        classify(ctx, cases, groups, real, disagree)
    for c in cases[:3]:
        ctx.sample(dict(s=c["item"]["s"], kind=c["item"]["kind"]))


def classify(ctx, cases, groups, real, disagree):
    """decide the finding class of each disagreement by re-asking the implementation on repaired strings"""
    queries = {}                      # gi -> list of strings
    plan = []
    for gi, i in disagree:
        toks = item_tokens(cases[i]["item"])
        cands = []
        s0 = cases[i]["item"]["s"]
        if any(c in s0 for c in EXOTIC_WS):
            cands.append(("whitespace_ff_vt_cr", "".join(" " if c in EXOTIC_WS else c for c in s0)))
        if toks is not None:
            dctx = groups[gi]["ctx"]
            cur = list(toks)
            for key, rep in REPAIRS:
                r = rep(toks, dctx)
                if r != toks:
                    cands.append((key, G.spell(r, None)))
            for _round in range(4):                     # all repairs together, to a fixpoint
                before = list(cur)
                for key, rep in REPAIRS:
                    cur = rep(cur, dctx)
                if cur == before:
                    break
            if cur != toks and G.spell(cur, None) not in [c[1] for c in cands]:
                first = next((k for k, rep in REPAIRS if rep(toks, dctx) != toks), REPAIRS[0][0])
                cands.append((first + " (combined)", G.spell(cur, None)))
        plan.append((gi, i, cands))
        for key, s in cands:
            queries.setdefault(gi, []).append(s)
    answers = {}
    if queries:
        gis = sorted(queries)
        payload = dict(groups=[dict(cdef=G.ctx_cdef(groups[gi]["ctx"]), strings=queries[gi]) for gi in gis])
        out, p = ctx.scratch().run_worker("c07_worker.py", payload, timeout=3000)
        if out is not None:
            for gi, r in zip(gis, out["groups"]):
                for s, rr in zip(queries[gi], r.get("results", [])):
                    answers[(gi, s)] = rr
    for gi, i, cands in plan:
        it, rr = cases[i]["item"], real[i]
        forced = forced_names(groups[gi]["ctx"])
        key = None
        for k, s in cands:
            a = answers.get((gi, s))
            if a is not None and agree_mod_forced(a["py"], a["c"], forced):
                key = k.replace(" (combined)", "")
                break
        ctx.violation(cases[i], "typeof(%r): in-line FFI %r, out-of-line FFI %r" % (it["s"], rr["py"], rr["c"]), key)


def replay_witnesses(ctx):
    """every witness of findings/C07.json is re-run on the implementation: an open finding must still show the
    recorded disagreement, a fixed one must agree"""
    wit = [k for k in ctx.known if isinstance(k.get("witness"), dict) and "s" in k["witness"]]
    if not wit:
        return
    payload = dict(groups=[dict(cdef=k["witness"].get("cdef", ""), strings=[k["witness"]["s"]]) for k in wit])
    out, p = ctx.scratch().run_worker("c07_worker.py", payload, timeout=600)
    status = {}
    if out is None:
        ctx.extra["witness_replay"] = "worker failed"
        return
    for k, r in zip(wit, out["groups"]):
        if "cdef_error" in r:
            status[k["key"]] = "context refused: " + r["cdef_error"][:80]
            continue
        rr = r["results"][0]
        same = agree(rr["py"], rr["c"])
        case = dict(ctx=dict(structs=[], enums=[], consts=[], typedefs=[]), osz=ffi_output_size(),
                    item=dict(kind="mut", toks=None, s=k["witness"]["s"]), witness_of=k["key"],
                    cdef=k["witness"].get("cdef", ""))
        if k.get("status") == "open":
            status[k["key"]] = "still diverges" if not same else "NO LONGER DIVERGES (stale finding?)"
            if not same:
                ctx.violation(case, "witness of %s: typeof(%r): in-line %r, out-of-line %r" % (
                    k["key"], k["witness"]["s"], rr["py"], rr["c"]), k["key"])
            else:
                print("NOTE property=C07 the witness of known finding %r no longer diverges" % k["key"])
        else:
            status[k["key"]] = "fixed, agrees" if same else "fixed finding diverges again"
            if not same:
                ctx.violation(case, "witness of fixed finding %s diverges again: typeof(%r): in-line %r, out-of-line %r"
                              % (k["key"], k["witness"]["s"], rr["py"], rr["c"]))
    ctx.extra["witness_replay"] = status


def run(ctx):
    ctx.cov["rule"] = ("strings: 62% renderings of random concrete syntax trees of the declarator grammar (specifier "
                       "orders, qualifiers, pointers, arrays with dec/oct/hex/named lengths, function suffixes with "
                       "fixed/void/variadic parameters, __cdecl/__stdcall, nested grouping parentheses, names from a "
                       "random declaration context) with random white space; 35% near misses of those (token "
                       "dropped/duplicated/swapped/replaced, stray punctuation, truncation); 3% character noise; every "
                       "fifth context runs the harness with a tiny output buffer. Non-trivial = accepted by at least "
                       "one parser; distinct by token sequence.")
    ctx.assumptions += [
        "hand models C07/Model.v (parse_c_type.c), C07/Realize.v (realize_c_type.c + type constructors), "
        "C07/PyModel.v (cparser.py post-processing); control structure tied to the code by this run's differential "
        "tests, constant tables (keywords, opcode numbers, recursion limit, FFI_COMPLEXITY_OUTPUT, commontypes rows) "
        "regenerated into C07/Gen.v and pinned by C07_tables_are_the_sources",
        "pycparser and cparser._preprocess are not modelled: their output on rendered syntax trees is what "
        "correspondence (ii) samples",
        "x86-64 Linux: primitive sizes, non-Windows commontypes.c table, __stdcall ignored by the backend",
        "glibc strtoull (base 0, no 0b prefix)"]
    replay_witnesses(ctx)
    evaluate(ctx, generate(ctx))


MANIFEST = dict(
    technique="Coq proofs over token-level models of both parsers + three-way differential correspondence "
              "(sanitizer-instrumented C harness on the unmodified parse_c_type.c, out-of-line module, in-line FFI)",
    text="Models: parse_c_type.c at character/token level with the opcode buffer explicit (C07/Model.v), opcode "
         "realisation and the backend's type constructors (C07/Realize.v), cparser's post-processing of the declarator "
         "tree with the concrete spellings of the grammar (C07/PyModel.v). Proved (C07/Props.v): both parsers agree on "
         "every list of primitive specifier keywords (C07_specifier_orderings); the lexer reads back any spelled token "
         "list (C07_lexer); C and Python read integer literals alike; parse_sequel's opcodes decode to the declarator "
         "(C07_declarator_opcodes); C07_agree_partial: c_typeof (spell t) = denote t for qualifiers + specifier keywords "
         "+ pointers/qualifiers/nested grouping parentheses/arrays with dec/oct/hex lengths or lengths named by an "
         "integer constant of the context/pointers to functions with the parameter lists () and (void), with "
         "__cdecl/__stdcall, any white space, any context; C07_agree_names_partial: the same over base types named "
         "through the context (typedef names, standard *_t names, struct/union/enum tags), in any context whose tables "
         "are sorted (wf_genv); for ALL strings, contexts and buffer sizes: no access to the output buffer outside its "
         "written part (C07_no_fault), the result index is inside it (C07_result_index_in_range), the scanning "
         "primitives stop at the terminator, and the model's fuel is never exhausted (C07_fuel_suffices: "
         "parse_c_type ... <> Err E_out_of_fuel, by the measure 4*remaining characters + b per function; "
         "C07_token_nonempty, C07_parse_from_fuel, C07_parse_complete_fuel, C07_parse_sequel_fuel are the per-function "
         "statements; C07_nested_fuel_suffices is the nested parse of a commontypes.c replacement on its own - that "
         "its call site has that much fuel is NOT proved, the model masks it as E_internal like the C code and the "
         "correspondence on FILE/bool strings covers it). Regenerated on every run (C07/Gen.v, fail closed, "
         "c07_regen.py): next_token()'s keyword switch, _CFFI_OP_*/OP_* numbers, realize_c_type()'s recursion limit, "
         "FFI_COMPLEXITY_OUTPUT, the portable rows of commontypes.c; C07_tables_are_the_sources, "
         "C07_keyword_lookup_is_source, C07_opcode_numbers_are_source pin the hand-written tables of Model.v/Realize.v "
         "to them by computation (the PRIM_* numbers, the standard-typename table and py_prims are pinned to the "
         "regenerated C06/Gen.v by C06_C07_prim_constants, C06_C07_std_typename_same, C06_C07_py_prims in "
         "coq/C06/Props.v). The full statement is kept visible and refuted by eight _refuted witnesses (known "
         "findings). The hand models of the parsing functions themselves are tied to the code by correspondence only.",
    note="Trusted: Coq kernel; the three hand models (control structure tied by differential testing on every run; "
         "their constant tables regenerated/pinned); pycparser; gcc + AddressSanitizer; glibc strtoull. Label: partial "
         "(parameter lists with parameters or '...', argument decay, declarator names, error classes/positions and the "
         "Python front end (pycparser + _preprocess) are covered by correspondence only; ctype object identity is "
         "checked by the harness only).",
    design_ref="DESIGN.md §4 C07")
