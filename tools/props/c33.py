"""C33 — verify() produces the same library behaviour as set_source().

Tie A (regeneration): coq/C33/Gen.v is rebuilt from _cffi_backend.c (the bound expressions of
  _cffi_to_c_SIGNED_FN/_UNSIGNED_FN, their instantiations, cffi_exports[]), from the header text
  inside vengine_cpy.py and from _cffi_include.h (_cffi_to_c_int dispatch, export indices,
  _cffi_from_c_int).
Tie B (correspondence): modules from the C12 generator restricted to what verify() supports and to
  *matching* declarations; each built three ways (verify/CPython engine, verify/generic engine,
  set_source+compile) and probed identically: constants, enums, struct layouts, globals (read,
  write, address), function results and conversion errors (exception class) for boundary and
  ill-typed arguments.  Any difference between a verify() build and the set_source() build is a
  violation; the Coq model is evaluated on the integer-argument probes and on the struct layouts.
"""
import os
import re

from lib import vlib
from lib.vlib import cz, cbool, clist
from props import c12
from props import c12_worker as W

ID = "C33"
GEN = os.path.join(vlib.COQ, "C33", "Gen.v")
Untranslatable = c12.Untranslatable


# =============================================================================== regeneration
class BoundParser:
    """the three bound expressions: casts to (unsigned) PY_LONG_LONG, ULL literals, << - ~, SIZE.
       Produces a Gallina term over C33.Spec's fixed-width operations, typed int / ull / ll."""

    def __init__(self, text):
        self.toks = re.findall(r"[A-Za-z_]\w*|\d+[uUlL]*|<<|[()\-~]|\S", text)
        self.i = 0
        self.shifts = []

    def peek(self, k=0):
        return self.toks[self.i + k] if self.i + k < len(self.toks) else None

    def eat(self, t=None):
        tok = self.peek()
        if tok is None or (t is not None and tok != t):
            raise Untranslatable("bound expression: expected %r, got %r" % (t, tok))
        self.i += 1
        return tok

    def parse(self):
        e = self.shift()
        if self.peek() is not None:
            raise Untranslatable("bound expression: trailing %r" % self.peek())
        return e

    def shift(self):
        e, t = self.additive()
        while self.peek() == "<<":
            self.eat()
            k, tk = self.additive()
            if tk != "int":
                raise Untranslatable("shift count of type %s" % tk)
            self.shifts.append(k)
            if t != "ull":
                raise Untranslatable("shift of a %s value" % t)
            e = "(ull_shl %s %s)" % (e, k)
        return e, t

    def additive(self):
        e, t = self.unary()
        while self.peek() == "-":
            self.eat()
            f, tf = self.unary()
            if t == "ull" or tf == "ull":
                e, t = "(ull_sub %s %s)" % (e, f), "ull"
            elif t == "int" and tf == "int":
                e = "(%s - %s)" % (e, f)
            else:
                raise Untranslatable("subtraction of %s and %s" % (t, tf))
        return e, t

    def unary(self):
        tok = self.peek()
        if tok == "~":
            self.eat()
            e, t = self.unary()
            if t != "ull":
                raise Untranslatable("~ of %s" % t)
            return "(ull_not %s)" % e, "ull"
        if tok == "-":
            self.eat()
            e, t = self.unary()
            if t != "int":
                raise Untranslatable("unary - of %s" % t)
            return "(- %s)" % e, "int"
        if tok == "(" and self.peek(1) in ("PY_LONG_LONG", "unsigned"):
            self.eat()
            words = []
            while self.peek() != ")":
                words.append(self.eat())
            self.eat(")")
            e, t = self.unary()
            if words == ["PY_LONG_LONG"]:
                return "(to_ll %s)" % e, "ll"
            if words == ["unsigned", "PY_LONG_LONG"]:
                return "(to_ull %s)" % e, "ull"
            raise Untranslatable("cast to %r" % words)
        return self.primary()

    def primary(self):
        tok = self.eat()
        if tok == "(":
            e = self.shift()
            self.eat(")")
            return e
        if tok == "SIZE":
            return "SIZE", "int"
        m = re.fullmatch(r"(\d+)(ULL)?", tok)
        if m:
            return m.group(1), ("ull" if m.group(2) else "int")
        raise Untranslatable("bound expression: token %r" % tok)


RET = {"int": (32, True), "unsigned int": (32, False), "PY_LONG_LONG": (64, True),
       "unsigned PY_LONG_LONG": (64, False)}
HDR_RET = {"int": (32, True), "unsigned int": (32, False), "long long": (64, True),
           "unsigned long long": (64, False)}
FROM_C_INT = ("#define _cffi_from_c_int(x, type) (((type)-1) > 0 ? /* unsigned */ (sizeof(type) < sizeof(long) ? "
              "PyLong_FromLong((long)x) : sizeof(type) == sizeof(long) ? PyLong_FromUnsignedLong((unsigned long)x) : "
              "PyLong_FromUnsignedLongLong((unsigned long long)x)) : (sizeof(type) <= sizeof(long) ? "
              "PyLong_FromLong((long)x) : PyLong_FromLongLong((long long)x)))")


def _macro(text, name):
    m = re.search(r"^#define %s\b(?:.*\\\n)*.*" % re.escape(name), text, re.M)
    if not m:
        raise Untranslatable("macro %s not found" % name)
    return " ".join(m.group(0).replace("\\\n", " ").split())


def header_tables(text, what, insts):
    idx = []
    for sg, bits in re.findall(r"^#define _cffi_to_c_([iu])(\d+)\b", text, re.M):
        mac = _macro(text, "_cffi_to_c_%s%s" % (sg, bits))
        m = re.fullmatch(r"#define _cffi_to_c_[iu]\d+ \(\(([\w ]+?)\(\*\)\(PyObject \*\)\)_cffi_exports\[(\d+)\]\)", mac)
        if not m:
            raise Untranslatable("%s: %s" % (what, mac))
        key = (sg == "i", int(bits))
        if HDR_RET.get(m.group(1)) != insts.get(key):
            raise Untranslatable("%s: return type of _cffi_to_c_%s%s differs from the backend's" % (what, sg, bits))
        idx.append((key, int(m.group(2))))
    mac = _macro(text, "_cffi_to_c_int")
    rows = re.findall(r"sizeof\(type\) == (\d+) \? \(\(\(type\)-1\) > 0 \? \(type\)_cffi_to_c_u(\d+)\(o\) "
                      r": \(type\)_cffi_to_c_i(\d+)\(o\)\) :", mac)
    rebuilt = ("#define _cffi_to_c_int(o, type) ((type)( "
               + " ".join("sizeof(type) == %s ? (((type)-1) > 0 ? (type)_cffi_to_c_u%s(o) : (type)_cffi_to_c_i%s(o)) :"
                          % r for r in rows)
               + ' (Py_FatalError("unsupported size for type " #type), (type)0)))')
    if mac != rebuilt or not rows:
        raise Untranslatable("%s: _cffi_to_c_int has an unexpected shape" % what)
    if _macro(text, "_cffi_from_c_int") != FROM_C_INT:
        raise Untranslatable("%s: _cffi_from_c_int has an unexpected text" % what)
    return idx, [tuple(int(x) for x in r) for r in rows]


# ------------------------------------------------------------------ integer constants: generic engine + _cffi_from_c_int_const
C_INT_TYPES = {"long long": "to_ll", "long": "to_ll", "unsigned long long": "to_ull", "unsigned long": "to_ull"}
C_CMP = {">": ">?", ">=": ">=?", "<": "<?", "<=": "<=?"}
PYLONG_FROM = {"PyLong_FromLong": "long", "PyLong_FromLongLong": "long long",
               "PyLong_FromUnsignedLongLong": "unsigned long long", "PyLong_FromUnsignedLong": "unsigned long"}


def translate_int_constants(src):
    """vengine_gen.py: the C text printed by _generate_gen_const for an integer constant and the Python fix-up of
    _load_constant; vengine_cpy.py: the macro _cffi_from_c_int_const.  Fail closed on any other shape."""
    import ast
    gtext = open(os.path.join(src, "cffi", "vengine_gen.py")).read()
    tree = ast.parse(gtext)
    cls = [n for n in tree.body if isinstance(n, ast.ClassDef) and n.name == "VGenericEngine"]
    if len(cls) != 1:
        raise Untranslatable("class VGenericEngine")
    fns = {f.name: f for f in cls[0].body if isinstance(f, ast.FunctionDef)}
    if "_generate_gen_const" not in fns or "_load_constant" not in fns:
        raise Untranslatable("_generate_gen_const / _load_constant not found")
    # --- the `elif is_int:` branch of _generate_gen_const: exactly these five prnt calls
    g = fns["_generate_gen_const"]
    top = [st for st in g.body if isinstance(st, ast.If) and ast.unparse(st.test) == "check_value is not None"]
    if len(top) != 1 or len(top[0].orelse) != 1 or not isinstance(top[0].orelse[0], ast.If) \
            or ast.unparse(top[0].orelse[0].test) != "is_int":
        raise Untranslatable("_generate_gen_const: `if check_value is not None: ... elif is_int:` not found")
    prints = []
    for st in top[0].orelse[0].body:
        if isinstance(st, ast.Assert):
            continue
        if not (isinstance(st, ast.Expr) and isinstance(st.value, ast.Call) and ast.unparse(st.value.func) == "prnt"
                and len(st.value.args) == 1):
            raise Untranslatable("_generate_gen_const int branch: unexpected statement %s" % ast.unparse(st)[:60])
        a = st.value.args[0]
        if isinstance(a, ast.BinOp) and isinstance(a.op, ast.Mod) and isinstance(a.left, ast.Constant):
            arg = ast.unparse(a.right)
            if arg not in ("funcname", "(name,)", "name"):
                raise Untranslatable("_generate_gen_const int branch: formatted with %s" % arg)
            prints.append(a.left.value.replace("%s", "F" if arg == "funcname" else "X"))
        elif isinstance(a, ast.Constant):
            prints.append(a.value)
        else:
            raise Untranslatable("_generate_gen_const int branch: prnt argument")
    if len(prints) != 5 or prints[0] != "int F(long long *out_value)" or prints[1] != "{" or prints[4] != "}":
        raise Untranslatable("_generate_gen_const int branch prints %r" % (prints,))
    m1 = re.fullmatch(r"\s*\*out_value = \(([a-z ]+)\)\(X\);", prints[2])
    m2 = re.fullmatch(r"\s*return \(X\) (<=|<|>=|>) 0;", prints[3])
    if not m1 or m1.group(1) not in C_INT_TYPES or not m2:
        raise Untranslatable("_generate_gen_const int branch prints %r" % (prints[2:4],))
    if m1.group(1) != "long long":
        raise Untranslatable("*out_value is a long long but is assigned a (%s)" % m1.group(1))
    # --- the `elif is_int:` branch of _load_constant
    l = fns["_load_constant"]
    top = [st for st in l.body if isinstance(st, ast.If) and ast.unparse(st.test) == "check_value is not None"]
    if len(top) != 1 or len(top[0].orelse) != 1 or not isinstance(top[0].orelse[0], ast.If) \
            or ast.unparse(top[0].orelse[0].test) != "is_int":
        raise Untranslatable("_load_constant: `elif is_int:` not found")
    body = top[0].orelse[0].body
    texts = [ast.unparse(st) for st in body]
    want_prefix = ["BType = self.ffi._typeof_locked('long long*')[0]",
                   "BFunc = self.ffi._typeof_locked('int(*)(long long*)')[0]",
                   "function = module.load_function(BFunc, funcname)",
                   "p = self.ffi.new(BType)", "negative = function(p)", "value = int(p[0])"]
    if texts[:6] != want_prefix or len(body) != 7 or not isinstance(body[6], ast.If) or body[6].orelse:
        raise Untranslatable("_load_constant int branch: %r" % (texts,))

    def pe(n):
        if isinstance(n, ast.BoolOp):
            op = "andb" if isinstance(n.op, ast.And) else "orb"
            t = pe(n.values[0])
            for v in n.values[1:]:
                t = "(%s %s %s)" % (op, t, pe(v))
            return t
        if isinstance(n, ast.UnaryOp) and isinstance(n.op, ast.Not):
            return "(negb %s)" % pe(n.operand)
        if isinstance(n, ast.Compare) and len(n.ops) == 1:
            ops = {ast.Lt: "<?", ast.LtE: "<=?", ast.Gt: ">?", ast.GtE: ">=?", ast.Eq: "=?"}
            if type(n.ops[0]) not in ops:
                raise Untranslatable("comparison in _load_constant")
            return "(%s %s %s)" % (pe(n.left), ops[type(n.ops[0])], pe(n.comparators[0]))
        if isinstance(n, ast.Name) and n.id in ("value", "negative"):
            return n.id
        if isinstance(n, ast.Constant) and type(n.value) is int:
            return "(%d)" % n.value
        if isinstance(n, ast.BinOp) and isinstance(n.op, (ast.LShift, ast.Mult, ast.Add, ast.Sub)):
            f = {ast.LShift: "Z.shiftl", ast.Mult: "Z.mul", ast.Add: "Z.add", ast.Sub: "Z.sub"}[type(n.op)]
            return "(%s %s %s)" % (f, pe(n.left), pe(n.right))
        if isinstance(n, ast.Call) and ast.unparse(n) == "self.ffi.sizeof(BLongLong)":
            return "(8)"      # BLongLong = typeof('long long'), checked below
        raise Untranslatable("_load_constant fix-up: %s" % ast.unparse(n)[:80])
    fix = body[6]
    ftexts = [ast.unparse(st) for st in fix.body]
    if len(fix.body) != 2 or ftexts[0] != "BLongLong = self.ffi._typeof_locked('long long')[0]" \
            or not (isinstance(fix.body[1], ast.AugAssign) and isinstance(fix.body[1].op, ast.Add)
                    and ast.unparse(fix.body[1].target) == "value"):
        raise Untranslatable("_load_constant fix-up body: %r" % (ftexts,))
    cond, add = pe(fix.test), pe(fix.body[1].value)
    # --- vengine_cpy.py: _cffi_from_c_int_const
    vtext = open(os.path.join(src, "cffi", "vengine_cpy.py")).read()
    mm = re.search(r"#define _cffi_from_c_int_const\(x\)((?:[^\n]*\\\n)*[^\n]*)\n", vtext)
    if not mm:
        raise Untranslatable("_cffi_from_c_int_const not found")
    mac = re.sub(r"\\\n", " ", mm.group(1))
    mac = re.sub(r"\s+", "", mac)
    ty = r"\(((?:unsigned)?(?:longlong|long))\)"
    pat = (r"\(\(\(x\)(>|>=)0\)\?\(%s\(x\)(<=|<)%sLONG_MAX\)\?(\w+)\(%s\(x\)\):(\w+)\(%s\(x\)\):"
           r"\(%s\(x\)(>=|>)%sLONG_MIN\)\?(\w+)\(%s\(x\)\):(\w+)\(%s\(x\)\)\)" % ((ty,) * 8))
    m = re.fullmatch(pat, mac)
    if not m:
        raise Untranslatable("_cffi_from_c_int_const has an unexpected shape: %s" % mac[:200])
    (op0, t1, op1, t1b, f1, c1, f2, c2, t3, op3, t3b, f3, c3, f4, c4) = m.groups()

    def cty(t):
        t = t.replace("unsigned", "unsigned ").replace("longlong", "long long")
        if t not in C_INT_TYPES:
            raise Untranslatable("C type %s" % t)
        return t
    if cty(t1) != cty(t1b) or cty(t3) != cty(t3b):
        raise Untranslatable("_cffi_from_c_int_const compares values of different types")

    def build(f, c):
        if f not in PYLONG_FROM:
            raise Untranslatable("_cffi_from_c_int_const calls %s" % f)
        if C_INT_TYPES[PYLONG_FROM[f]] != C_INT_TYPES[cty(c)]:
            raise Untranslatable("%s is passed a (%s)" % (f, cty(c)))
        return "(%s x)" % C_INT_TYPES[cty(c)]
    out = [
        "\n(* vengine_gen.py _generate_gen_const, integer constant X: `*out_value = (long long)(X); return (X) %s 0;`" % m2.group(1),
        "   (the comparison is done in X's own promoted type, where it agrees with the mathematical one) *)",
        "Definition vgen_out_value (x : Z) : Z := %s x." % C_INT_TYPES[m1.group(1)],
        "Definition vgen_return (x : Z) : bool := (x %s 0)." % C_CMP[m2.group(1)],
        "(* vengine_gen.py _load_constant: negative = function(p); value = int(p[0]); if %s: value += %s *)"
        % (ast.unparse(fix.test), ast.unparse(fix.body[1].value)),
        "Definition vgen_load_fixup (value : Z) (negative : bool) : Z :=\n  if %s then value + %s else value." % (cond, add),
        "(* vengine_cpy.py #define _cffi_from_c_int_const(x); PyLong_FromT(v) is the Python int v; LONG_MAX/LONG_MIN: sizeof(long) = 8 *)",
        "Definition vcpy_from_c_int_const (x : Z) : Z :=",
        "  if (x %s 0) then (if (%s x %s %s LONG_MAX) then %s else %s)" % (
            C_CMP[op0], C_INT_TYPES[cty(t1)], C_CMP[op1], C_INT_TYPES[cty(t1)], build(f1, c1), build(f2, c2)),
        "  else (if (%s x %s %s LONG_MIN) then %s else %s)." % (
            C_INT_TYPES[cty(t3)], C_CMP[op3], C_INT_TYPES[cty(t3)], build(f3, c3), build(f4, c4)),
    ]
    return "\n".join(out)


def translate_gen():
    src = os.path.join(vlib.REPO, "src")
    bk = open(os.path.join(src, "c", "_cffi_backend.c")).read()
    sm = _macro(bk, "_cffi_to_c_SIGNED_FN")
    m = re.fullmatch(r"#define _cffi_to_c_SIGNED_FN\(RETURNTYPE, SIZE\) static RETURNTYPE _cffi_to_c_i##SIZE\(PyObject \*obj\) \{ "
                     r"PY_LONG_LONG tmp = _my_PyLong_AsLongLong\(obj\); if \(\(tmp > (?P<hi>.+?)\) \|\| \(tmp < (?P<lo>.+?)\)\) "
                     r"if \(!PyErr_Occurred\(\)\) return \(RETURNTYPE\)_convert_overflow\(obj, #SIZE \"-bit int\"\); "
                     r"return \(RETURNTYPE\)tmp; \}", sm)
    if not m:
        raise Untranslatable("_cffi_to_c_SIGNED_FN has an unexpected shape")
    um = _macro(bk, "_cffi_to_c_UNSIGNED_FN")
    m2 = re.fullmatch(r"#define _cffi_to_c_UNSIGNED_FN\(RETURNTYPE, SIZE\) static RETURNTYPE _cffi_to_c_u##SIZE\(PyObject \*obj\) \{ "
                      r"unsigned PY_LONG_LONG tmp = _my_PyLong_AsUnsignedLongLong\(obj, 1\); if \(tmp > (?P<hi>.+?)\) "
                      r"if \(!PyErr_Occurred\(\)\) return \(RETURNTYPE\)_convert_overflow\(obj, #SIZE \"-bit unsigned int\"\); "
                      r"return \(RETURNTYPE\)tmp; \}", um)
    if not m2:
        raise Untranslatable("_cffi_to_c_UNSIGNED_FN has an unexpected shape")
    shifts = []
    terms = []
    for text, want in ((m.group("hi"), "ll"), (m.group("lo"), "ll"), (m2.group("hi"), "ull")):
        p = BoundParser(text)
        e, t = p.parse()
        if t != want:
            raise Untranslatable("bound %r has type %s, compared with a %s" % (text, t, want))
        terms.append(e)
        shifts += p.shifts
    insts = {}
    inst_list = []
    for kind, rt, size in re.findall(r"^_cffi_to_c_(SIGNED|UNSIGNED)_FN\(([\w ]+), (\d+)\)\s*$", bk, re.M):
        if rt not in RET:
            raise Untranslatable("RETURNTYPE %r" % rt)
        insts[(kind == "SIGNED", int(size))] = RET[rt]
        inst_list.append((kind == "SIGNED", int(size)) + RET[rt])
    if not inst_list:
        raise Untranslatable("no instantiation of _cffi_to_c_*_FN")
    m3 = re.search(r"^static void \*cffi_exports\[\] = \{(.*?)\};", bk, re.M | re.S)
    if not m3:
        raise Untranslatable("cffi_exports[]")
    exports = []
    for i, name in enumerate(x.strip() for x in m3.group(1).split(",")):
        mm = re.fullmatch(r"_cffi_to_c_([iu])(\d+)", name)
        if mm:
            exports.append((i, (mm.group(1) == "i", int(mm.group(2)))))
    vtext = open(os.path.join(src, "cffi", "vengine_cpy.py")).read()
    m4 = re.search(r"^cffimod_header = r'''(.*?)'''", vtext, re.M | re.S)
    if not m4:
        raise Untranslatable("vengine_cpy.cffimod_header")
    vidx, vdisp = header_tables(m4.group(1), "vengine_cpy header", insts)
    iidx, idisp = header_tables(open(os.path.join(src, "cffi", "_cffi_include.h")).read(), "_cffi_include.h", insts)

    def conv(k):
        return "(%s, %d)" % (cbool(k[0]), k[1])
    nc = c12._nocomment
    out = ["""(* C33/Gen.v — REGENERATED on every run by tools/props/c33.py:regen from
     /repo/src/c/_cffi_backend.c     (_cffi_to_c_SIGNED_FN / _cffi_to_c_UNSIGNED_FN bodies, their
                                      instantiations, the cffi_exports[] table)
     /repo/src/cffi/vengine_cpy.py   (cffimod_header: _cffi_to_c_int dispatch, _cffi_to_c_iN/uN
                                      export indices, _cffi_from_c_int)
     /repo/src/cffi/_cffi_include.h  (the same macros as used by set_source() modules)
     /repo/src/cffi/vengine_gen.py   (_generate_gen_const / _load_constant, integer constants; vengine_cpy.py
                                      _cffi_from_c_int_const)
   Do not edit: this committed copy is the snapshot used when the translator fails. *)
From Coq Require Import ZArith List.
Import ListNotations.
From Cffi Require Import C33.Spec.
Local Open Scope Z_scope.
"""]
    out.append("(* _cffi_backend.c: tmp > %s *)" % nc(m.group("hi")))
    out.append("Definition to_c_signed_hi (SIZE : Z) : Z := %s." % terms[0])
    out.append("(* _cffi_backend.c: tmp < %s *)" % nc(m.group("lo")))
    out.append("Definition to_c_signed_lo (SIZE : Z) : Z := %s." % terms[1])
    out.append("(* _cffi_backend.c: tmp > %s *)" % nc(m2.group("hi")))
    out.append("Definition to_c_unsigned_hi (SIZE : Z) : Z := %s." % terms[2])
    out.append("(* shift counts occurring above *)")
    out.append("Definition shift_counts (SIZE : Z) : list Z := [%s].\n" % "; ".join(shifts))
    out.append("(* instantiations: (signed, SIZE, bits of RETURNTYPE, RETURNTYPE signed) *)")
    out.append("Definition to_c_instances : list (bool * Z * Z * bool) :=\n  [%s].\n" % "; ".join(
        "(%s, %d, %d, %s)" % (cbool(a), b, c, cbool(d)) for a, b, c, d in inst_list))
    out.append("(* cffi_exports[]: index -> converter (signed, SIZE) *)")
    out.append("Definition backend_exports : list (Z * (bool * Z)) :=\n  [%s].\n" % "; ".join(
        "(%d, %s)" % (i, conv(k)) for i, k in exports))
    out.append("(* #define _cffi_to_c_iN/uN ((...)_cffi_exports[k]) : converter -> index *)")
    for nm, idx in (("vengine", vidx), ("include", iidx)):
        out.append("Definition %s_export_index : list ((bool * Z) * Z) :=\n  [%s]." % (nm, "; ".join(
            "(%s, %d)" % (conv(k), i) for k, i in idx)))
    out.append("\n(* _cffi_to_c_int(o, type): sizeof(type) == n ? (unsigned ? uA : iB) : ...   as (n, A, B) *)")
    for nm, disp in (("vengine", vdisp), ("include", idisp)):
        out.append("Definition %s_to_c_int_dispatch : list (Z * Z * Z) :=\n  [%s]." % (nm, "; ".join(
            "(%d, %d, %d)" % r for r in disp)))
    out.append("\n(* _cffi_from_c_int(x, type) has the expected text in both headers *)")
    out.append("Definition vengine_from_c_int_standard : bool := true.")
    out.append("Definition include_from_c_int_standard : bool := true.")
    out.append(translate_int_constants(src))
    return "\n".join(out) + "\n"


def regen(ctx):
    try:
        text = translate_gen()
    except (Untranslatable, OSError) as e:
        ctx.translator("C33/Gen.v", "fallback: %s" % e)
        return
    old = open(GEN).read() if os.path.exists(GEN) else None
    if old == text:
        ctx.translator("C33/Gen.v", "unchanged")
    else:
        with vlib.CoqLock():
            with open(GEN, "w") as f:
                f.write(text)
        ctx.translator("C33/Gen.v", "regenerated")


# =============================================================================== cases
PTR_C = r"""
#include <string.h>
struct c33pp { int a; int b; long c; };
union c33pu { int i; long l; char c[12]; };
struct c33big { int a; char pad[700]; int z; };
void c33_dirty_stack(void) { volatile char buf[16384]; memset((void *)buf, 0xAB, sizeof buf); }
long c33_pp_sum(struct c33pp *p, int n) { unsigned long s = 0; int i;
  for (i = 0; i < n; i++) s = s * 31 + (unsigned long)p[i].a * 7UL + (unsigned long)p[i].b * 13UL + (unsigned long)p[i].c; return (long)s; }
long c33_pu_sum(union c33pu *p, int n) { unsigned long s = 0; int i;
  for (i = 0; i < n; i++) s = s * 31 + (unsigned long)p[i].l + (unsigned long)p[i].c[8] * 3UL + (unsigned long)p[i].c[11] * 5UL; return (long)s; }
long c33_arr_sum(int (*p)[4], int n) { unsigned long s = 0; int i, j;
  for (i = 0; i < n; i++) for (j = 0; j < 4; j++) s = s * 7 + (unsigned long)p[i][j]; return (long)s; }
long c33_big_sum(struct c33big *p, int n) { unsigned long s = 0; int i;
  for (i = 0; i < n; i++) s = s * 31 + (unsigned long)p[i].a + (unsigned long)p[i].pad[0] * 3UL + (unsigned long)p[i].pad[350] * 5UL + (unsigned long)p[i].pad[699] * 7UL + (unsigned long)p[i].z * 11UL;
  return (long)s; }
struct c33pp c33_mk(int a, long c) { struct c33pp r; r.a = a; r.b = a + 1; r.c = c; return r; }
union c33pu c33_mku(long l) { union c33pu r; memset(&r, 0, sizeof r); r.l = l; return r; }
long c33_pp_val(struct c33pp v) { return (long)v.a * 1000000L + (long)v.b * 1000L + v.c; }
long c33_pu_val(union c33pu v) { return v.l; }
"""
PTR_CDEF = """
struct c33pp { int a; int b; long c; };
union c33pu { int i; long l; char c[12]; };
struct c33big { int a; char pad[700]; int z; };
void c33_dirty_stack(void);
long c33_pp_sum(struct c33pp *, int); long c33_pu_sum(union c33pu *, int);
long c33_arr_sum(int (*)[4], int); long c33_big_sum(struct c33big *, int);
struct c33pp c33_mk(int, long); union c33pu c33_mku(long);
long c33_pp_val(struct c33pp); long c33_pu_val(union c33pu);
"""


def ptr_calls(rng):
    """lists of partial initialisers: <= 640 bytes (alloca path of the CPython engine) and > 640 bytes"""
    k = rng.randint(1, 100)
    calls = [["c33_pp_sum", [[[k]], 1]], ["c33_pp_sum", [[{"a": k}], 1]], ["c33_pp_sum", [[{"c": k}], 1]],
             ["c33_pp_sum", [[[1], [2, 3], {"b": k}], 3]], ["c33_pp_sum", [[[k]] * 50, 50]],
             ["c33_pu_sum", [[[k]], 1]], ["c33_pu_sum", [[[k], [k + 1]], 2]], ["c33_pu_sum", [[[k]] * 45, 45]],
             ["c33_arr_sum", [[[k]], 1]], ["c33_arr_sum", [[[1, 2], [k]], 2]], ["c33_arr_sum", [[[k]] * 41, 41]],
             ["c33_big_sum", [[[k]], 1]], ["c33_big_sum", [[{"z": k}], 1]], ["c33_big_sum", [[[k], {"z": 3}], 2]]]
    return calls


def ptr_expected(fname, args):
    """what C computes when every field the initialiser does not name is zero"""
    items, n = args
    s = 0
    for it in items[:n]:
        if fname == "c33_pp_sum":
            f = dict(a=0, b=0, c=0)
            f.update(it if isinstance(it, dict) else dict(zip("abc", it)))
            s = s * 31 + f["a"] * 7 + f["b"] * 13 + f["c"]
        elif fname == "c33_pu_sum":
            s = s * 31 + it[0]          # union initialised through its first member (int i); little endian
        elif fname == "c33_arr_sum":
            row = list(it) + [0] * (4 - len(it))
            for v in row:
                s = s * 7 + v
        else:
            f = dict(a=0, z=0)
            f.update(it if isinstance(it, dict) else dict(zip(["a"], it)))
            s = s * 31 + f["a"] + f["z"] * 11
    s %= 1 << 64                       # unsigned long arithmetic, returned as long
    return s - (1 << 64) if s >= (1 << 63) else s


def generate(ctx):
    n = ctx.n(3, 100)
    out = []
    for i in range(n):
        m = c12.gen_module(ctx.rng, i, (8, 3, 8, 4, 5, 2), for_verify=True, prefix="_c33_")
        m["raw_c"], m["raw_cdef"], m["ptr_calls"] = PTR_C, PTR_CDEF, ptr_calls(ctx.rng)
        # sequences of calls of functions returning a struct / union by value; all observations at the end
        m["ret_seq"] = [ctx.rng.randint(1, 900) for _ in range(ctx.rng.choice([2, 3, 5]))]
        out.append(m)
    return out


def diff(a, b, path=""):
    """first difference between two JSON values, or None"""
    if type(a) != type(b):
        return "%s: %r vs %r" % (path, a, b)
    if isinstance(a, dict):
        for k in sorted(set(a) | set(b)):
            if k not in a or k not in b:
                return "%s/%s: present on one side only" % (path, k)
            d = diff(a[k], b[k], path + "/" + str(k))
            if d:
                return d
        return None
    if isinstance(a, list):
        if len(a) != len(b):
            return "%s: lengths %d vs %d" % (path, len(a), len(b))
        for i, (x, y) in enumerate(zip(a, b)):
            d = diff(x, y, "%s[%d]" % (path, i))
            if d:
                return d
        return None
    return None if a == b else "%s: %r vs %r" % (path, a, b)


def evaluate(ctx, cases):
    if not cases:
        return
    s = ctx.scratch()
    out, p = s.run_worker("c33_worker.py", dict(cases=cases, jobs=6), timeout=3000)
    if out is None:
        ctx.obligation_broken("C33 worker", (p.stderr or p.stdout)[-3000:])
        return
    convcases, convowner, structcases, structowner = [], [], [], []
    for m, r in zip(cases, out["results"]):
        routes = r["routes"]
        bad = False
        if r.get("facts_error") or not r.get("facts"):
            ctx.obligation_broken("C33 harness (gcc facts program)", str(r.get("facts_error")))
            continue
        for name, rr in routes.items():
            if "harness_error" in rr or ("crash" in rr and "did not finish" in rr["crash"]):
                ctx.obligation_broken("C33 harness (%s, %s)" % (m["name"], name), rr.get("harness_error") or rr["crash"])
                bad = True
            elif "crash" in rr:
                ctx.violation(m, "%s: building/probing ends the Python process: %s" % (name, rr["crash"]))
                bad = True
            elif "build_error" in rr:
                ctx.violation(m, "matching cdef and C source, but the %s build fails: %s: %s"
                              % (name, rr["build_error"], rr["msg"][-300:]))
                bad = True
        if bad:
            continue
        ref = routes["set_source"]["probe"]
        for name in c33_routes():
            for key, got in sorted(routes[name]["probe"].pop("ptrcalls", {}).items()):
                ctx.count()
                idx = int(key.split(":")[0])
                fname, args = m["ptr_calls"][idx]
                want = ptr_expected(fname, args)
                ctx.hist("ptr_arg", fname)
                ctx.nontrivial(("ptr", fname, args))
                if got != {"ok": want}:
                    ctx.violation(dict(c12.single(m), raw_c=m["raw_c"], raw_cdef=m["raw_cdef"], ptr_calls=[m["ptr_calls"][idx]]),
                                  "%s: %s%r: fields not named by the initialiser must be zero: C computed %r, expected %d"
                                  % (name, fname, tuple(args), got, want))
        for name in c33_routes():
            got = routes[name]["probe"].pop("retseq", None)
            if got is None:
                continue
            ctx.count()
            vals = m["ret_seq"]
            want = {"ok": dict(structs=[[v, v + 1, v * 10] for v in vals], unions=[v * 7 for v in vals],
                               shared=False, pass_first=vals[0] * 1000000 + (vals[0] + 1) * 1000 + vals[0] * 10,
                               pass_first_union=vals[0] * 7, kept_after_more=[vals[0], vals[0] + 1, vals[0] * 10])}
            ctx.nontrivial(("retseq", vals))
            if got != want:
                ctx.violation(dict(c12.single(m), raw_c=m["raw_c"], raw_cdef=m["raw_cdef"], ptr_calls=[], ret_seq=vals),
                              "%s: results of struct/union-returning calls %r inspected after all calls: %r, expected %r"
                              % (name, vals, got, want))
        for name in ("verify_cpy", "verify_gen"):
            pr = routes[name]["probe"]
            for section in sorted(ref):
                for item in sorted(ref[section]):
                    ctx.count()
                    d = diff(pr[section].get(item), ref[section][item], "%s/%s" % (section, item))
                    if d:
                        key = {"consts": "consts", "enums": "enums", "structs": "structs", "vars": "vars",
                               "funcs": "funcs", "typedefs": "typedefs"}[section]
                        case = c12.single(m, **{key: [x for x in m[key] if x["name"] == item]})
                        ctx.violation(case, "%s differs from set_source(): %s" % (name, d))
        # the set_source build itself against gcc (layouts are the compiler's)
        facts = r["facts"]
        for st in m["structs"]:
            names = [f[0] for f in st["dfields"]]
            real = dict(size=int(facts["S|" + st["name"]][0]), align=int(facts["S|" + st["name"]][1]),
                        fields=[[int(x) for x in facts["S|%s|%s" % (st["name"], n)]] for n in names])
            for name in c33_routes():
                sp = routes[name]["probe"]["structs"][st["name"]]
                ctx.count()
                if any("err" in sp[k] for k in ("sizeof", "alignof", "fields")):
                    ctx.violation(c12.single(m, structs=[st]), "%s: matching struct %s raises: %r" % (name, st["name"], sp))
                    continue
                impl = dict(size=sp["sizeof"]["ok"], align=sp["alignof"]["ok"], fields=[[o, z] for _, o, z in sp["fields"]["ok"]])
                if impl != real:
                    ctx.violation(c12.single(m, structs=[st]), "%s: struct %s layout %r is not the compiler's %r"
                                  % (name, st["name"], impl, real))
                if name == "verify_cpy":
                    decl = c12.struct_decl(st, facts)
                    inp = "(%s, %s, %s, %s, mkreport %s %s %s)" % (
                        cbool(st["partial"]), cbool(st["packed"]), cbool(st["union"]),
                        clist(["mkfdecl %s %s" % (cz(a), cz(b)) for a, b in decl]),
                        clist(["mkfrep %s %s" % (cz(o), cz(z)) for o, z in real["fields"]]), cz(real["size"]), cz(real["align"]))
                    structcases.append((inp, "VOk " + c12.layout_literal(impl["fields"], impl["size"], impl["align"])))
                    structowner.append(c12.single(m, structs=[st]))
            ctx.hist("struct", "%s/%s" % (st["mut"], "partial" if st["partial"] else "checked"))
            ctx.nontrivial(("struct", st["cfields"], st["dfields"], st["partial"], st["packed"]))
        # integer argument conversion, CPython engine, against the model
        for f in m["funcs"]:
            fp = routes["verify_cpy"]["probe"]["funcs"][f["name"]]
            for i, vrepr, oc in fp["conv"]:
                if i == "arity" or f["args"][i] not in W.INT_TYPES:
                    continue
                try:
                    v = int(vrepr)
                except ValueError:
                    continue
                size, signed = W.INT_TYPES[f["args"][i]]
                if "ok" in oc:
                    exp = "Some (COk %s)" % cz(v)
                elif oc["err"] == "OverflowError":
                    exp = "Some (CErr OverflowError)"
                else:
                    ctx.mismatch(c12.single(m, funcs=[f]), "%s arg %d = %s: outcome %r outside the model" % (f["name"], i, vrepr, oc),
                                 "C33.Model.vengine_to_c_int vs verify() module")
                    continue
                convcases.append(("(%s, %s, %s)" % (cz(size), cbool(signed), cz(v)), exp))
                convowner.append(c12.single(m, funcs=[f]))
                ctx.nontrivial(("conv", size, signed, v))
                ctx.hist("int_arg", "%d/%s/%s" % (size, "s" if signed else "u", "ok" if "ok" in oc else oc["err"]))
    for cases_, owner, fexpr, eqb, corr in (
            (convcases, convowner, "fun p => match p with (sz, sg, v) => vengine_to_c_int sz sg v end", "cres_eqb",
             "C33.Model.vengine_to_c_int vs verify() module (accept/reject of integer arguments)"),
            (structcases, structowner,
             "fun p : bool * bool * bool * list fdecl * report => match p with (pa, pk, u, d, r) => if pa then verify_partial_struct u d r else verify_checked_struct pk u d r end",
             "vres_eqb", "C33.Model.verify_*_struct vs verify() module")):
        ty = "option cres" if eqb == "cres_eqb" else "vres"
        badi, outs, err = vlib.coq_mismatches(["C12.Gen", "C12.Model", "C33.Spec", "C33.Gen", "C33.Model"], fexpr, eqb,
                                              [(i, "(%s : %s)" % (o, ty)) for i, o in cases_], shard=400)
        if err:
            ctx.obligation_broken("C33 model evaluation", err)
        for i in badi:
            ctx.mismatch(owner[i], "model = %s, observed %s on input %s" % (outs.get(i), cases_[i][1], cases_[i][0][:300]), corr)
    ctx.extra["model_evaluations"] = dict(int_args=len(convcases), structs=len(structcases))
    ctx.sample(c12.single(cases[0], funcs=cases[0]["funcs"][:2], structs=cases[0]["structs"][:1]))


def c33_routes():
    return ["verify_cpy", "verify_gen", "set_source"]


def run(ctx):
    ctx.cov["rule"] = (
        "modules from the C12 generator restricted to matching declarations and verify()-supported syntax (8 constants, "
        "3 enums, 8 structs/unions incl. '...' with swapped/dropped fields, 4 globals, 5 functions, 2 typedefs), each "
        "built by ffi.verify() with the CPython engine, with force_generic_engine=True and by set_source()/compile(); "
        "every item probed identically (values, layouts, global read/write/address, call results, and for every "
        "argument the outcomes of lo, hi, lo-1, hi+1, +-2^70, str, float, None, bool). Non-trivial = distinct "
        "(size, signedness, value) integer-argument probes and distinct struct declarations.")
    ctx.assumptions += [
        "hand-written model C33/Model.v of the converter functions and of model.finish_backend_type/_loaded_struct_or_union "
        "(tied by this run's differential test); bounds, instantiations, export and dispatch tables regenerated (C33/Gen.v)",
        "C33/Spec.v: unsigned long long arithmetic is modulo 2^64, conversion to long long is two's complement",
        "the generic engine's conversions are libffi/backend conversions (property C03/C13), compared here only by running",
        "C12/Model.v complete/natural for the layout part"]
    evaluate(ctx, generate(ctx))


MANIFEST = dict(
    technique="Coq proof (integer converters of the generated verify() header over regenerated bound expressions and "
              "dispatch/export tables; fixedlayout handling reduced to the C12 layout lemma) + regeneration + three-way "
              "differential builds (verify CPython engine, verify generic engine, set_source)",
    text="Proof: for every integer type size 1/2/4/8, signedness and every Python int, the CPython engine's argument "
         "conversion accepts exactly the values in the type's range and passes them unchanged (OverflowError otherwise); "
         "set_source() modules dispatch to the same backend functions; results convert back to the C value; verify() "
         "accepts a non-partial struct exactly when set_source() does and both then hold the compiler's layout; for '...' "
         "structs verify() performs the same backend call as the set_source route. Integer constants through all three "
         "routes (C33_int_constant_routes_agree, C33_vgen_const_id, C33_vcpy_const_id): the generic engine's generated C "
         "getter (`*out_value = (long long)(X); return (X) <= 0;`) + _load_constant's Python fix-up, the CPython engine's "
         "_cffi_from_c_int_const, and set_source()'s C12.lib_constant all yield the constant's value on [-2^63, 2^64) — "
         "the generic engine's first (and only) model. Its argument/result conversions have NO model: their "
         "agreement with set_source(), like function results, globals, non-integer constants and pointer/struct arguments, "
         "is decided by the correspondence run only. Tie: Gen.v regenerated from the sources (now incl. vengine_gen.py "
         "_generate_gen_const / _load_constant int branches and the _cffi_from_c_int_const macro, fail closed); three builds per case "
         "compared on all observations (incl. pointer parameters given partial initialisers).",
    note="Partial: engines and compiler exercised by sampling; generic-engine conversions are not modelled (compared by "
         "running); bitfields, open arrays and anonymous structs not generated.",
    design_ref="DESIGN.md §4 C33")
