"""C31: facts about src/cffi/cparser.py regenerated into coq/C31/Gen.v on every run (fail closed).

  * the pattern text and the flags of the five regular expressions that C31/Model.v models by hand
    (_r_comment, _r_define, _r_line_directive, _r_words, _r_other_whitespace): `re.compile(<str literals>, <re.X | re.Y>)`
  * every top-level statement of `_preprocess`, in source order, as normalised source text (ast.unparse: comments and
    layout removed): the ORDER of the steps and the text of the modelled ones (`' ' + m.group().count('\\n') * '\\n'`,
    `macrovalue.replace('\\\\\\n', '').strip()`)
  * the statements of `_remove_line_directives`, `_put_back_line_directives` (placeholder literal '#line@%d', s[6:],
    the `except (ValueError, IndexError)` tuple) and of `_common_type_names`
  * the statements of `Parser._parse` from its first one up to (excluding) `csourcelines = []`: that `_preprocess` is
    called BEFORE `_common_type_names(csource)` and that the latter receives the preprocessed text

The meaning is given in coq/C31/Order.v: each statement text is looked up in a table of the statements the model knows
(unknown text = stage `Unknown`, on which the interpreters get stuck), and C31_preprocess_order_tie /
C31_parse_front_tie prove that interpreting the regenerated statement lists IS the model's `preprocess` / `parse_front`.
Anything that does not have the expected shape raises RegenError: the caller reports a broken obligation and leaves
the committed snapshot in place.
"""
import ast
import os
import re

FLAG_VALUES = {"IGNORECASE": 2, "MULTILINE": 8, "DOTALL": 16}
REGEXES = ["_r_comment", "_r_define", "_r_line_directive", "_r_words", "_r_other_whitespace"]
FUNCS = ["_remove_line_directives", "_put_back_line_directives", "_preprocess", "_common_type_names"]


class RegenError(Exception):
    pass


def cstr(s):
    for ch in s:
        if ord(ch) > 127:
            raise RegenError("non-ASCII character in a regenerated string: %r" % s[:60])
    return "[" + ";".join(str(ord(ch)) for ch in s) + "]" if s else "[]"


def com(st, n=150):
    """text usable inside a Coq comment (no comment delimiters, no string quotes)"""
    return st.replace("(*", "( *").replace("*)", "* )").replace('"', "''").replace("\n", " | ")[:n]


def flags_value(node):
    if node is None:
        return 0
    if isinstance(node, ast.BinOp) and isinstance(node.op, ast.BitOr):
        return flags_value(node.left) | flags_value(node.right)
    if (isinstance(node, ast.Attribute) and isinstance(node.value, ast.Name) and node.value.id == "re"
            and node.attr in FLAG_VALUES):
        return FLAG_VALUES[node.attr]
    raise RegenError("flags of re.compile are not an |-expression of re.IGNORECASE/MULTILINE/DOTALL: %s" % ast.unparse(node))


def extract(src):
    try:
        tree = ast.parse(src)
    except SyntaxError as e:
        raise RegenError("cparser.py does not parse: %s" % e)
    facts = dict(regex={}, funcs={}, parse=None)
    for node in tree.body:
        if isinstance(node, ast.Assign) and len(node.targets) == 1 and isinstance(node.targets[0], ast.Name):
            name = node.targets[0].id
            if name in REGEXES:
                v = node.value
                if not (isinstance(v, ast.Call) and ast.unparse(v.func) == "re.compile" and 1 <= len(v.args) <= 2
                        and not v.keywords and isinstance(v.args[0], ast.Constant) and isinstance(v.args[0].value, str)):
                    raise RegenError("%s is not re.compile(<string literal>[, flags])" % name)
                if name in facts["regex"]:
                    raise RegenError("%s is assigned twice" % name)
                facts["regex"][name] = (v.args[0].value, flags_value(v.args[1] if len(v.args) == 2 else None))
        elif isinstance(node, ast.FunctionDef) and node.name in FUNCS:
            if node.name in facts["funcs"]:
                raise RegenError("%s is defined twice" % node.name)
            if [a.arg for a in node.args.args] != {"_remove_line_directives": ["csource"],
                                                  "_put_back_line_directives": ["csource", "line_directives"],
                                                  "_preprocess": ["csource"],
                                                  "_common_type_names": ["csource"]}[node.name]:
                raise RegenError("%s has unexpected parameters" % node.name)
            facts["funcs"][node.name] = [ast.unparse(st) for st in node.body]
        elif isinstance(node, ast.ClassDef) and node.name == "Parser":
            for sub in node.body:
                if isinstance(sub, ast.FunctionDef) and sub.name == "_parse":
                    if facts["parse"] is not None:
                        raise RegenError("Parser._parse is defined twice")
                    if [a.arg for a in sub.args.args] != ["self", "csource"]:
                        raise RegenError("Parser._parse has unexpected parameters")
                    stmts = [ast.unparse(st) for st in sub.body]
                    if "csourcelines = []" not in stmts:
                        raise RegenError("Parser._parse: statement `csourcelines = []` not found")
                    front = stmts[:stmts.index("csourcelines = []")]
                    rest = stmts[stmts.index("csourcelines = []"):]
                    # what is handed to pycparser is the variable `csource` of the front part, and nothing after the
                    # front part may call the two functions again or rebind csource before it is appended
                    if "csourcelines.append(csource)" not in rest:
                        raise RegenError("Parser._parse: `csourcelines.append(csource)` not found after the front part")
                    upto = rest[:rest.index("csourcelines.append(csource)")]
                    for st in upto:
                        if re.search(r"\b(_preprocess|_common_type_names)\b|\bcsource\b\s*(,\s*\w+\s*)?=[^=]", st):
                            raise RegenError("Parser._parse: csource is rebound or re-processed after the front part: %s" % st)
                    facts["parse"] = front
    for n in REGEXES:
        if n not in facts["regex"]:
            raise RegenError("%s = re.compile(...) not found at module level" % n)
    for n in FUNCS:
        if n not in facts["funcs"]:
            raise RegenError("def %s not found at module level" % n)
    if facts["parse"] is None:
        raise RegenError("Parser._parse not found")
    # every use of the two functions in the module: exactly one call each, inside the front part of _parse
    for fn in ("_preprocess", "_common_type_names"):
        calls = len(re.findall(r"(?<![\w.])%s\(" % fn, "\n".join(
            ast.unparse(n) for n in tree.body if not (isinstance(n, ast.FunctionDef) and n.name == fn))))
        infront = sum(st.count(fn + "(") for st in facts["parse"])
        if calls != 1 or infront != 1:
            raise RegenError("%s is called %d time(s) in cparser.py, %d in the front part of Parser._parse (expected 1, 1)"
                             % (fn, calls, infront))
    return facts


def render(facts):
    out = ["(* GENERATED by tools/props/c31_regen.py from src/cffi/cparser.py -- do not edit.",
           "   Texts are lists of code points; statements are ast.unparse() of the top-level statements, in source order. *)",
           "From Coq Require Import List NArith.", "Import ListNotations.", "Open Scope N_scope.", ""]
    for n in REGEXES:
        pat, fl = facts["regex"][n]
        out.append("(* %s = re.compile(%s, %d) *)" % (n, com(repr(pat)), fl))
        out.append("Definition %s_src : list N := %s." % (n[1:], cstr(pat)))
        out.append("Definition %s_flags : N := %d." % (n[1:], fl))
    out.append("")
    for n in FUNCS:
        out.append("(* def %s *)" % n)
        out.append("Definition %s_stmts : list (list N) := [" % n[1:])
        body = facts["funcs"][n]
        for i, st in enumerate(body):
            out.append("  (* %s *)" % com(st))
            out.append("  %s%s" % (cstr(st), ";" if i + 1 < len(body) else ""))
        out.append("].")
        out.append("")
    out.append("(* Parser._parse, from its first statement up to (excluding) `csourcelines = []`; after that csource is only")
    out.append("   appended to the text handed to pycparser *)")
    out.append("Definition parse_front_stmts : list (list N) := [")
    for i, st in enumerate(facts["parse"]):
        out.append("  (* %s *)" % com(st))
        out.append("  %s%s" % (cstr(st), ";" if i + 1 < len(facts["parse"]) else ""))
    out.append("].")
    return "\n".join(out) + "\n"


def translate(repo):
    with open(os.path.join(repo, "src", "cffi", "cparser.py")) as f:
        return render(extract(f.read()))


if __name__ == "__main__":
    print(translate(os.environ.get("VERIF_REPO", "/repo")))
