"""C08 — C type names round-trip through getctype and typeof.

Tie: (regeneration) the literals of FFI.getctype are re-extracted from api.py into coq/C08/Gen.v after a
shape check of the function (fail closed -> snapshot); (correspondence) on both FFIs (in-line, out-of-line
ABI module), over the C07 type generator x declarator suffixes:
   model cname T            == ct.cname               (both FFIs)
   model getctype_c T x     == ffi_ool.getctype(T, x)
   model getctype_py T x    == ffi_inline.getctype(T, x)
Property predicate on the implementation:
   typeof(getctype(T)) is T;  typeof(getctype(T, x)) is the type the declarator x builds over T (or x
   builds an invalid type and typeof refuses);  gcc: `getctype(T, 'v');` compiles in the declaration
   context and sizeof v == ffi.sizeof(T) (one translation unit per batch).
"""
import ast
import os
import subprocess

from lib import vlib
from props import c07_gen as G

ID = "C08"

# ------------------------------------------------------------------------------------------ regeneration

TEMPLATE = '''
def getctype(self, cdecl, replace_with=''):
    if isinstance(cdecl, basestring):
        cdecl = self._typeof(cdecl)
    replace_with = replace_with.strip()
    if (replace_with.startswith('C1')
            and 'C2' in self._backend.getcname(cdecl, 'C3')):
        replace_with = 'C4' % replace_with
    elif replace_with and replace_with[0] not in 'C5':
        replace_with = 'C6' + replace_with
    return self._backend.getcname(cdecl, replace_with)
'''


TEMPLATE_GCN = '''
def get_c_name(self, replace_with='', context='a C file', quals=0):
    result = self.c_name_with_marker
    assert result.count('G1') == 1
    replace_with = replace_with.strip()
    if replace_with:
        if replace_with.startswith('G2') and 'G3' in result:
            replace_with = 'G4' % replace_with
        elif replace_with[0] not in 'G5':
            replace_with = 'G6' + replace_with
    replace_with = qualify(quals, replace_with)
    result = result.replace('G7', replace_with)
    if 'G8' in result:
        raise VerificationError(
            "G9"
            % (self._get_c_name(), context))
    return result
'''

def _shape(fn):
    """the function's AST with string constants replaced by a placeholder, docstring removed"""
    body = list(fn.body)
    if body and isinstance(body[0], ast.Expr) and isinstance(getattr(body[0], "value", None), ast.Constant) \
            and isinstance(body[0].value.value, str):
        body = body[1:]
    consts = []

    class R(ast.NodeTransformer):
        def visit_Constant(self, node):
            if isinstance(node.value, str):
                consts.append(node.value)
                return ast.copy_location(ast.Constant(value="?"), node)
            return node
    mod = ast.Module(body=[R().visit(b) for b in body], type_ignores=[])
    return ast.dump(mod), consts, [a.arg for a in fn.args.args]


def regen(ctx):
    from lib import py2coq
    gen = os.path.join(vlib.COQ, "C08", "Gen.v")
    try:
        tree = py2coq.parse_source(os.path.join(vlib.REPO, "src", "cffi", "api.py"))
        fn = py2coq.find_function(tree, "getctype", cls="FFI")
        ref = ast.parse(TEMPLATE).body[0]
        shape, consts, args = _shape(fn)
        rshape, rconsts, rargs = _shape(ref)
        if shape != rshape or args != rargs or len(consts) != len(rconsts):
            raise py2coq.Untranslatable("FFI.getctype no longer has the expected shape")
        default = fn.args.defaults
        if len(default) != 1 or not isinstance(default[0], ast.Constant) or default[0].value != "":
            raise py2coq.Untranslatable("default of replace_with is not ''")
        c = dict(zip(rconsts, consts))
        if c["C4"].count("%s") != 1 or "%" in c["C4"].replace("%s", ""):
            raise py2coq.Untranslatable("format %r not of the form prefix%%ssuffix" % c["C4"])
        lp, rp = c["C4"].split("%s")
        lits = [("py_star", c["C1"]), ("py_probe", c["C2"]), ("py_marker", c["C3"]), ("py_lparen", lp),
                ("py_rparen", rp), ("py_nospace", c["C5"]), ("py_space", c["C6"])]
        # ---- model.get_c_name / model.qualify (the Python-side duplicate of the same logic)
        mtree = py2coq.parse_source(os.path.join(vlib.REPO, "src", "cffi", "model.py"))
        gfn = py2coq.find_function(mtree, "get_c_name", cls="BaseTypeByIdentity")
        gshape, gconsts, gargs = _shape(gfn)
        rg = ast.parse(TEMPLATE_GCN).body[0]
        rgshape, rgconsts, rgargs = _shape(rg)
        if gshape != rgshape or gargs != rgargs or len(gconsts) != len(rgconsts):
            raise py2coq.Untranslatable("model.get_c_name no longer has the expected shape")
        gd = [d.value if isinstance(d, ast.Constant) else None for d in gfn.args.defaults]
        if gd[0] != "" or gd[2] != 0:
            raise py2coq.Untranslatable("defaults of get_c_name changed")
        g = dict(zip(rgconsts, gconsts))
        if g["G1"] != g["G7"] or len(g["G1"]) != 1:
            raise py2coq.Untranslatable("get_c_name: marker counted (%r) / replaced (%r) must be one same character"
                                        % (g["G1"], g["G7"]))
        if g["G4"].count("%s") != 1 or "%" in g["G4"].replace("%s", ""):
            raise py2coq.Untranslatable("format %r not of the form prefix%%ssuffix" % g["G4"])
        glp, grp_ = g["G4"].split("%s")
        qfn = py2coq.find_function(mtree, "qualify")
        import re
        qtxt = " ".join(ast.unparse(qfn).split())
        qm = re.fullmatch(
            r"def qualify\(quals, replace_with\): "
            r"if quals & (Q_\w+): replace_with = '([^']*)' \+ replace_with\.lstrip\(\) "
            r"if quals & (Q_\w+): replace_with = '([^']*)' \+ replace_with\.lstrip\(\) "
            r"if quals & (Q_\w+): replace_with = '([^']*)' \+ replace_with\.lstrip\(\) "
            r"return replace_with", qtxt)
        if not qm:
            raise py2coq.Untranslatable("model.qualify no longer has the expected shape: " + qtxt[:200])
        from props import c06_extract
        qvals = dict(("Q_" + k, v) for k, v in c06_extract.py_int_constants(mtree, "Q_"))
        qrows = [(qm.group(i), qvals[qm.group(i)], qm.group(i + 1)) for i in (1, 3, 5)]
        lits += [("gc_marker", g["G1"]), ("gc_star", g["G2"]), ("gc_probe", g["G3"]), ("gc_lparen", glp),
                 ("gc_rparen", grp_), ("gc_nospace", g["G5"]), ("gc_space", g["G6"])]
        # ---- new_array_type (src/c/_cffi_backend.c): the buffer the "[length]" text is printed into
        from props import c06_extract
        ctext = c06_extract.strip_c_comments(c06_extract.read(vlib.REPO, "src/c/_cffi_backend.c"))
        ma = re.search(r"\nnew_array_type\(CTypeDescrObject \*ctptr, Py_ssize_t length\)\s*\{(.*?)\n\}", ctext, re.S)
        if not ma:
            raise py2coq.Untranslatable("new_array_type not found")
        abody = ma.group(1)
        mb = re.findall(r"\bchar\s+extra_text\s*\[\s*(\d+)\s*\]\s*;", abody)
        mf = re.findall(r"(?:sprintf\(\s*extra_text\s*,|PyOS_snprintf\(\s*extra_text\s*,\s*sizeof\(extra_text\)\s*,)\s*"
                        r"\"\[%llu\]\"\s*,\s*\(unsigned PY_LONG_LONG\)\s*length\s*\)", abody)
        if len(mb) != 1 or len(mf) != 1 or "ctypedescr_new_on_top(ctitem, extra_text, 0)" not in abody:
            raise py2coq.Untranslatable("new_array_type: extra_text buffer / \"[%llu]\" format not found once each")
        array_buf = int(mb[0])
        head = open(gen).read().split("From Coq Require")[0]
        text = head + "From Coq Require Import List NArith ZArith.\nImport ListNotations.\n" + "".join(
            "Definition %s : list N := %s.\n" % (n, "[" + ";".join(str(ord(ch)) for ch in v) + "]%N" if v else
                                                "(@nil N)") for n, v in lits)
        text += ("(* new_array_type (src/c/_cffi_backend.c): `char extra_text[N]` receives \"[%%llu]\" of the length *)\n"
                 "Definition c_array_extra_text_size : Z := %d%%Z.\n" % array_buf)
        text += ("(* model.qualify (src/cffi/model.py): (flag value, text) in the order of its if-statements: %s *)\n"
                 "Definition py_qualify_table : list (N * list N) := [%s].\n" % (
                     ", ".join(n for n, _v, _t in qrows),
                     "; ".join("(%d%%N, [%s]%%N)" % (v, ";".join(str(ord(ch)) for ch in t)) for _n, v, t in qrows)))
        old = open(gen).read()
        if text != old:
            with open(gen, "w") as f:
                f.write(text)
            ctx.translator("C08/Gen.v", "regenerated")
        else:
            ctx.translator("C08/Gen.v", "unchanged")
    except Exception as e:           # fail closed: keep the snapshot, tie by correspondence only
        ctx.translator("C08/Gen.v", "fallback: %s" % e)


# ------------------------------------------------------------------------------------------ generation

def suffix_decl(rng, dctx):
    """a declarator over a hole: '*', '[N]', '(*)(args)', and combinations; as a C07 declarator tree"""
    d = G.empty_decl()
    k = rng.random()
    if k < 0.25:
        d["hdr"] = ["*"] * rng.choice([1, 1, 2])
    elif k < 0.45:
        d["arrays"] = [["lit", str(rng.choice([0, 1, 2, 3, 7, 10, 100]))] for _ in range(rng.choice([1, 1, 2]))]
        if rng.random() < 0.2:
            d["arrays"][0] = None
    elif k < 0.6:
        d["hdr"] = ["*"]
        d["arrays"] = [["lit", str(rng.choice([1, 2, 5]))]]
    elif k < 0.8:
        inner = G.empty_decl()
        inner["hdr"] = ["*"] * rng.choice([1, 1, 2])
        if rng.random() < 0.3:
            inner["arrays"] = [["lit", "4"]]
        d["group"] = dict(abi=None, d=inner)
        nargs = rng.choice([0, 1, 2])
        args = [arg_type(rng, dctx) for _ in range(nargs)]
        d["funcs"] = [dict(args=args, void=(nargs == 0), dots=(nargs > 0 and rng.random() < 0.3))]
    else:
        inner = G.empty_decl()
        inner["hdr"] = ["*"]
        d["group"] = dict(abi=None, d=inner)
        d["arrays"] = [["lit", str(rng.choice([2, 3]))]]
    return d


def arg_type(rng, dctx):
    """parameter types of the function suffixes: plain value and pointer types"""
    pool = [dict(specs=["int"], decl=G.empty_decl()), dict(specs=["unsigned", "long"], decl=G.empty_decl()),
            dict(specs=["double"], decl=G.empty_decl()), dict(specs=["char"], decl=dict(G.empty_decl(), hdr=["*"])),
            dict(specs=["const", "void"], decl=dict(G.empty_decl(), hdr=["*"])),
            dict(specs=[["name", "size_t"]], decl=G.empty_decl())]
    for st in dctx["structs"]:
        pool.append(dict(specs=[[st["kind"], st["name"]]], decl=dict(G.empty_decl(), hdr=["*"])))
    return rng.choice(pool)


def generate(ctx):
    rng = ctx.rng
    cases = []
    for ci in range(ctx.n(6, 60)):
        dctx = G.gen_ctx(rng)
        # no typedef'd arrays: a function type created from such a parameter is named after the first spelling seen
        removed, kept = set(), []
        for td in dctx["typedefs"]:
            inner = G._innermost(td["t"]["decl"])
            if (inner["arrays"] and not inner["funcs"]) or (set(G.tokens(td["t"])) & removed):
                removed.add(td["name"])
            else:
                kept.append(td)
        dctx["typedefs"] = kept
        for i in range(ctx.n(60, 300)):
            t = G.gen_type(rng, dctx, rng.choice([0, 1, 1, 2, 3]), dict(names=False, odd=False))
            xs = []
            for _ in range(3):
                d = suffix_decl(rng, dctx)
                text = G.spell(G.decl_tokens(d), None)
                pad = rng.choice(["", "", " ", "  ", "\t", " \n"])
                xs.append(dict(d=d, text=pad + text + rng.choice(["", "", " ", "\t "])))
            xs.append(dict(d=None, text=rng.choice(["v", " v", "v ", "name_1", "", "  "])))
            cases.append(dict(ctx=dctx, t=t, s=G.spell(G.tokens(t), None), xs=xs))
    # witnesses of the fixed finding void-param-function-type (ce8c84e): function types with a void parameter
    wctx = {"structs": [], "enums": [], "consts": [],
            "typedefs": [{"name": "fn", "t": {"specs": ["void"], "decl": G.empty_decl()}}]}
    for sw in ["float _Complex(*)(const fn)", "float _Complex(*)(const void)", "double _Complex(**)(fn)",
               "int(*)(const void, ...)", "float _Complex(*)(int, const void)"]:
        cases.append(dict(ctx=wctx, t=None, s=sw, xs=[dict(d=None, text=""), dict(d=None, text="v")]))
    # array lengths around every power of ten up to sys.maxsize (the name must carry every digit: 19 of them for
    # Py_ssize_t lengths), alone and in pointer-to-array / array-of-array / function positions; char items, so
    # that the total size fits Py_ssize_t as the backend requires
    import sys
    lens = set([sys.maxsize, sys.maxsize - 1, 1 << 31, 1 << 32, 1 << 62])
    for k in range(0, 19):
        lens.update([10 ** k - 1, 10 ** k, 10 ** k + 1])
    lens = sorted(n for n in lens if 0 < n <= sys.maxsize)
    ectx = {"structs": [], "enums": [], "consts": [], "typedefs": []}
    star = dict(G.empty_decl(), hdr=["*"])
    for n in lens:
        digits = len(str(n))
        forms = ["char[%d]" % n]
        if ctx.thorough or digits in (13, 14, 19):
            forms += ["char(*)[%d]" % n, "char[1][%d]" % n, "int(*)(char(*)[%d])" % n, "char(*(*)(int))[%d]" % n,
                      "char(*[3])[%d]" % n]
            if n <= sys.maxsize // 2:
                forms.append("char[2][%d]" % n)
        for sform in forms:
            cases.append(dict(ctx=ectx, t=None, s=sform,
                              xs=[dict(d=None, text=""), dict(d=None, text="v"), dict(d=star, text=" * ")]))
    # function types whose RESULT has a declarator tail (returns pointer-to-array / pointer-to-function): the hole of
    # fb_build_name lies in the middle of the name; short fixed cases with '*', '[2]' and ' v'
    arr2 = dict(G.empty_decl(), arrays=[["lit", "2"]])
    for sform in ["int(*(*)(int))[5]", "int(*(*)(void))(int)", "char(*(*[3])(int))[2]", "void(*(*(*)(char))(int))[4]",
                  "long(*(**)(int, ...))[2][3]"]:
        cases.append(dict(ctx=ectx, t=None, s=sform,
                          xs=[dict(d=None, text=""), dict(d=None, text="v"), dict(d=star, text="*"),
                              dict(d=arr2, text="[2]")]))
    return cases


# ------------------------------------------------------------------------------------------ expected types

def apply_decl_desc(d, base, sized):
    """standard C semantics of a declarator tree over a base description; None if the backend refuses the type.
    base/args are worker descriptions; sized(desc) says whether an aggregate leaf has a known size."""
    def known(x):
        k = x[0]
        if k == "void":
            return False
        if k == "arr":
            return x[2] is not None
        if k == "agg":
            return sized(x)
        return True
    cur = base
    for h in d["hdr"]:
        if h == "*":
            cur = ["ptr", cur] if cur[0] != "func_raw" else cur[1]
    t2 = cur
    for a in reversed(d["arrays"]):
        if t2 is None or t2[0] == "func_raw" or not known(t2):
            return None
        t2 = ["arr", t2, None if a is None else int(a[1], 0)]
    for f in reversed(d["funcs"]):
        if t2 is None or t2[0] in ("arr", "func_raw") or (t2[0] == "agg" and not sized(t2)):
            return None
        args = []
        for a in f["args"]:
            ad = a.get("_desc")
            if ad is None:
                return None
            if ad[0] == "arr":
                ad = ["ptr", ad[1]]
            args.append(ad)
        if not f["dots"]:
            for a in args:
                if a[0] == "void" or (a[0] == "agg" and not sized(a)):
                    return None
        t2 = ["func_raw", ["func", t2, args, bool(f["dots"])]]
    if d["group"] is not None:
        return apply_decl_desc(d["group"]["d"], t2, sized)
    return t2


# ------------------------------------------------------------------------------------------ evaluation

C_PRELUDE = """#include <stdio.h>
#include <stddef.h>
#include <stdint.h>
#include <stdbool.h>
#include <sys/types.h>
#include <wchar.h>
#include <uchar.h>
typedef float _Complex _cffi_float_complex_t;
typedef double _Complex _cffi_double_complex_t;
#define __cdecl
#define __stdcall
"""


def evaluate(ctx, cases):
    groups = {}
    order = []
    for i, c in enumerate(cases):
        import json
        k = json.dumps(c["ctx"], sort_keys=True)
        if k not in groups:
            groups[k] = dict(ctx=c["ctx"], idx=[])
            order.append(k)
        groups[k]["idx"].append(i)
    groups = [groups[k] for k in order]
    prim_index = G.prim_index_from_source(vlib.REPO)
    s = ctx.scratch()
    # argument descriptions of the suffixes are obtained from the implementation too (typeof of the argument)
    payload = dict(groups=[])
    per_item = []           # per group: [(strings of the item, getctype item)]
    for g in groups:
        strings, items = [], []
        for i in g["idx"]:
            mine = []
            for x in cases[i]["xs"]:
                if x["d"] is not None:
                    for f in x["d"]["funcs"]:
                        for a in f["args"]:
                            mine.append(G.spell(G.tokens(a), None))
            strings += mine
            items.append((mine, dict(s=cases[i]["s"], x=[x["text"] for x in cases[i]["xs"]])))
        per_item.append(items)
        payload["groups"].append(dict(cdef=G.ctx_cdef(g["ctx"]), strings=strings, getctype=[it for _m, it in items]))
    out, p = s.run_worker("c07_worker.py", payload, timeout=3000)
    if out is None:
        # the interpreter died (assert/abort/segfault in the backend): isolate the group, then the item
        def tail(pp):
            return " | ".join([l for l in (pp.stderr or "").splitlines() if l.strip()][-3:])[-500:]
        outg = []
        for g, pg, items in zip(groups, payload["groups"], per_item):
            o1, p1 = s.run_worker("c07_worker.py", dict(groups=[pg]), timeout=1500)
            if o1 is not None:
                outg.append(o1["groups"][0])
                continue
            results, gct, cdef_error = [], [], None
            for mine, it in items:
                o2, p2 = s.run_worker("c07_worker.py", dict(groups=[dict(cdef=pg["cdef"], strings=mine, getctype=[it])]),
                                      timeout=300)
                if o2 is None:
                    died = "the interpreter died (rc=%s): %s" % (p2.returncode, tail(p2))
                    results += [dict(py=dict(err="died"), c=dict(err="died")) for _ in mine]
                    gct.append(dict(py=dict(died=died), c=dict(died=died)))
                elif "cdef_error" in o2["groups"][0]:
                    cdef_error = o2["groups"][0]
                    break
                else:
                    results += o2["groups"][0]["results"]
                    gct += o2["groups"][0]["getctype"]
            outg.append(cdef_error or dict(results=results, getctype=gct))
        out = dict(groups=outg)
    coq_lits, owner = [], []
    gcc_cases = []
    for gi, (g, r) in enumerate(zip(groups, out["groups"])):
        if "cdef_error" in r:
            ctx.hist("context", "refused")
            continue
        ctx.hist("context", "ok")
        argdesc = iter(r["results"])
        forced = forced_names(g["ctx"])
        for i, res in zip(g["idx"], r["getctype"]):
            c = cases[i]
            for x in c["xs"]:
                if x["d"] is not None:
                    for f in x["d"]["funcs"]:
                        for a in f["args"]:
                            rr = next(argdesc)
                            a["_desc"] = dict(py=rr["py"].get("ok"), c=rr["c"].get("ok"))
            for side in ("py", "c"):
                rs = res[side]
                if "died" in rs:
                    if side == "py":
                        ctx.violation(dict(c), "typeof/getctype round trip of the type %r with suffixes %r: %s" % (
                            c["s"], [x["text"] for x in c["xs"]], rs["died"]))
                    continue
                if "err" in rs:
                    ctx.hist("base type", "rejected by " + side)
                    continue
                ctx.count()
                if rs.get("desc_err") or rs.get("getctype_err"):
                    # the type exists but its name cannot be taken apart / printed: report the concrete type, and for
                    # every suffix what getctype produced and whether it re-parses (one replay per item)
                    ctx.violation(dict(c, xs=[]), "%s FFI: type %r (ct_name %r): %s" % (
                        side, c["s"], rs["cname"], rs.get("desc_err") or rs.get("getctype_err")),
                        finding_key(side, rs["cname"]))
                    if rs.get("getctype") is not None and rs["roundtrip_is"] is not True:
                        ctx.violation(dict(c, xs=[]), "%s FFI: typeof(getctype(T)) is not T: T = %r from %r, getctype(T) = %r (%s)"
                                      % (side, rs["cname"], c["s"], rs["getctype"],
                                         rs.get("roundtrip_err") or rs.get("roundtrip_desc")))
                    for x, xr in zip(c["xs"], rs["x"]):
                        if x["d"] is None:
                            continue
                        out_x = xr.get("err") or xr.get("typeof", {}).get("err")
                        if out_x:
                            ctx.violation(dict(c, xs=[x]), "%s FFI: getctype(%r, %r) = %r on the type %r: %s" % (
                                side, rs["cname"], x["text"], xr.get("text"), c["s"], out_x))
                    continue
                ctx.hist("base kind", rs["desc"][0])
                # (a) typeof(getctype(T)) is T
                if rs["roundtrip_is"] is not True:
                    ctx.violation(c, "%s FFI: typeof(getctype(T)) is not T: T = %r, getctype(T) = %r (%s)" % (
                        side, rs["cname"], rs["getctype"], rs.get("roundtrip_err") or rs.get("roundtrip_desc")),
                        finding_key(side, rs["cname"]))
                if rs["getctype"] != rs["cname"]:
                    ctx.violation(c, "%s FFI: getctype(T) = %r differs from T.cname = %r" % (side, rs["getctype"], rs["cname"]))

                def sized(leaf, _g=g, _f=forced):
                    name = _f.get(leaf[2], leaf[2])
                    return G.agg_size(_g["ctx"], leaf[1], name) is not None or leaf[1] == "enum"
                # (b) typeof(getctype(T, x))
                for x, xr in zip(c["xs"], rs["x"]):
                    if x["d"] is None:
                        continue
                    ctx.count()
                    d = x["d"]
                    d_side = _with_side(d, side)
                    want = apply_decl_desc(d_side, rs["desc"], sized)
                    if want is not None and want[0] == "func_raw":
                        want = None              # a function type, not a pointer to function: typeof refuses
                    if "err" in xr:
                        ctx.violation(dict(c, xs=[x]), "%s FFI: getctype(%r, %r) raised %s (type string %r)" % (
                            side, rs["cname"], x["text"], xr["err"], c["s"]))
                        continue
                    got = xr["typeof"].get("ok")
                    ctx.nontrivial((c["s"], x["text"]))
                    if got != want:
                        ctx.violation(dict(c, xs=[x]), "%s FFI: getctype(%r, %r) = %r re-parses to %r, the declarator denotes %r"
                                      " (type string %r)" % (side, rs["cname"], x["text"], xr["text"], xr["typeof"], want, c["s"]),
                                      finding_key(side, rs["cname"]))
                # model correspondence
                T = G.coq_desc(rs["desc"], prim_index, _ctx_for_sizes(g["ctx"], forced))
                xs_lit = "; ".join("(%s, %s)" % (cstr(x["text"]), cstr(xr.get("text", "<error>")))
                                   for x, xr in zip(c["xs"], rs["x"]))
                coq_lits.append("(%s, %s, %s, [%s])" % ("true" if side == "c" else "false", T, cstr(rs["cname"]), xs_lit))
                owner.append((i, side))
                # (c) gcc
                # (objects larger than 64 KiB are not declared in the probe: it runs with them as locals)
                if side == "c" and rs["sizeof"] is not None and rs["sizeof"] <= (1 << 16) and "$" not in rs["cname"]:
                    decl = next((xr.get("text") for x, xr in zip(c["xs"], rs["x"]) if x["text"].strip() == "v"), None)
                    if decl:
                        gcc_cases.append((gi, i, decl, rs["sizeof"], rs["cname"]))
    run_gcc(ctx, s, groups, cases, gcc_cases)
    eval_get_c_name(ctx, s, groups, cases)
    bad, detail, err = coq_run(coq_lits)
    if err:
        ctx.obligation_broken("C08 model evaluation", err)
    for k, flags in bad:
        i, side = owner[k]
        ctx.mismatch(cases[i], "%s FFI, type %r: %s; model: %s" % (
            side, cases[i]["s"], "cname differs" if flags & 1 else "getctype differs", detail.get(k, "?")[:200]) + " || lit: " + coq_lits[k][:600],
            "C08.Model.cname/getctype vs ffi.getctype")
    for c in cases[:3]:
        ctx.sample(dict(s=c["s"], xs=[x["text"] for x in c["xs"]]))


def eval_get_c_name(ctx, s, groups, cases):
    """model.get_c_name (the Python type objects' copy of the getctype logic) vs FFI.getctype, and vs its model"""
    import re
    payload = dict(groups=[dict(cdef=G.ctx_cdef(g["ctx"]),
                                items=[dict(s=cases[i]["s"], x=[x["text"] for x in cases[i]["xs"]]) for i in g["idx"]])
                           for g in groups])
    out, p = s.run_worker("c08_worker.py", payload, timeout=1500)
    if out is None:
        ctx.violation(cases[0], "c08 worker failed: " + (p.stderr[-1500:] or p.stdout[-500:]))
        return
    coq = []
    owner = []
    nseen = 0
    norm = lambda t: t.replace("(void)", "()")
    for g, r in zip(groups, out["groups"]):
        if "cdef_error" in r:
            continue
        for i, it in zip(g["idx"], r["items"]):
            if "err" in it:
                continue
            c = cases[i]
            # texts are compared only when the Python type object and the backend ctype carry the same name (not when
            # qualifiers/ABI words are dropped by the backend, nor when a typedef forced another name on a struct)
            plain = (not re.search(r"\b(const|volatile|__restrict|restrict)\b|\$|__stdcall|__cdecl", it["marked"])
                     and norm(it["marked"].replace("&", "")) == norm(it["cname"]))
            for x, d in zip(c["xs"], it["x"]):
                ctx.count()
                if "get_c_name_err" in d or "getctype_err" in d:
                    if "$" in it["marked"] and d.get("get_c_name_err") == "VerificationError":
                        continue          # anonymous type: get_c_name refuses to print it, by design
                    ctx.violation(c, "get_c_name(%r) / getctype raised %s / %s on %r" % (
                        x["text"], d.get("get_c_name_err"), d.get("getctype_err"), it["marked"]))
                    continue
                ctx.hist("get_c_name", "compared")
                # same type denoted (both texts re-parsed by the in-line FFI)
                if d["same"] not in (True, "both-rejected"):
                    ctx.violation(c, "type object %r: get_c_name(%r) = %r and getctype = %r do not denote the same ctype (%s)"
                                  % (it["marked"], x["text"], d["get_c_name"], d["getctype"], d["same"]))
                # same text, when the name carries no qualifier/ABI words (the backend's names drop them) and up to
                # the spelling of an empty parameter list
                if plain and norm(d["get_c_name"]) != norm(d["getctype"]):
                    ctx.mismatch(c, "type object %r: get_c_name(%r) = %r, getctype = %r (same type denoted: %s)" % (
                        it["marked"], x["text"], d["get_c_name"], d["getctype"], d["same"]),
                        "model.BaseTypeByIdentity.get_c_name vs FFI.getctype (texts; theorem C08_get_c_name_eq_getctype)")
                nseen += 1
                if ctx.thorough or nseen % 4 == 0:       # quick: the Coq model is evaluated on a quarter of the pairs
                    coq.append(("(%s, %s)" % (cstr(it["marked"]), cstr(x["text"])), cstr(d["get_c_name"])))
                    owner.append((i, it["marked"], x["text"]))
    if coq:
        bad, outs, err = vlib.coq_mismatches(["C07.Model", "C08.Gen", "C08.Model"],
                                             "fun mx => get_c_name_py (fst mx) (snd mx) 0%N", "str_eqb", coq, shard=600)
        if err:
            ctx.obligation_broken("C08 model evaluation (get_c_name)", err)
        for k in bad:
            i, marked, x = owner[k]
            ctx.mismatch(cases[i], "get_c_name_py %r %r: model %s, model.py %s" % (marked, x, outs.get(k), coq[k][1]),
                         "C08.Model.get_c_name_py vs model.BaseTypeByIdentity.get_c_name")


def finding_key(side, cname):
    """the C-side parser can create a function ctype with a parameter of type void (printed '(void)' / '(void, ...')
    when the result type is complex; no other function ctype prints 'void' as a parameter"""
    import re
    if side == "c" and re.search(r"\(void[,)]", cname) and "_complex_t" in cname:
        return "void-param-function-type"
    return None


def _with_side(d, side):
    out = dict(d)
    out["funcs"] = [dict(f, args=[dict(a, _desc=(a["_desc"][side] if isinstance(a.get("_desc"), dict) else a.get("_desc")))
                                  for a in f["args"]]) for f in d["funcs"]]
    if d["group"] is not None:
        out["group"] = dict(d["group"], d=_with_side(d["group"]["d"], side))
    return out


def forced_names(dctx):
    from props import c07
    return c07.forced_names(dctx)


def _ctx_for_sizes(dctx, forced):
    return dctx


def cstr(s):
    return '(s2l "%s"%%string)' % s.replace('"', '""')


COQ_DRIVER = """
From Cffi Require Import C07.Model C07.Realize C08.Model.
Definition case_t := (bool * ctype * list N * list (list N * list N))%type.
(* bit 0: cname; bit 1: some getctype text differs *)
Definition check (c : case_t) : N :=
  let '(c_side, T, name, xs) := c in
  ((if str_eqb (fst (cname T)) name then 0 else 1)
   + (if forallb (fun xe => str_eqb ((if c_side then getctype_c else getctype_py) T (fst xe)) (snd xe)) xs
      then 0 else 2))%N.
Definition detail (c : case_t) :=
  let '(c_side, T, name, xs) := c in
  (fst (cname T), map (fun xe => (if c_side then getctype_c else getctype_py) T (fst xe)) xs).
Fixpoint failures (i : N) (l : list case_t) : list (N * N) :=
  match l with
  | [] => []
  | c :: l' => let r := check c in
               if N.eqb r 0 then failures (N.succ i) l' else (i, r) :: failures (N.succ i) l'
  end.
"""


def coq_run(lits):
    from props import c07
    return c07.coq_run([(COQ_DRIVER.replace("From Cffi Require Import C07.Model C07.Realize C08.Model.",
                                            "From Cffi Require Import C07.Realize C08.Model."), lits)], shard=300)


def run_gcc(ctx, s, groups, cases, gcc_cases):
    """gcc oracle. A context whose own declarations are not valid C for gcc (the C07 generator produces some that
    cffi accepts, e.g. arrays of an incomplete struct inside a typedef) is skipped; a getctype(T, 'v') declaration
    that gcc refuses inside a valid context is a violation of the property for that T."""
    import re
    if not gcc_cases:
        return
    by_group = {}
    for gc in gcc_cases:
        by_group.setdefault(gc[0], []).append(gc)

    def ctx_lines(gi):
        out = ["static void ctx_%d(void) {" % gi]
        for line in G.ctx_cdef(groups[gi]["ctx"]).splitlines():
            if line.startswith("#define"):
                _, n, v = line.split(None, 2)
                out.append("  enum { %s = 0 };  /* value irrelevant here: %s */" % (n, v.strip()))
            else:
                out.append("  " + line)
        return out

    def syntax_check(lines, tag):
        path = os.path.join(s.work, "c08_probe_%s.c" % tag)
        with open(path, "w") as f:
            f.write("\n".join(lines) + "\n")
        p = subprocess.run(["gcc", "-w", "-std=gnu11", "-fsyntax-only", path], capture_output=True, text=True)
        return p.returncode == 0, p.stderr

    src = [C_PRELUDE]
    live = {}
    for gi, lst in by_group.items():
        head = C_PRELUDE.splitlines() + ctx_lines(gi)
        ok, err = syntax_check(head + ["}"], "ctx%d" % gi)
        if not ok:
            ctx.hist("gcc", "context is not valid C for gcc: skipped")
            continue
        # each declaration on its own line: errors are attributed by line number
        body, lineno = [], {}
        for k, (_, i, decl, size, cname) in enumerate(lst):
            lineno[len(head) + len(body) + 1] = k
            body.append("  { %s; printf(\"%d %d %%zu\\n\", sizeof(v)); }" % (decl, gi, k))
        ok, err = syntax_check(head + body + ["}"], "ctx%d" % gi)
        badk = set()
        if not ok:
            for m in re.finditer(r"c08_probe_ctx%d\.c:(\d+):\d+: error: (.*)" % gi, err):
                k = lineno.get(int(m.group(1)))
                if k is None:
                    badk = None
                    break
                if k not in badk:
                    badk.add(k)
                    _, i, decl, size, cname = lst[k]
                    ctx.violation(cases[i], "gcc refuses `%s;` produced by getctype(%r, 'v'): %s" % (decl, cname, m.group(2)))
            if badk is None:
                ctx.hist("gcc", "context is not valid C for gcc: skipped")
                continue
        keep = [(k, x) for k, x in enumerate(lst) if k not in badk]
        live[gi] = keep
        src += ctx_lines(gi)
        for k, (_, i, decl, size, cname) in keep:
            src.append("  { %s; printf(\"%d %d %%zu\\n\", sizeof(v)); }" % (decl, gi, k))
        src.append("}")
    if not live:
        return
    src.append("int main(void) { %s return 0; }" % " ".join("ctx_%d();" % gi for gi in live))
    path = os.path.join(s.work, "c08_probe.c")
    with open(path, "w") as f:
        f.write("\n".join(src) + "\n")
    exe = os.path.join(s.work, "c08_probe")
    p = subprocess.run(["gcc", "-w", "-std=gnu11", "-o", exe, path], capture_output=True, text=True)
    if p.returncode:
        ctx.obligation_broken("C08 gcc probe", "the combined probe does not compile although every context does: " + p.stderr[:1500])
        return
    p = subprocess.run([exe], capture_output=True, text=True, timeout=60)
    sizes = {}
    for line in p.stdout.splitlines():
        a, b, c = line.split()
        sizes[(int(a), int(b))] = int(c)
    for gi, keep in live.items():
        for k, (_, i, decl, size, cname) in keep:
            ctx.count()
            ctx.hist("gcc", "checked")
            if sizes.get((gi, k)) != size:
                ctx.violation(cases[i], "gcc: sizeof of `%s;` is %r, ffi.sizeof(%r) is %d" % (decl, sizes.get((gi, k)), cname, size))


def run(ctx):
    ctx.cov["rule"] = ("types: renderings of C07 syntax trees accepted by both FFIs, over random declaration contexts; "
                       "declarator suffixes: '*', '**', '[N]', '[]', '*[N]', '(*)(args)', '(**)(args)', '(*[4])(args)', "
                       "'(*)[N]' with white-space padding, and plain names; array lengths around every power of ten up to "
                       "sys.maxsize (13/14/19-digit ones also behind pointers, inside arrays and in function types); both "
                       "FFIs. Non-trivial = a (type, suffix) "
                       "pair whose getctype text was re-parsed.")
    ctx.assumptions += [
        "hand model C08/Model.v of ct_name construction (tied by this run's comparison with ct.cname on both FFIs)",
        "FFI.getctype: literals regenerated from api.py after a shape check (Gen.v); model of the function by hand",
        "gcc as the oracle for 'the C compiler accepts the declaration'; block-scope redeclaration of the context",
        "x86-64 Linux"]
    evaluate(ctx, generate(ctx))


MANIFEST = dict(
    technique="Coq proof about the model of ct_name/ct_name_position, an independent precedence-based declarator "
              "printer, both getctype implementations and model.get_c_name (literals and the array-name buffer size "
              "regenerated from the sources) + correspondence on both FFIs + gcc oracle",
    text="Theorems (C08/Props.v): C08_position_is_hole - for every ctype T and text x, ct_name with x inserted at "
         "ct_name_position is decl_string T x, the C declaration of T around x printed by an independent outside-in "
         "printer with C's precedence rule (C08/Spec.v); C08_getctype_is_spec - ffi_getctype is that printer applied to "
         "the stripped text ('*' texts as pointer declarators); C08_getctype_c_eq_py and C08_get_c_name_eq_getctype - "
         "ffi_getctype (C), FFI.getctype (Python) and model.get_c_name (Python type objects) compute the same text for "
         "all T and x; C08_marker_test - the '&[' test holds exactly for arrays; C08_array_length_rendered_in_full and "
         "C08_array_name_buffer_suffices - an array length is printed with all its digits (reads back as the same "
         "number, any 64-bit length) and the regenerated buffer `char extra_text[N]` of new_array_type holds it. "
         "NOT a theorem in general: the round trip itself - typeof(getctype(T)) is T and typeof(getctype(T, x)) is the type "
         "x builds over T - is decided by correspondence on both FFIs (random C07 types x suffixes, array lengths around "
         "every power of ten up to sys.maxsize), plus the gcc oracle for `getctype(T,'v');` with sizeof. "
         "C08_reparse_keyword_types / C08_typeof_getctype_keyword_types DO prove the first sentence, "
         "c_typeof (getctype(T)) = T, for the C-side parser model of coq/C07 (composition with C07.Agree.agree_partial) on "
         "the class Proofs5.kw_type: void, the keyword primitives _Bool..long double, pointers and arrays with a length, "
         "in any nesting (C08_reparse_class: every kw_type T has the tree the theorem asks for). Second sentence, first "
         "theorems: C08_getctype_suffix_is_name - for EVERY T, ffi_getctype(T,'*'), (T,'[n]'), (T,'[]') and (T,'(*)(args)') "
         "return exactly ct_name of the backend's pointer-to-T / T[n] / T[] / function-pointer-returning-T type (incl. the "
         "parentheses an array T needs); C08_typeof_getctype_suffix - composed with the re-parsing theorem, "
         "c_typeof(getctype(T,'*')) = T* and c_typeof(getctype(T,'[n]')) = T[n] on kw_type (C side). Also proved: "
         "C08_position_in_range, C08_tail_bracket_iff_array. Function types, named types and open arrays in the re-parsing "
         "class, the Python parser, and other non-empty x (identifiers, composite declarators) remain correspondence-only.",
    note="Trusted: Coq kernel; hand model C08/Model.v of the name construction (tied by differential testing against "
         "ct.cname on both FFIs); shape-checked literal extraction for FFI.getctype / model.get_c_name / qualify / "
         "new_array_type's buffer; gcc. The re-parsing half relies on the real parsers in the correspondence runs.",
    design_ref="DESIGN.md §4 C08")
