"""Generators shared by C07 and C08: declaration contexts, type expressions (concrete syntax trees
of the common declarator grammar), their token lists and spellings, near-miss mutations, and the
Coq literals of all of these (mirrors coq/C07/PySem.v: `tokens_of` there and `tokens` here must
agree, which every run checks by comparing the rendered strings inside Coq).

Concrete syntax tree (JSON-able):
  T = {"specs": [tok, ...], "decl": D}
        specs tokens: const volatile signed unsigned short long int char void _Bool float double
                      _Complex | ["name", n] (typedef / standard / common type name)
                      | ["struct"|"union"|"enum", n]
  D = {"hdr": ["*"|"const"|"volatile"|"__cdecl"|"__stdcall", ...], "name": n|None,
       "group": None | {"abi": None|"__cdecl"|"__stdcall", "d": D},
       "funcs": [{"args": [T...], "void": bool, "dots": bool}, ...],
       "arrays": [None | ["lit", text] | ["name", n], ...]}
This mirrors parse_sequel: header loop, optional name, '(' loop (first iteration may be a grouping),
'[' loop.
"""

MODS = ["signed", "unsigned", "short", "long"]
BASES = ["int", "char", "void", "_Bool", "float", "double"]
QUALS = ["const", "volatile"]
STD_NAMES = ["wchar_t", "int8_t", "uint8_t", "int16_t", "uint16_t", "int32_t", "uint32_t", "int64_t",
             "uint64_t", "intptr_t", "uintptr_t", "ptrdiff_t", "size_t", "ssize_t", "int_least8_t",
             "uint_least8_t", "int_least16_t", "uint_least16_t", "int_least32_t", "uint_least32_t",
             "int_least64_t", "uint_least64_t", "int_fast8_t", "uint_fast8_t", "int_fast16_t",
             "uint_fast16_t", "int_fast32_t", "uint_fast32_t", "int_fast64_t", "uint_fast64_t",
             "intmax_t", "uintmax_t", "_cffi_float_complex_t", "_cffi_double_complex_t", "char16_t",
             "char32_t"]
# canonical spellings of the primitive types: (modifiers, base or None, complex)
PRIMS = [
    ([], "int", False), ([], "char", False), ([], "void", False), ([], "_Bool", False),
    ([], "float", False), ([], "double", False), ([], "float", True), ([], "double", True),
    (["long"], "double", False),
    (["signed"], "char", False), (["unsigned"], "char", False),
    (["short"], None, False), (["short"], "int", False), (["unsigned", "short"], None, False),
    (["unsigned", "short"], "int", False), (["signed", "short"], "int", False),
    (["signed"], None, False), (["signed"], "int", False), (["unsigned"], None, False),
    (["unsigned"], "int", False),
    (["long"], None, False), (["long"], "int", False), (["unsigned", "long"], None, False),
    (["unsigned", "long"], "int", False), (["signed", "long"], None, False),
    (["long", "long"], None, False), (["long", "long"], "int", False),
    (["unsigned", "long", "long"], None, False), (["unsigned", "long", "long"], "int", False),
    (["signed", "long", "long"], "int", False),
]

WS_CHOICES = ["", "", "", " ", " ", "  ", "\t", "\n", " \t ", "\n ", " "]
WS_EXOTIC = ["\r\n", "\f", "\v", "\r"]        # white space for the C parser only (known divergence)


# ------------------------------------------------------------------------------------------ contexts

def gen_ctx(rng, rich=True):
    """A declaration context: typedefs, structs/unions (complete or opaque), enums, integer constants.
    Names are drawn so that prefixes of one another and keyword-like names occur."""
    pool = ["t", "tt", "t_", "t1", "T", "u8", "in", "int_", "Int", "longer", "s", "s1", "ss", "e", "E",
            "k", "K", "K1", "KK", "n", "N", "foo", "foo_t", "bar", "_x", "x_", "a", "b", "vd", "fn", "ar",
            "structx", "unsignedx", "constant", "_Boolean", "c_", "x9"]
    rng.shuffle(pool)
    it = iter(pool)
    ctx = dict(structs=[], enums=[], consts=[], typedefs=[])
    for i in range(rng.choice([1, 2, 3])):
        n = next(it)
        kind = rng.choice(["struct", "struct", "union"])
        opaque = rng.random() < 0.25
        fields = None if opaque else [["int", "f%d" % j] for j in range(rng.choice([1, 2, 3]))]
        if fields and rng.random() < 0.4:
            fields.append(["char", "c[%d]" % rng.choice([1, 3, 8])])
        ctx["structs"].append(dict(name=n, kind=kind, fields=fields))
    for i in range(rng.choice([1, 2])):
        n = next(it)
        vals = []
        for j in range(rng.choice([1, 2, 3])):
            vals.append([rng.choice(["EV", "Ev", "E", "KV_", "ev"]) + "%d%d" % (i, j),
                         rng.choice([0, 1, 2, 3, 7, -1, -5, 100])])
        ctx["enums"].append(dict(name=n, values=vals))
    for i in range(rng.choice([1, 2, 3])):
        ctx["consts"].append([next(it), rng.choice([0, 1, 2, 3, 5, 16, 255, -1, -7, 2 ** 31, 2 ** 63 - 1])])
    # typedefs: each over the previous declarations
    ntd = rng.choice([2, 3, 4, 5]) if rich else 1
    for i in range(ntd):
        n = next(it)
        r = rng.random()
        if r < 0.12 and ctx["structs"]:
            s = rng.choice(ctx["structs"])
            t = dict(specs=[[s["kind"], s["name"]]], decl=empty_decl())      # typedef struct s n;  (finding C)
        elif r < 0.22:
            t = dict(specs=["int"], decl=dict(empty_decl(), funcs=[dict(args=[dict(specs=["int"], decl=empty_decl())],
                                                                         void=False, dots=False)]))  # function typedef
        elif r < 0.30:
            t = dict(specs=["void"], decl=empty_decl())                       # typedef void n;
        elif r < 0.42:
            t = dict(specs=["int"], decl=dict(empty_decl(), arrays=[["lit", str(rng.choice([1, 3, 4]))]]))
        else:
            t = gen_type(rng, ctx, depth=rng.choice([0, 0, 1, 2]), allow=dict(names=False, odd=False))
        ctx["typedefs"].append(dict(name=n, t=t))
    return ctx


def ctx_cdef(ctx):
    """the cdef() text declaring the context (same text for the in-line and the out-of-line FFI)"""
    out = []
    for s in ctx["structs"]:
        if s["fields"] is None:
            out.append("%s %s;" % (s["kind"], s["name"]))
        else:
            out.append("%s %s { %s };" % (s["kind"], s["name"], " ".join("%s %s;" % (t, n) for t, n in s["fields"])))
    for e in ctx["enums"]:
        out.append("enum %s { %s };" % (e["name"], ", ".join("%s = %d" % (n, v) for n, v in e["values"])))
    for n, v in ctx["consts"]:
        out.append("#define %s %d" % (n, v))
    for td in ctx["typedefs"]:
        out.append("typedef %s;" % render_plain(td["t"], td["name"]))
    return "\n".join(out) + "\n"


def render_plain(t, name):
    """declaration text of T with the declared name put in the innermost declarator"""
    t2 = _with_name(t, name)
    return spell(tokens(t2), None)


def _with_name(t, name):
    def inner(d):
        if d["group"] is not None:
            return dict(d, group=dict(d["group"], d=inner(d["group"]["d"])))
        return dict(d, name=name)
    return dict(t, decl=inner(t["decl"]))


def _innermost(d):
    while d["group"] is not None:
        d = d["group"]["d"]
    return d


def function_typedef_names(dctx):
    """typedef names that denote a function type (directly, or through another such typedef)"""
    names = set()
    for td in dctx["typedefs"]:
        t = td["t"]
        d = t["decl"]
        core = [x for x in t["specs"] if x not in QUALS]
        if _innermost(d)["funcs"]:
            names.add(td["name"])
        elif d == empty_decl() and len(core) == 1 and isinstance(core[0], list) and core[0][0] == "name" \
                and core[0][1] in names:
            names.add(td["name"])
    return names


def void_typedef_names(dctx):
    names = set()
    for td in dctx["typedefs"]:
        t = td["t"]
        core = [x for x in t["specs"] if x not in QUALS]
        if t["decl"] == empty_decl() and (core == ["void"] or (len(core) == 1 and isinstance(core[0], list)
                                                               and core[0][0] == "name" and core[0][1] in names)):
            names.add(td["name"])
    return names


# ------------------------------------------------------------------------------------------ types

def empty_decl():
    return dict(hdr=[], name=None, group=None, funcs=[], arrays=[])


def gen_specs(rng, ctx, allow):
    r = rng.random()
    odd = allow.get("odd", True)
    if r < 0.55:
        mods, base, cplx = rng.choice(PRIMS)
        mods = list(mods)
        rng.shuffle(mods)
        toks = mods + ([base] if base else []) + (["_Complex"] if cplx else [])
        if odd and rng.random() < 0.06:            # ill-formed specifier lists
            k = rng.random()
            if k < 0.3:
                toks.insert(rng.randrange(len(toks) + 1), rng.choice(MODS + BASES + ["_Complex"]))
            elif k < 0.6 and len(toks) > 1:
                rng.shuffle(toks)
            else:
                toks = [rng.choice(MODS + BASES + ["_Complex"]) for _ in range(rng.choice([1, 2, 3]))]
    elif r < 0.70:
        toks = [["name", rng.choice(STD_NAMES + ["bool", "FILE"])]]
    elif r < 0.85 and ctx["typedefs"]:
        toks = [["name", rng.choice(ctx["typedefs"])["name"]]]
        if not odd and toks[0][1] in function_typedef_names(ctx):
            toks = ["int"]        # inside typedefs: no further use of function typedefs (keeps contexts accepted by both)
    elif r < 0.95 and ctx["structs"]:
        s = rng.choice(ctx["structs"])
        toks = [[s["kind"], s["name"]]]
    elif ctx["enums"]:
        toks = [["enum", rng.choice(ctx["enums"])["name"]]]
    else:
        toks = ["int"]
    # qualifiers: before / after (common); between specifier keywords (rare: known divergence)
    if rng.random() < 0.25:
        toks = [rng.choice(QUALS) for _ in range(rng.choice([1, 1, 2]))] + toks
    if rng.random() < 0.2:
        toks = toks + [rng.choice(QUALS) for _ in range(rng.choice([1, 1, 2]))]
    if odd and len(toks) >= 2 and rng.random() < 0.04:
        toks.insert(rng.randrange(1, len(toks)), rng.choice(QUALS))
    return toks


def gen_len(rng, ctx, tame=False):
    r = rng.random()
    if tame:
        return None if r < 0.15 else ["lit", rng.choice(["1", "2", "3", "4", "0x10", "010", "7"])]
    if r < 0.2:
        return None
    if r < 0.8:
        n = rng.choice([0, 1, 2, 3, 4, 5, 7, 8, 9, 10, 15, 16, 17, 63, 64, 100, 255, 256, 1000, 4095,
                        2 ** 31 - 1, 2 ** 31, 2 ** 32, 2 ** 61, 2 ** 62 - 1, 2 ** 62, 2 ** 63 - 1])
        if rng.random() < 0.05:
            n = rng.choice([2 ** 63, 2 ** 64 - 1, 2 ** 64, 10 ** 25])
        k = rng.random()
        if k < 0.5:
            text = str(n)
        elif k < 0.75:
            text = rng.choice(["0x", "0X"]) + rng.choice(["%x", "%X"]) % n
        elif k < 0.95:
            text = "0" + "%o" % n
        else:
            text = rng.choice(["08", "09", "0x", "1x5", "12ab", "0xg", "00", "0x0", "1e3"])
        return ["lit", text]
    names = [c[0] for c in ctx["consts"]] + [v[0] for e in ctx["enums"] for v in e["values"]]
    if rng.random() < 0.1 or not names:
        names = names + [t["name"] for t in ctx["typedefs"]] + ["nosuch"]
    return ["name", rng.choice(names)]


def gen_decl(rng, ctx, depth, allow, in_group=False):
    d = empty_decl()
    nstars = rng.choice([0, 0, 0, 1, 1, 2]) if not in_group else rng.choice([1, 1, 1, 2])
    hdr = []
    for _ in range(nstars):
        hdr.append("*")
        while rng.random() < 0.12:
            hdr.append(rng.choice(QUALS))
    if in_group and not hdr:
        hdr = ["*"]
    d["hdr"] = hdr
    if allow.get("names", True) and rng.random() < 0.08:
        d["name"] = rng.choice(["x", "arg", "p1", "v_"])
    if depth > 0 and d["name"] is None and rng.random() < 0.55:
        g = gen_decl(rng, ctx, depth - 1, allow, in_group=True)
        abi = None
        if rng.random() < 0.08:
            abi = rng.choice(["__cdecl", "__stdcall"])
        d["group"] = dict(abi=abi, d=g)
        if allow.get("odd", True) and abi is None and rng.random() < 0.04:
            # nested grouping parentheses directly inside grouping parentheses (known divergence)
            d["group"] = dict(abi=None, d=dict(empty_decl(), group=d["group"]))
    if (d["group"] is not None or depth > 0) and rng.random() < (0.6 if d["group"] else 0.1):
        nargs = rng.choice([0, 0, 1, 1, 2, 3])
        args = [gen_type(rng, ctx, max(0, depth - 1), allow, as_arg=True) for _ in range(nargs)]
        void = (nargs == 0 and rng.random() < 0.6)
        dots = (rng.random() < (0.2 if nargs else 0.03))
        d["funcs"].append(dict(args=args, void=void, dots=dots and not void and (nargs > 0 or allow.get("odd", True))))
        if d["group"] is None and d["hdr"] and False:
            pass
        if rng.random() < 0.05 and d["group"] is not None and d["group"]["abi"] is None:
            d["hdr"] = d["hdr"] + [rng.choice(["__cdecl", "__stdcall"])]
    if not d["funcs"] or rng.random() < 0.03:
        for _ in range(rng.choice([0, 0, 0, 1, 1, 2, 3])):
            a = gen_len(rng, ctx, tame=not allow.get("odd", True))
            if a is None and d["arrays"] and not allow.get("odd", True):
                a = ["lit", "2"]                     # typedefs: no array of open arrays
            d["arrays"].append(a)
    return d


def gen_type(rng, ctx, depth, allow=None, as_arg=False):
    allow = allow or {}
    t = dict(specs=gen_specs(rng, ctx, allow), decl=gen_decl(rng, ctx, depth, allow))
    return t


# ------------------------------------------------------------------------------------------ tokens

def spec_tokens(specs):
    out = []
    for s in specs:
        if isinstance(s, str):
            out.append(s)
        elif s[0] == "name":
            out.append(s[1])
        else:
            out += [s[0], s[1]]
    return out


def decl_tokens(d):
    out = list(d["hdr"])
    if d["name"] is not None:
        out.append(d["name"])
    if d["group"] is not None:
        out.append("(")
        if d["group"]["abi"]:
            out.append(d["group"]["abi"])
        out += decl_tokens(d["group"]["d"])
        out.append(")")
    for f in d["funcs"]:
        out.append("(")
        if f["void"]:
            out.append("void")
        else:
            for i, a in enumerate(f["args"]):
                if i:
                    out.append(",")
                out += tokens(a)
            if f["dots"]:
                if f["args"]:
                    out.append(",")
                out.append("...")
        out.append(")")
    for a in d["arrays"]:
        out.append("[")
        if a is not None:
            out.append(a[1])
        out.append("]")
    return out


def tokens(t):
    return spec_tokens(t["specs"]) + decl_tokens(t["decl"])


def wordy(tok):
    c = tok[0]
    return c.isalnum() or c in "_$"


def spell(toks, gaps):
    """gap_i, then a mandatory single space iff the previous and this token are both 'wordy', then the token;
    gaps[len(toks)] is the trailing white space.  gaps=None: no extra white space."""
    out = []
    for i, tk in enumerate(toks):
        if gaps is not None:
            out.append(gaps[i])
        if i and wordy(toks[i - 1]) and wordy(tk):
            out.append(" ")
        out.append(tk)
    if gaps is not None:
        out.append(gaps[len(toks)])
    return "".join(out)


def gen_gaps(rng, n):
    r = rng.random()
    if r < 0.5:
        return [""] * (n + 1)
    gaps = [rng.choice(WS_CHOICES) for _ in range(n + 1)]
    if r > 0.97:
        gaps[rng.randrange(n + 1)] = rng.choice(WS_EXOTIC)
    return gaps


# ------------------------------------------------------------------------------------------ near misses

def mutate(rng, toks):
    toks = list(toks)
    k = rng.random()
    if not toks:
        return toks
    i = rng.randrange(len(toks))
    if k < 0.3:
        del toks[i]
    elif k < 0.5:
        toks.insert(i, toks[i])
    elif k < 0.62:
        toks.insert(i, rng.choice(["(", ")", "[", "]", ",", "*"]))
    elif k < 0.72 and len(toks) > 1:
        j = rng.randrange(len(toks))
        toks[i], toks[j] = toks[j], toks[i]
    elif k < 0.84:
        toks.insert(i, rng.choice(MODS + BASES + QUALS + ["_Complex", "__stdcall", "__cdecl", "...", "struct",
                                                         "enum", "union", "5", "x"]))
    elif k < 0.92:
        toks[i] = rng.choice(["(", ")", "[", "]", ",", "*", "int", "void", "...", "0", ";", "&", "-", "+", "=",
                              ".", "..", "#", "\\", "$", "@", "{", "}", "\x7f", "\xe9"])
    else:
        # cut the string
        toks = toks[:i]
    return toks


# ------------------------------------------------------------------------------------------ Coq literals

def cstr(s):
    return "[" + ";".join(str(b) for b in s.encode("utf-8")) + "]%N"


def coq_ctx_tables(ctx):
    """the four sorted tables parse_c_type.c sees, as the recompiler would emit them (sorted by name)"""
    tn = sorted(td["name"] for td in ctx["typedefs"])
    su = sorted((s["name"], s["kind"] == "union") for s in ctx["structs"])
    en = sorted(e["name"] for e in ctx["enums"])
    gl = []
    for n, v in ctx["consts"]:
        gl.append((n, 1, v))
    for e in ctx["enums"]:
        for n, v in e["values"]:
            gl.append((n, 2, v))
    gl.sort()
    return tn, su, en, gl


def neg_value(v):
    """what the constant-fetching function returns: (neg, value as unsigned 64-bit)"""
    if v < 0:
        return 1, v % (1 << 64)
    return 0, v % (1 << 64)


def coq_ctx(ctx, extra_globals=()):
    tn, su, en, gl = coq_ctx_tables(ctx)
    gls = []
    for n, kind, v in gl:
        neg, val = neg_value(v)
        gls.append("(%s, GInt %s (%d) (%d))" % (cstr(n), "true" if kind == 2 else "false", neg, val))
    return "(mkCtx [%s] [%s] [%s] [%s])" % (
        "; ".join(cstr(n) for n in tn),
        "; ".join("(%s, %s)" % (cstr(n), "true" if u else "false") for n, u in su),
        "; ".join(cstr(n) for n in en),
        "; ".join(gls))


def harness_ctx(ctx, output_size):
    tn, su, en, gl = coq_ctx_tables(ctx)
    lines = ["C %d %d %d %d %d" % (len(tn), len(su), len(en), len(gl), output_size)]
    lines += [n.encode().hex() for n in tn]
    lines += ["%s %d" % (n.encode().hex(), 1 if u else 0) for n, u in su]
    lines += [n.encode().hex() for n in en]
    for n, kind, v in gl:
        neg, val = neg_value(v)
        lines.append("%s %d %d %d" % (n.encode().hex(), kind, neg, val))
    return lines


def cs(s):
    """Python str -> Coq term of type str (list N) through a string literal"""
    return '(s2l "%s"%%string)' % s.replace('"', '""')


_STOK = {"const": "SQ Qconst", "volatile": "SQ Qvolatile", "signed": "SM Msigned", "unsigned": "SM Munsigned",
         "short": "SM Mshort", "long": "SM Mlong", "int": "SB Bint", "char": "SB Bchar", "void": "SB Bvoid",
         "_Bool": "SB Bbool", "float": "SB Bfloat", "double": "SB Bdouble", "_Complex": "SComplex"}
_HITEM = {"*": "HStar", "const": "HQ Qconst", "volatile": "HQ Qvolatile", "__cdecl": "HAbi false",
          "__stdcall": "HAbi true"}
_TAG = {"struct": "TKstruct", "union": "TKunion", "enum": "TKenum"}


def coq_stok(s):
    if isinstance(s, str):
        return _STOK[s]
    if s[0] == "name":
        return "SName %s" % cs(s[1])
    return "STag %s %s" % (_TAG[s[0]], cs(s[1]))


def coq_decl(d):
    name = "None" if d["name"] is None else "(Some %s)" % cs(d["name"])
    if d["group"] is None:
        group = "None"
    else:
        abi = d["group"]["abi"]
        group = "(Some (%s, %s))" % ("None" if abi is None else "Some %s" % ("true" if abi == "__stdcall" else "false"),
                                     coq_decl(d["group"]["d"]))
    funcs = "; ".join("F [%s] %s %s" % ("; ".join(coq_tyexpr(a) for a in f["args"]),
                                        "true" if f["void"] else "false", "true" if f["dots"] else "false")
                      for f in d["funcs"])
    arrays = "; ".join("ALOpen" if a is None else ("ALLit %s" % cs(a[1]) if a[0] == "lit" else "ALName %s" % cs(a[1]))
                       for a in d["arrays"])
    return "(D [%s] %s %s [%s] [%s])" % ("; ".join(_HITEM[h] for h in d["hdr"]), name, group, funcs, arrays)


def coq_tyexpr(t):
    return "(TE [%s] %s)" % ("; ".join(coq_stok(s) for s in t["specs"]), coq_decl(t["decl"]))


def struct_size(s):
    """size of the generated aggregates (int fields, optional trailing char array): x86-64 SysV"""
    if s["fields"] is None:
        return None
    sizes = []
    for t, n in s["fields"]:
        if t == "int":
            sizes.append((4, 4))
        else:
            k = int(n[n.index("[") + 1:n.index("]")])
            sizes.append((k, 1))
    if s["kind"] == "union":
        raw = max(sz for sz, _ in sizes)
    else:
        raw = 0
        for sz, al in sizes:
            raw = (raw + al - 1) // al * al + sz
    align = max(al for _, al in sizes)
    return (raw + align - 1) // align * align


def coq_genv_defs(idx, ctx):
    """Definitions g_c_<idx> / g_py_<idx>: the declaration context as the C parser's module sees it and as the
    in-line FFI sees it (they differ only in how a typedef'd tagged aggregate is named)"""
    aggs = []
    for s in ctx["structs"]:
        sz = struct_size(s)
        aggs.append("(%s, %s, %s)" % (_TAG[s["kind"]], cs(s["name"]), "None" if sz is None else "Some (%d)%%Z" % sz))
    for e in ctx["enums"]:
        aggs.append("(TKenum, %s, Some 4%%Z)" % cs(e["name"]))
    tds = "; ".join("(%s, %s)" % (cs(td["name"]), coq_tyexpr(td["t"])) for td in ctx["typedefs"])
    _, _, _, gl = coq_ctx_tables(ctx)
    gls = []
    for n, kind, v in gl:
        neg, val = neg_value(v)
        gls.append("(%s, GInt %s (%d)%%Z (%d)%%Z)" % (cs(n), "true" if kind == 2 else "false", neg, val))
    body = "[%s] [%s] [%s]" % ("; ".join(aggs), tds, "; ".join(gls))
    return ("Definition g_c_%d := Eval vm_compute in make_genv false %s.\n"
            "Definition g_py_%d := Eval vm_compute in make_genv true %s.\n" % (idx, body, idx, body))


def agg_size(dctx, kind, cname):
    """size of the aggregate with this ctype name (the generator's own layout computation)"""
    if kind == "enum":
        return 4
    for td in dctx["typedefs"]:
        t = td["t"]
        core = [x for x in t["specs"] if x not in QUALS]
        if td["name"] == cname and t["decl"] == empty_decl() and len(core) == 1 and isinstance(core[0], list) \
                and core[0][0] in ("struct", "union"):
            cname = "%s %s" % (core[0][0], core[0][1])
            break
    for s in dctx["structs"]:
        if "%s %s" % (s["kind"], s["name"]) == cname:
            return struct_size(s)
    return None


def coq_desc(d, prim_index, dctx=None):
    k = d[0]
    if k == "void":
        return "CVoid"
    if k == "prim":
        return "(CPrim %d%%Z)" % prim_index[d[1]]
    if k == "ptr":
        return "(CPtr %s)" % coq_desc(d[1], prim_index, dctx)
    if k == "arr":
        return "(CArr %s %s)" % (coq_desc(d[1], prim_index, dctx), "None" if d[2] is None else "(Some (%d)%%Z)" % d[2])
    if k == "func":
        return "(CFunc %s [%s] %s)" % (coq_desc(d[1], prim_index, dctx), "; ".join(coq_desc(a, prim_index, dctx) for a in d[2]),
                                       "true" if d[3] else "false")
    if k == "agg":
        sz = agg_size(dctx, d[1], d[2])
        return "(CAgg %s %s %s)" % ({"struct": "AStruct", "union": "AUnion", "enum": "AEnum"}[d[1]], cs(d[2]),
                                    "None" if sz is None else "(Some (%d)%%Z)" % sz)
    raise ValueError(d)


def coq_res(r, prim_index, dctx=None):
    if "ok" in r:
        return "(Some %s)" % coq_desc(r["ok"], prim_index, dctx)
    return "None"


def has_agg(d):
    if d[0] == "agg":
        return True
    if d[0] in ("ptr", "arr"):
        return has_agg(d[1])
    if d[0] == "func":
        return has_agg(d[1]) or any(has_agg(a) for a in d[2])
    return False


def prim_index_from_source(repo):
    """primitive_name[] of realize_c_type.c (index = _CFFI_PRIM_xxx); fail closed"""
    import re
    text = open(repo + "/src/c/realize_c_type.c").read()
    m = re.search(r"static const char \*primitive_name\[\] = \{(.*?)\};", text, re.S)
    if not m:
        raise RuntimeError("primitive_name[] not found in realize_c_type.c")
    names = re.findall(r'NULL|"([^"]*)"', m.group(1))
    items = re.findall(r'(NULL|"[^"]*")', m.group(1))
    out = {}
    for i, it in enumerate(items):
        if it != "NULL":
            out[it.strip('"')] = i
    if len(out) < 40 or out.get("int") != 7:
        raise RuntimeError("unexpected primitive_name[] table")
    return out
