"""C25 — every declared name is found by the runtime lookup of generated tables.

Tie: (a) src/c/parse_c_type.c compiled unmodified into a harness; search_in_{globals,
struct_unions,typenames,enums} vs the Coq model `search_sorted` on sorted *and* unsorted
tables (byte strings 1..255); (b) real out-of-line ABI modules (and one API module in
thorough) generated from adversarial identifier sets: every declared name must resolve to
its own entry, near-miss names must not be found.
"""
import os
import subprocess

from lib import vlib
from lib.vlib import cbytes, clist, copt, cn
from props import c25_regen

ID = "C25"


def regen(ctx):
    """coq/C25/Gen.v <- search_sorted / MAKE_SEARCH_FUNC of src/c/parse_c_type.c + sort keys of recompiler.py"""
    c25_regen.regen_file(vlib, ctx, "C25")

ALPH = b"abAB_01"


def rand_name(rng, raw):
    n = rng.choice([1, 1, 2, 2, 3, 3, 4, 5, 8])
    if raw:
        pool = rng.choice([b"ab", b"a\x01\xff", ALPH, bytes(range(1, 256))])
        return bytes(rng.choice(pool) for _ in range(n))
    first = rng.choice(b"abAB_")
    return bytes([first]) + bytes(rng.choice(ALPH) for _ in range(n - 1))


def gen_table(rng, raw):
    size = rng.choice([0, 1, 2, 3, 4, 5, 7, 8, 9, 16, 17, 33])
    names = set()
    while len(names) < size:
        style = rng.random()
        if names and style < 0.5:      # extend / truncate / mutate an existing name
            b = rng.choice(sorted(names))
            k = rng.random()
            if k < 0.4:
                b = b + bytes([rng.choice(ALPH)])
            elif k < 0.7 and len(b) > 1:
                b = b[:-1]
            else:
                i = rng.randrange(len(b))
                b = b[:i] + bytes([rng.choice(ALPH if not raw else bytes(range(1, 256)))]) + b[i + 1:]
            if not raw and (b[0:1].isdigit() or not b):
                continue
            names.add(b)
        else:
            names.add(rand_name(rng, raw))
    return sorted(names)


def keys_for(rng, table, raw):
    ks = list(table)
    for t in table:
        ks.append(t + bytes([rng.choice(ALPH)]))
        if len(t) > 0:
            ks.append(t[:-1])
        ks.append(t[:-1] + bytes([max(1, (t[-1] + rng.choice([-1, 1])) % 256)]))
    ks += [rand_name(rng, raw) for _ in range(3)] + [b""]
    seen, out = set(), []
    for k in ks:
        if k not in seen and b"\0" not in k:
            seen.add(k)
            out.append(k)
    return out


# the byte that follows the (length-delimited) key in the caller's buffer: in a type string an
# identifier is followed by [ ] * ( ) , space or the terminator; lib.<name> is NUL-terminated
TRAILS = [0x5a, 0x5b, 0x5d, 0x2a, 0x20, 0x28, 0x29, 0x2c, 0x00, 0x30, 0x7a, 0x5f, 0x41]


def generate(ctx):
    rng = ctx.rng
    cases = []
    for i in range(ctx.n(150, 900)):
        raw = rng.random() < 0.5
        table = gen_table(rng, raw)
        unsorted = rng.random() < 0.15
        if unsorted:
            rng.shuffle(table)
        cases.append(dict(kind="raw", fn=rng.randrange(4), table=[t.hex() for t in table],
                          keys=["%s %02x" % (k.hex(), rng.choice(TRAILS))
                                for k in keys_for(rng, [bytes(t) for t in table], raw)],
                          sorted=not unsorted))
    for i in range(ctx.n(6, 30)):
        table = [t for t in gen_table(rng, False) if t]
        cases.append(dict(kind="module", mode="abi", names=[t.decode() for t in table]))
    # names that collide with module-like attributes of the lib object (lib.__dict__, lib.__all__, ...)
    special = ["__all__", "__dict__", "__class__", "__name__", "__loader__", "__spec__", "__doc__", "__file__",
               "__name", "__name___", "__all___x", "__version__", "_", "__", "___", "__init__", "__path__",
               "__package__", "__cached__", "__builtins__"]
    for i in range(ctx.n(2, 8)):
        k = len(special) if i == 0 else rng.randrange(3, len(special))
        cases.append(dict(kind="module", mode="dunder", names=sorted(rng.sample(special, k))))
    # names inherited through sibling / chained ffi.include() of out-of-line modules
    for i in range(ctx.n(4, 16)):
        table = [t for t in gen_table(rng, False) if t][:9]
        if len(table) >= 2:
            cases.append(dict(kind="module", mode="include", shape=["siblings", "chain"][i % 2],
                              names=[t.decode() for t in table]))
    # the same identifier in several name spaces (struct n / enum n / typedef n: three tables); in the cases with a
    # "clash", one identifier is declared as struct AND union: two records with the same key in _struct_unions
    for i in range(ctx.n(4, 12)):
        table = [t.decode() for t in gen_table(rng, False) if t][:8] or ["x"]
        cases.append(dict(kind="module", mode="samename", names=table,
                          clash=rng.choice(table) if i % 2 == 0 else None))
    if ctx.thorough:
        for i in range(3):
            table = [t for t in gen_table(rng, False) if t]
            cases.append(dict(kind="module", mode="api", names=[t.decode() for t in table]))
    return cases


def finding_key(case, failure):
    """known-finding class of a failure, or None. struct-union-same-tag: the case declares `struct x` and `union x`
    in one cdef and the failure is about resolving exactly one of these two tags"""
    if case.get("mode") == "samename" and case.get("clash") and failure.startswith("tagclash: ") \
            and ("'struct %s'" % case["clash"] in failure or "'union %s'" % case["clash"] in failure):
        return "struct-union-same-tag"
    return None


def build_harness(ctx):
    s = ctx.scratch()
    exe = os.path.join(s.dir, "c25_harness")
    if not os.path.exists(exe):
        src = os.path.join(vlib.ROOT, "tools", "props", "c", "c25_harness.c")
        p = subprocess.run(["gcc", "-w", "-O1", "-o", exe,
                            '-DPARSE_C_TYPE_C="%s"' % os.path.join(vlib.REPO, "src/c/parse_c_type.c"),
                            "-I" + os.path.join(vlib.REPO, "src/c"), src], capture_output=True, text=True)
        if p.returncode:
            raise vlib.BuildError(p.stderr[-2000:])
    return exe


def evaluate(ctx, cases):
    raw = [c for c in cases if c["kind"] == "raw"]
    mods = [c for c in cases if c["kind"] == "module"]
    if raw:
        exe = build_harness(ctx)
        inp = []
        for c in raw:
            inp.append("T %d %d" % (c["fn"], len(c["table"])))
            inp += c["table"]
            inp += ["K " + k for k in c["keys"]]
        p = subprocess.run([exe], input="\n".join(inp) + "\n", capture_output=True, text=True, timeout=300)
        if p.returncode:
            ctx.violation(raw[0], "parse_c_type.c harness crashed: rc=%d" % p.returncode)
            return
        res = [int(x) for x in p.stdout.split()]
        pos, coqcases, owner = 0, [], []
        for ci, c in enumerate(raw):
            table = [bytes.fromhex(t) for t in c["table"]]
            for k in c["keys"]:
                r = res[pos]
                pos += 1
                ctx.count()
                key = bytes.fromhex(k.split(" ")[0])
                # property predicate on the implementation (sorted tables only)
                if c["sorted"]:
                    want = table.index(key) if key in table else -1
                    if r != want:
                        ctx.violation(dict(c, keys=[k]), "search_in_* returned %d for key %r, table index is %d"
                                      % (r, key, want))
                    if want >= 0 and any(t != key and (t.startswith(key) or key.startswith(t)) for t in table):
                        ctx.nontrivial(("prefix", c["table"], k))
                    elif want < 0 and any(t.startswith(key) or key.startswith(t) for t in table if t):
                        ctx.nontrivial(("nearmiss", c["table"], k))
                coqcases.append((vlib.cpair(clist([cbytes(t) for t in table]), cbytes(key)),
                                 copt(cn(r)) if r >= 0 else "None"))
                owner.append((ci, k))
            ctx.hist("table_size", len(table))
            ctx.hist("sorted", c["sorted"])
        bad, outs, err = vlib.coq_mismatches(
            ["C25.Model"], "fun tk => search_sorted_N (fst tk) (snd tk)", "opt_eqb N.eqb", coqcases)
        if err:
            ctx.obligation_broken("C25 model evaluation", err)
        for i in bad:
            ci, k = owner[i]
            ctx.mismatch(dict(raw[ci], keys=[k]),
                         "model search_sorted = %s, parse_c_type.c returned %s" % (outs.get(i), coqcases[i][1]),
                         "C25.Model.search_sorted vs parse_c_type.c search_sorted")
        for c in raw[:2]:
            ctx.sample(dict(c, keys=c["keys"][:6]))
    if mods:
        s = ctx.scratch()
        out, p = s.run_worker("c25_worker.py", dict(cases=mods), timeout=1200)
        if out is None:
            ctx.violation(mods[0], "module worker failed: " + (p.stderr[-1500:] or p.stdout[-500:]))
            return
        for c, r in zip(mods, out["results"]):
            ctx.count(r["lookups"])
            ctx.hist("module_mode", c["mode"])
            if r["lookups"] > 3:
                ctx.nontrivial(("module", c["mode"], c["names"]))
            for f in r["failures"]:
                ctx.violation(c, "generated %s module: %s" % (c["mode"], f), key=finding_key(c, f))
            if c["mode"] == "samename" and c.get("clash") and \
                    sum(1 for f in r["failures"] if finding_key(c, f)) > 1:
                # the known defect loses ONE of the two tags; losing both is something else
                ctx.violation(c, "generated samename module: both struct and union %s are lost" % c["clash"])
        ctx.sample(mods[0])


def run(ctx):
    ctx.cov["rule"] = ("raw: random byte-string tables (50% C identifiers, 50% bytes 1..255; names derived from each "
                       "other by extension/truncation/one-byte change), looked up through the four search_in_* "
                       "functions of the unmodified parse_c_type.c and compared with the Coq model (also on unsorted "
                       "tables) and with list.index (sorted tables); module: generated ABI/API modules over such name "
                       "sets, every declared name resolved through ffi.typeof/integer_const/lib and near-miss names "
                       "refused; samename: one identifier declared as struct, enum and typedef (and, in half of the cases, "
                       "also as union: duplicate key in _struct_unions), each resolved and compared with the in-line FFI. "
                       "Non-trivial = key is a proper prefix/extension of another entry or a near miss of one, "
                       "or a module with > 3 lookups; distinct by (table, key).")
    ctx.assumptions += [
        "C25/Gen.v regenerated from search_sorted/MAKE_SEARCH_FUNC by the token matcher tools/props/c25_regen.py and "
        "proved equal to the hand model C25/Model.v; also tied to parse_c_type.c by this run's differential test",
        "strncmp compares bytes as unsigned char (glibc)",
        "Python's list.sort on ASCII identifiers orders by byte value (checked on the generated modules by lookup)"]
    evaluate(ctx, generate(ctx))

MANIFEST = dict(
    technique="Coq proof (binary-search loop invariant, unbounded tables/keys) about search_sorted as REGENERATED from "
              "parse_c_type.c on every run + differential correspondence with the unmodified parse_c_type.c and "
              "generated modules",
    text="Proof: for every strictly byte-sorted table of NUL-free names and every key, search_sorted returns the key's "
         "own index or reports absence exactly when absent (C25_search_sorted_correct, C25_own_entry); an insertion sort "
         "by byte order of any duplicate-free name set yields such a table (C25_python_sort_gives_table, "
         "C25_declared_iff_found). Tie: coq/C25/Gen.v is translated from search_sorted and MAKE_SEARCH_FUNC on every run "
         "(initial bounds, loop condition, middle, every condition and action of the if-chain, the early return on an "
         "empty table, the four instantiations, the `name` key field, the three sort keys of recompiler.py); "
         "C25_gen_is_model / C25_gen_search_is_model prove the regenerated function equal to the model for all inputs, "
         "C25_search_in_correct / C25_search_in_declared_iff_found restate the headline for it, "
         "C25_tables_searched_on_name pins the tables. The compiled parse_c_type.c and the model are also run on the same "
         "tables (sorted and unsorted), and every name of generated ABI/API modules is looked up, including the same "
         "identifier in several name spaces (struct/enum/typedef; struct+union = known finding struct-union-same-tag).",
    note="Regenerated (fail closed): search_sorted, MAKE_SEARCH_FUNC, instantiation list, name fields of parse_c_type.h, "
         "sort keys. Correspondence only: that list.sort/sorted on str orders like bytes for ASCII identifiers "
         "(py_sorted is a Coq insertion sort, not a translation of Python), include delegation, lib.<name> attribute "
         "lookup, get_common_type (fifth client of search_sorted). Index arithmetic is on nat: `left + right` as C int is "
         "exact below 2^30 entries (not stated as a hypothesis). Trusted: Coq kernel; the token matcher of "
         "c25_regen.py; glibc strncmp; gcc. Theorems closed under the global context (no axioms).",
    design_ref="DESIGN.md §4 C25")
