"""C17 — cdata equality, ordering and hashing are mutually consistent.

Tie: random pairs of real objects (primitive cdata of every primitive type incl. _Bool, long double,
complex, enums, the char types; pointer / array / struct / union / function / from_buffer / gc /
handle / callback cdata at shared, adjacent and extreme addresses; Python ints, floats, bools,
bytes, str, complex, None, lists, tuples) go through ==, !=, <, <=, >, >= in both orders, hash()
and set/dict/list membership on the real implementation; the Coq model C17.Model.run_case is
evaluated on an independent description of the pair (addresses, Python types, the converted value
computed with struct/int arithmetic, CPython's own answers on the converted values).
Independently of the model, the property predicate is evaluated on the implementation's answers.
"""
import json
import math
import os

from lib import vlib
from lib.py2coq import Untranslatable
from lib.vlib import cz, cn, cnat, clist, cpair, cbool

ID = "C17"

# ---------------------------------------------------------------- regeneration of coq/C17/Gen.v

GEN = os.path.join(vlib.COQ, "C17", "Gen.v")
PYOPS = {"Py_EQ": "OEq", "Py_NE": "ONe", "Py_LT": "OLt", "Py_LE": "OLe", "Py_GT": "OGt", "Py_GE": "OGe"}
CRELS = {"==": "OEq", "!=": "ONe", "<": "OLt", "<=": "OLe", ">": "OGt", ">=": "OGe"}
SIGNED_CASTS = {"Py_ssize_t", "ssize_t", "intptr_t", "long", "ptrdiff_t"}
UNSIGNED_CASTS = {"size_t", "uintptr_t"}


def _operand(toks):
    """[cast] v_cdata|w_cdata  ->  (signed?, side)"""
    signed = None
    if len(toks) == 4 and toks[0] == "(" and toks[2] == ")":
        if toks[1] in SIGNED_CASTS:
            signed = True
        elif toks[1] in UNSIGNED_CASTS:
            signed = False
        else:
            raise Untranslatable("cdata_richcompare: cast to %r" % toks[1])
        toks = toks[3:]
    if toks == ["v_cdata"]:
        return signed, "SV"
    if toks == ["w_cdata"]:
        return signed, "SW"
    raise Untranslatable("cdata_richcompare: operand %r" % " ".join(toks))


def translate_ptr_branch(repo):
    from props import c29
    try:
        text = c29._strip_comments(open(os.path.join(repo, "src", "c", "_cffi_backend.c")).read())
    except OSError as e:
        raise Untranslatable(str(e))
    try:
        body = c29._function_body(text, "static PyObject *cdata_richcompare(PyObject *v, PyObject *w, int op)")
        t = c29._tokens(c29._preprocess(body, set()))
    except Untranslatable as e:
        raise Untranslatable(str(e).replace("more_core()", "cdata_richcompare"))
    head = ["if", "(", "v_is_ptr", "&&", "w_is_ptr", ")", "{"]
    starts = [i for i in range(len(t)) if t[i:i + len(head)] == head]
    if len(starts) != 1:
        raise Untranslatable("cdata_richcompare: `if (v_is_ptr && w_is_ptr) {` not found exactly once")
    i = starts[0] + len(head)
    depth, j = 1, i
    while depth:
        depth += t[j] == "{"
        depth -= t[j] == "}"
        j += 1
    blk = t[i:j - 1]
    joined = " ".join(blk)
    for name, src in (("v_cdata", "v"), ("w_cdata", "w")):
        decl = "char * %s = ( ( CDataObject * ) %s ) -> c_data ;" % (name, src)
        if joined.count(decl) != 1:
            raise Untranslatable("cdata_richcompare: %s is not `char *%s = ((CDataObject *)%s)->c_data`" % (name, name, src))
        joined = joined.replace(decl, "")
    rest = joined.replace("int res ;", "").split()
    # shape B: signed difference handed to Py_RETURN_RICHCOMPARE
    if rest == "Py_ssize_t diff = v_cdata - w_cdata ; Py_RETURN_RICHCOMPARE ( diff , 0 , op ) ;".split():
        branch = "PSignedDiff"
    else:
        # shape A: switch over op
        if rest[:5] != ["switch", "(", "op", ")", "{"] or "}" not in rest:
            raise Untranslatable("cdata_richcompare: pointer branch outside the translated shapes")
        k = rest.index("}")
        inner, tail = rest[5:k], rest[k + 1:]
        if tail != "pyres = res ? Py_True : Py_False ;".split():
            raise Untranslatable("cdata_richcompare: unexpected statements after the switch: %r" % " ".join(tail))
        cases, pos = [], 0
        while pos < len(inner):
            if inner[pos] == "default":
                if inner[pos:pos + 7] != ["default", ":", "res", "=", "-", "1", ";"]:
                    raise Untranslatable("cdata_richcompare: unexpected default case")
                pos += 7
                continue
            if inner[pos] != "case" or inner[pos + 1] not in PYOPS or inner[pos + 2] != ":":
                raise Untranslatable("cdata_richcompare: unexpected token %r in the switch" % inner[pos])
            end = inner.index("break", pos)
            st = inner[pos + 3:end]
            if st[:3] != ["res", "=", "("] or st[-2:] != [")", ";"] or inner[end + 1] != ";":
                raise Untranslatable("cdata_richcompare: case %s outside the subset" % inner[pos + 1])
            expr = st[3:-2]
            rels = [x for x in range(len(expr)) if expr[x] in CRELS]
            if len(rels) != 1:
                raise Untranslatable("cdata_richcompare: case %s: expected one comparison" % inner[pos + 1])
            (sl, l), (sr, r) = _operand(expr[:rels[0]]), _operand(expr[rels[0] + 1:])
            if sl != sr:
                raise Untranslatable("cdata_richcompare: case %s mixes signed and unsigned operands" % inner[pos + 1])
            cases.append("(%s, {| pc_signed := %s; pc_l := %s; pc_rel := %s; pc_r := %s |})" % (
                PYOPS[inner[pos + 1]], "true" if sl else "false", l, CRELS[expr[rels[0]]], r))
            pos = end + 2
        branch = "PSwitch [ %s ]" % (";\n            ".join(cases))
    headtext = open(GEN + ".snapshot").read().split("Definition ptr_branch")[0]
    return (headtext + "Definition ptr_branch : pbranch :=\n  %s.\n" % branch +
            "\n(* cdata_hash: the arms tried, in source order, before `return _Py_HashPointer(c_data)` *)\n"
            "Definition hash_prog : list harm :=\n  [ %s ].\n" % "; ".join(translate_hash(text)))


# cdata_hash, whole body, token for token (after comment stripping; `ct` expanded; the 3.13 #else arm dropped)
_V_TYPE = "( ( CDataObject * ) v ) -> c_type"
_V_DATA = "( ( CDataObject * ) v ) -> c_data"
HASH_BASE = ("if ( %(t)s -> ct_flags & CT_PRIMITIVE_ANY ) { PyObject * vv = convert_to_object ( %(d)s , %(t)s ) ; "
             "if ( vv == NULL ) return - 1 ; "
             "if ( ! CData_Check ( vv ) ) { Py_hash_t hash = PyObject_Hash ( vv ) ; Py_DECREF ( vv ) ; return hash ; } "
             "Py_DECREF ( vv ) ; } return _Py_HashPointer ( %(d)s ) ;" % dict(t=_V_TYPE, d=_V_DATA))
# the one shortcut shape the language can express (HNonnegSelf), sitting inside the CT_PRIMITIVE_ANY block
_SF = "( CT_PRIMITIVE_SIGNED | CT_PRIMITIVE_FITS_LONG )"
HASH_NONNEG = ("if ( ( %(t)s -> ct_flags & %(sf)s ) == %(sf)s ) { long value ; "
               "value = ( long ) read_raw_signed_data ( %(d)s , %(t)s -> ct_size ) ; "
               "if ( value >= 0 ) return ( Py_hash_t ) value ; }" % dict(t=_V_TYPE, d=_V_DATA, sf=_SF))


def translate_hash(text):
    """text: _cffi_backend.c without comments -> list of arm constructors (fail closed)"""
    from props import c29
    try:
        body = c29._function_body(text, "static Py_hash_t cdata_hash(PyObject *v)")
    except Untranslatable as e:
        raise Untranslatable("cdata_hash: " + str(e))
    lines = [l for l in body.split("\n") if l.strip()]
    pp = [l.strip() for l in lines if l.strip().startswith("#")]
    if pp:
        # exactly: #if PY_VERSION_HEX < 0x030D0000 / return _Py_HashPointer(..) / #else / return Py_HashPointer(..) / #endif
        if pp != ["#if PY_VERSION_HEX < 0x030D0000", "#else", "#endif"]:
            raise Untranslatable("cdata_hash: unexpected preprocessor lines %r" % pp)
        k0 = [i for i, l in enumerate(lines) if l.strip() == "#if PY_VERSION_HEX < 0x030D0000"][0]
        tail = [" ".join(l.split()) for l in lines[k0:]]
        if tail != ["#if PY_VERSION_HEX < 0x030D0000", "return _Py_HashPointer(((CDataObject *)v)->c_data);", "#else",
                    "return Py_HashPointer(((CDataObject *)v)->c_data);", "#endif"]:
            raise Untranslatable("cdata_hash: the final return is not _Py_HashPointer(c_data) / Py_HashPointer(c_data)")
        lines = lines[:k0] + [lines[k0 + 1]]
    try:
        t = " ".join(c29._tokens("\n".join(lines)))
    except Untranslatable as e:
        raise Untranslatable("cdata_hash: " + str(e))
    # local alias  CTypeDescrObject *ct = ((CDataObject *)v)->c_type;
    decl = "CTypeDescrObject * ct = %s ;" % _V_TYPE
    if t.count(decl) == 1:
        t = " ".join(_V_TYPE if x == "ct" else x for x in t.replace(decl, "").split())
    # `PyObject *vv; ... vv = convert_to_object(` -> declaration with initialiser
    if t.count("PyObject * vv ;") == 1 and t.count("; vv = convert_to_object (") + t.count("} vv = convert_to_object (") == 1:
        t = " ".join(t.replace("PyObject * vv ;", "").split())
        t = t.replace(" vv = convert_to_object (", " PyObject * vv = convert_to_object (")
    arms = []
    if t.count(HASH_NONNEG) == 1 and t.index(HASH_NONNEG) > t.index("CT_PRIMITIVE_ANY ) {") \
            and t.index(HASH_NONNEG) < t.index("PyObject * vv = convert_to_object"):
        arms.append("HNonnegSelf")
        t = " ".join(t.replace(HASH_NONNEG, "").split())
    if t != HASH_BASE:
        raise Untranslatable("cdata_hash: body outside the translated shapes (conversion arm, optional "
                             "non-negative-self shortcut, final _Py_HashPointer)")
    return arms + ["HConvert"]


def regen(ctx):
    from props import c35
    c35.regen_file(ctx, GEN, translate_ptr_branch)


PRIM_INT = ["signed char", "short", "int", "long", "long long", "unsigned char", "unsigned short", "unsigned int",
            "unsigned long", "unsigned long long", "int8_t", "uint8_t", "int16_t", "uint16_t", "int32_t", "uint32_t",
            "int64_t", "uint64_t", "size_t", "ssize_t", "intptr_t", "uintptr_t", "ptrdiff_t", "enum e1", "enum e2"]
PRIM_OTHER = ["_Bool", "float", "double", "long double", "char", "char16_t", "wchar_t", "char32_t",
              "float _Complex", "double _Complex"]
PTR_CTYPES = ["void *", "char *", "int *", "struct s *", "union u *", "int(*)(int)", "void(*)(void)",
              "int **", "struct s **", "long double *"]
ADDRS = [0, 1, 8, 16, 4096, 4097, 2 ** 31, 2 ** 32, 2 ** 47, 2 ** 63 - 1, 2 ** 63, 2 ** 63 + 1, 2 ** 64 - 16,
         2 ** 64 - 1, 0x7FFFFFFFFFF0, 0xFFFFFFFFFFFFFFF0]
INTS = [0, 1, -1, 2, 5, 65, 97, 127, 128, 255, 256, -128, 32767, 65535, 65536, 2 ** 31 - 1, 2 ** 31, -2 ** 31,
        2 ** 32 - 1, 2 ** 32, 2 ** 53, 2 ** 53 + 1, 2 ** 63 - 1, 2 ** 63, -2 ** 63, 2 ** 64 - 1, 2 ** 64, 4000000000, -3,
        0x10FFFF, 0x110000, 0xD800, 0x20AC]
FLOATS = [0.0, -0.0, 1.0, 5.0, 0.1, 0.5, 1.5, 65.0, 255.0, 16777217.0, 1e300, -1e300, 3.4028235e38, 2.0 ** 63,
          float("inf"), float("-inf"), float("nan")]


def enc_float(f):
    if f != f:
        return ["float", "nan"]
    if f in (math.inf, -math.inf):
        return ["float", "inf" if f > 0 else "-inf"]
    return ["float", f.hex()]


def rand_int(rng):
    k = rng.random()
    if k < 0.7:
        return rng.choice(INTS)
    if k < 0.85:
        return rng.randrange(-300, 300)
    return rng.randrange(-2 ** 64, 2 ** 65)


def rand_py(rng, near=None):
    k = rng.random()
    if k < 0.40:
        return ["int", rand_int(rng) if near is None or rng.random() < 0.3 else near]
    if k < 0.60:
        return enc_float(rng.choice(FLOATS) if near is None or rng.random() < 0.4 else
                         (float(near) if abs(near) < 2 ** 1000 else 0.0))
    if k < 0.66:
        return ["bool", rng.random() < 0.5]
    if k < 0.76:
        n = rng.choice([1, 1, 1, 0, 2])
        return ["bytes", bytes(rng.choice([0, 65, 97, 255, (near or 0) & 0xFF]) for _ in range(n)).hex()]
    if k < 0.86:
        n = rng.choice([1, 1, 1, 0, 2])
        return ["str", [rng.choice([65, 97, 0x20AC, 0xD800, 0x10FFFF, 0, (near or 0) % 0x110000]) for _ in range(n)]]
    if k < 0.90:
        return ["complex", rng.choice(FLOATS[:10]).hex(), rng.choice([0.0, 0.0, 1.0, 0.5]).hex()]
    if k < 0.94:
        return ["none"]
    if k < 0.97:
        return ["tuple", [["int", rand_int(rng)]]]
    return ["list", [["int", rand_int(rng)]]]


def rand_prim(rng, near=None):
    k = rng.random()
    if k < 0.55:
        ct = rng.choice(PRIM_INT)
        return dict(k="prim", ctype=ct, src=["int", near if near is not None and rng.random() < 0.6 else rand_int(rng)])
    ct = rng.choice(PRIM_OTHER)
    if ct in ("float", "double", "long double"):
        if rng.random() < 0.3:
            src = ["int", near if near is not None and abs(near) < 2 ** 1000 else rng.choice(INTS)]
        else:
            src = enc_float(rng.choice(FLOATS))
        return dict(k="prim", ctype=ct, src=src)
    if ct.endswith("_Complex"):
        # cast from a real number or a complex
        src = (["complex", rng.choice(FLOATS[:10]).hex(), rng.choice([0.0, 1.0, 0.5]).hex()]
               if rng.random() < 0.6 else enc_float(rng.choice(FLOATS[:10])))
        return dict(k="prim", ctype=ct, src=src)
    return dict(k="prim", ctype=ct, src=["int", near if near is not None and rng.random() < 0.6 else rand_int(rng)])


def rand_ptr(rng, near=None):
    """near: a previously generated ptr spec, to aim at the same / an adjacent address"""
    k = rng.random()
    if near is not None and rng.random() < 0.6:
        if near["how"] == "cast":
            d = rng.choice([0, 0, 0, 1, -1, 16, -16])
            return dict(k="ptr", how="cast", ctype=rng.choice(PTR_CTYPES), addr=(near["addr"] + d) % 2 ** 64)
        base = near["base"]
    else:
        base = None
    if base is None and k < 0.35:
        return dict(k="ptr", how="cast", ctype=rng.choice(PTR_CTYPES), addr=rng.choice(ADDRS))
    base = base or rng.choice(["sarr", "sarr", "iarr", "uarr", "sptr", "frombuf", "cb", "handle", "alloc"])
    hows = {"sarr": ["base", "voidp", "elem", "addrof", "plus", "gc"],
            "iarr": ["base", "voidp", "elem", "addrof", "plus", "gc"],
            "uarr": ["base", "voidp", "elem", "addrof", "plus"],
            "sptr": ["base", "voidp", "deref", "addrof", "gc"],
            "frombuf": ["base", "voidp", "plus", "gc"],
            "cb": ["base", "voidp"], "handle": ["base", "voidp"], "alloc": ["base", "voidp", "plus"]}[base]
    how = rng.choice(hows)
    spec = dict(k="ptr", how=how, base=base)
    n = {"sarr": 8, "iarr": 4, "uarr": 3, "frombuf": 64, "alloc": 5}.get(base, 1)
    if how in ("elem", "addrof", "plus", "gc"):
        spec["i"] = rng.randrange(n) if base != "sptr" else 0
    if how == "voidp":
        spec["ctype"] = rng.choice(["void *", "char *", "struct s *", "int(*)(int)"])
        if base in ("sarr", "iarr", "uarr", "frombuf", "alloc"):
            spec["off"] = rng.choice([0, 0, 8, 12, 16, 24])
    return spec


def gen_pair(rng):
    k = rng.random()
    if k < 0.30:          # pointer-like / pointer-like
        a = rand_ptr(rng)
        b = rand_ptr(rng, near=a)
    elif k < 0.55:        # primitive / Python value
        a = rand_prim(rng)
        near = a["src"][1] if a["src"][0] == "int" else None
        b = dict(k="py", v=rand_py(rng, near=near))
        if rng.random() < 0.5:
            a, b = b, a
    elif k < 0.75:        # primitive / primitive
        a = rand_prim(rng)
        near = a["src"][1] if a["src"][0] == "int" else None
        b = rand_prim(rng, near=near)
    elif k < 0.88:        # mixed pointer-like / primitive
        a, b = rand_ptr(rng), rand_prim(rng)
        if rng.random() < 0.5:
            a, b = b, a
    else:                 # pointer-like / Python value
        a, b = rand_ptr(rng), dict(k="py", v=rand_py(rng))
        if rng.random() < 0.5:
            a, b = b, a
    case = dict(a=a, b=b)
    if rng.random() < 0.06 and a["k"] != "py":
        case["same"] = True
    return case


def generate(ctx):
    return [gen_pair(ctx.rng) for _ in range(ctx.n(2500, 40000))]


# ---------------------------------------------------------------- model literals

def c_res(o, conv_invalid):
    if o[0] == "bool":
        return "RBool %s" % cbool(o[1])
    if o[0] == "err":
        if o[1] in ("TypeError", "NotImplementedError"):
            return "RErr " + o[1]
        if conv_invalid and o[1] in ("ValueError", "SystemError"):
            return "RErr ConvError"
    return None


def c_hres(o, conv_invalid):
    if o[0] == "int":
        return "HOk %s" % cz(o[1])
    if o[0] == "err":
        if o[1] in ("TypeError", "NotImplementedError"):
            return "HErr " + o[1]
        if conv_invalid and o[1] in ("ValueError", "SystemError"):
            return "HErr ConvError"
    return None


def c_obj(oid, d, idx):
    if d["k"] == "py":
        v = "VPy %s" % cnat(idx)
    elif d["k"] == "ptr":
        v = "VPtr %s %s" % (d["pytype"], cz(d["addr"]))
    else:
        conv = {"val": "(CvVal %s)" % cnat(idx), "cdata": "CvCData", "err": "CvErr"}[d["conv"][0]]
        v = "VPrim %s %s" % (cz(d["self"]), conv)
    return "(Build_obj %s (%s))" % (cn(oid), v)


def model_case(case, r):
    """-> (input literal, expected literal) or None when an outcome is outside the model's vocabulary"""
    da, db = r["a"], r["b"]
    for d in (da, db):
        if d["k"] != "py" and d["pytype"] not in ("TBase", "TOwn", "TOwnGC", "TFromBuf", "TGCP"):
            return None
    same = bool(case.get("same"))
    invalid = any(d["k"] == "prim" and d["conv"][0] == "err" for d in (da, db))
    tbl = []
    for t in r["tbl"]:
        if t is None:
            tbl.append("[]")
        else:
            xs = [c_res(o, False) for o in t]
            if None in xs:
                return None
            tbl.append(clist(xs))
    hs = []
    for k, h in enumerate(r["hashes"]):
        if h == ["nanhash"]:      # identity-based hash of a fresh NaN object: py_hash is whatever CPython said
            h = r["res"]["ha" if k == 0 else "hb"]
        x = c_hres(h, False) if h is not None else "HErr TypeError"
        if x is None:
            return None
        hs.append(x)
    a = c_obj(1, da, 0)
    b = a if same else c_obj(2, db, 1)
    if same:
        # one object: both operands use value index 0
        b = c_obj(1, da, 0)
    exp_ab = [c_res(o, invalid) for o in r["res"]["ab"]]
    exp_ba = [c_res(o, invalid) for o in r["res"]["ba"]]
    ha, hb = c_hres(r["res"]["ha"], invalid), c_hres(r["res"]["hb"], invalid)
    if None in exp_ab or None in exp_ba or ha is None or hb is None:
        return "unmodelled"
    return (cpair(clist(tbl), clist(hs), a, b), cpair(clist(exp_ab), clist(exp_ba), ha, hb))


# ---------------------------------------------------------------- predicate on the implementation

def hash_pointer(p):
    y = ((p >> 4) | (p << 60)) & (2 ** 64 - 1)
    x = y - 2 ** 64 if y >= 2 ** 63 else y
    return -2 if x == -1 else x


def predicate(case, r):
    """the property text, on the implementation's own answers -> list of failures"""
    bad = []
    res, da, db = r["res"], r["a"], r["b"]
    eq_ab, eq_ba = res["ab"][2], res["ba"][2]
    # (1) a == b  ->  hash(a) == hash(b)
    for eq in (eq_ab, eq_ba):
        if eq == ["bool", True]:
            if res["ha"][0] != "int" or res["hb"][0] != "int" or res["ha"] != res["hb"]:
                bad.append("a == b is True but hash(a)=%r, hash(b)=%r" % (res["ha"], res["hb"]))
            for name in ("in_set", "in_dict", "in_list"):
                if res[name] != ["bool", True]:
                    bad.append("a == b is True but %s membership gives %r" % (name, res[name]))
            break
    # (1b) == and != are complementary whenever both answer
    for r6 in (res["ab"], res["ba"]):
        if r6[2][0] == "bool" and r6[3][0] == "bool" and r6[2][1] == r6[3][1]:
            bad.append("a == b and a != b both give %r" % (r6[2][1],))
            break
    # (2) pointer-like pairs compare as their addresses under all six operators
    if da["k"] == "ptr" and db["k"] == "ptr":
        x, y = da["addr"], db["addr"]
        want = [x < y, x <= y, x == y, x != y, x > y, x >= y]
        if res["ab"] != [["bool", w] for w in want]:
            bad.append("pointer-like cdata at %#x and %#x compare as %r, addresses give %r" % (x, y, res["ab"], want))
        wantr = [y < x, y <= x, y == x, y != x, y > x, y >= x]
        if res["ba"] != [["bool", w] for w in wantr]:
            bad.append("pointer-like cdata at %#x and %#x compare as %r, addresses give %r" % (y, x, res["ba"], wantr))
    # (3) primitive cdata compare and hash exactly as the Python value they convert to
    prim_ok = lambda d: d["k"] == "prim" and d["conv"][0] == "val"
    side_ok = lambda d: d["k"] == "py" or prim_ok(d)
    if (prim_ok(da) or prim_ok(db)) and side_ok(da) and side_ok(db):
        i, j = (0, 0) if case.get("same") else (0, 1)
        if r["tbl"][2 * i + j] is not None and res["ab"] != r["tbl"][2 * i + j]:
            bad.append("primitive cdata compare as %r, their converted values as %r" % (res["ab"], r["tbl"][2 * i + j]))
        if r["tbl"][2 * j + i] is not None and res["ba"] != r["tbl"][2 * j + i]:
            bad.append("primitive cdata compare as %r, their converted values as %r" % (res["ba"], r["tbl"][2 * j + i]))
    if prim_ok(da) and r["hashes"][0] != ["nanhash"] and res["ha"] != r["hashes"][0]:
        bad.append("hash of primitive cdata %r, of its converted value %r" % (res["ha"], r["hashes"][0]))
    if prim_ok(db) and not case.get("same") and r["hashes"][1] != ["nanhash"] and res["hb"] != r["hashes"][1]:
        bad.append("hash of primitive cdata %r, of its converted value %r" % (res["hb"], r["hashes"][1]))
    return bad


def classify(da, db):
    ks = sorted([da["k"], db["k"]])
    return "/".join(ks)


def evaluate(ctx, cases):
    s = ctx.scratch()
    out, p = s.run_worker("c17_worker.py", dict(cases=cases), timeout=1500)
    if out is None:
        if p.returncode < 0:
            ctx.violation(cases[0], "process died (rc=%d) while comparing/hashing cdata" % p.returncode)
            return
        raise RuntimeError("C17 worker failed: " + p.stderr[-2000:])
    coqcases, owner = [], []
    for idx, (case, r) in enumerate(zip(cases, out["results"])):
        ctx.count()
        bad = predicate(case, r)
        for b in bad[:1]:
            ctx.violation(case, b + " ; operands " + json.dumps(dict(a=r["a"], b=r["b"])))
        m = model_case(case, r)
        cls = classify(r["a"], r["b"])
        ctx.hist("pair", cls + ("(same)" if case.get("same") else ""))
        for d in (r["a"], r["b"]):
            if d["k"] == "ptr":
                ctx.hist("ptr_pytype", d["pytype"])
                ctx.hist("ptr_ckind", d["ckind"])
            elif d["k"] == "prim":
                ctx.hist("prim_conv", d["conv"][0])
        ctx.hist("eq", json.dumps(r["res"]["ab"][2]))
        if m is None or m == "unmodelled":
            ctx.mismatch(case, "outcome outside the model's vocabulary: %s" % json.dumps(r["res"]),
                         "C17.Model vs cdata_richcompare/cdata_hash")
            continue
        coqcases.append(m)
        owner.append(idx)
        # non-trivial: equal pairs, same-address pairs, cross-type pairs, errors
        if r["res"]["ab"][2] == ["bool", True] or cls in ("prim/ptr", "ptr/py") or r["res"]["ab"][0][0] == "err":
            ctx.nontrivial((case["a"], case["b"], case.get("same")))
    bad, outs, err = vlib.coq_mismatches(
        ["C17.Model"], "run_case",
        "fun x y => list_eqb res_eqb (fst (fst (fst x))) (fst (fst (fst y))) && "
        "list_eqb res_eqb (snd (fst (fst x))) (snd (fst (fst y))) && "
        "hres_eqb (snd (fst x)) (snd (fst y)) && hres_eqb (snd x) (snd y)", coqcases, shard=400)
    if err:
        ctx.obligation_broken("C17 model evaluation", err)
    for j in bad[:5]:
        idx = owner[j]
        r = out["results"][idx]
        ctx.mismatch(cases[idx], "model = %s ; implementation = %s ; operands %s" % (
            outs.get(j), json.dumps(r["res"]), json.dumps(dict(a=r["a"], b=r["b"]))),
            "C17.Model.richcompare/hash vs cdata_richcompare/cdata_hash")
    for c in cases[:3]:
        ctx.sample(c)


def run(ctx):
    ctx.cov["rule"] = ("random pairs: 30% pointer-like/pointer-like (casts at 16 boundary addresses incl. 0, 2^63, "
                       "2^64-1; views of 8 live base objects: owning arrays, struct/union elements, inner arrays, "
                       "addressof, pointer arithmetic, void*/char*/function-pointer casts with byte offsets, ffi.gc, "
                       "from_buffer, callback, handle, allocator memory — the second operand aimed at the same or "
                       "an adjacent address 60% of the time), 25% primitive/Python value, 20% primitive/primitive "
                       "(35 primitive types; second operand aimed at the same number), 13% pointer-like/primitive, "
                       "12% pointer-like/Python; 6% same object twice. Each pair: six operators both ways, hash of "
                       "both, set/dict/list membership. Non-trivial = pair that compares equal, or mixes kinds, or "
                       "raises; distinct by operand specs.")
    ctx.assumptions += [
        "coq/C17/Gen.v: the pointer branch `if (v_is_ptr && w_is_ptr) {...}` of cdata_richcompare (per operator: "
        "operands, relation, char* = unsigned or signed cast / signed difference), regenerated on every run (fail "
        "closed to the snapshot); the model's pointer comparison is defined from it and C17_ptr_compare, "
        "C17_eq_implies_hash, C17_compare_swap are re-proved on the current text",
        "coq/C17/Gen.v hash_prog: the WHOLE body of cdata_hash regenerated on every run as the list of arms tried before "
        "`return _Py_HashPointer(c_data)` (HConvert = the CT_PRIMITIVE_ANY conversion arm, token for token; HNonnegSelf "
        "= a signed|fits-long `value >= 0 -> return value` shortcut; any other text: fallback, fail closed); Model.hash "
        "is its interpreter and C17_prim_hash_every_value / C17_int_cdata_hash_every_value / C17_eq_implies_hash are "
        "re-proved on the current text",
        "hand-written model C17/Model.v of cdata_richcompare's dispatch (v_is_ptr/w_is_ptr classification, conversion "
        "loop) inside CPython's do_richcompare protocol; tied by this run's differential test",
        "pyint_hash (C17/Model.v) is CPython's long_hash on a 64-bit build: sign * (|v| mod (2^61-1)), -1 -> -2 "
        "(Example C17_pyint_hash_examples agrees with CPython on six boundary values)",
        "Section hypothesis py_eq_hash: x == y -> hash(x) == hash(y) on the non-cdata values involved (CPython's "
        "contract for int/bool/float/complex/bytes/str)",
        "Section hypothesis py_swap (only C17_py_prim_compare, C17_compare_swap): x op' y == y op x on builtin values",
        "builtin non-cdata values answer NotImplemented when compared with a cdata (modelled in `slot`)",
        "_Py_HashPointer as in CPython 3.12 (rotate right 4; -1 -> -2); 64-bit pointers compared as unsigned",
        "a primitive cdata whose raw bytes are an invalid _Bool cannot be constructed from Python; the CvErr branch "
        "is exercised through char32_t/wchar_t code points beyond 0x10FFFF instead"]
    from props import c29
    c29.settle_obligations(ctx, "C17", GEN, translate_ptr_branch)
    evaluate(ctx, generate(ctx))


MANIFEST = dict(
    technique="Coq proof (case analysis over the comparison protocol, parametric in Python's ==/hash) + differential "
              "test of compare/hash/membership on real objects against the model and against CPython on "
              "independently computed converted values",
    text="Proof: in the model of cdata_richcompare/cdata_hash embedded in CPython's do_richcompare, for any two "
         "objects at least one of which is a cdata, a == b implies hash(a) == hash(b) (given CPython's contract on "
         "the converted values); pointer-like cdata compare under all six operators as their unsigned addresses "
         "whatever their Python subtype; primitive cdata compare and hash as the value they convert to; mixed "
         "pointer-like/other pairs fall back to identity. cdata_hash is regenerated from the source (Gen.v hash_prog, "
         "interpreted by Model.hash_prim): C17_prim_hash_every_value (a primitive cdata hashes as its converted value "
         "whatever the raw integer), C17_int_cdata_hash_every_value (integer cdata: hash = CPython's int hash "
         "sign*(|v| mod (2^61-1)), -1 -> -2, for every 64-bit value and every signed/fits-long flag combination), "
         "C17_pyint_hash_small / _not_identity / _range, and C17_nonneg_shortcut_refuted (the program with a "
         "`non-negative value is its own hash` arm violates the theorem from 2^61-1 on, so such an edit breaks the "
         "proof). The pointer branch of cdata_richcompare is regenerated too (ptr_branch); the rest of its dispatch is "
         "hand-modelled. The model is tied to the code by random pairs over all "
         "cdata kinds and Python values, and the implication is tested directly incl. set/dict membership.",
    note="Trusted: Coq kernel; hand model C17/Model.v of the dispatch (differential tie); the two translators in "
         "tools/props/c17.py (ptr_branch, hash_prog); CPython's do_richcompare order and "
         "_Py_HashPointer as modelled; the harness's oracle for converted values (struct/int arithmetic). "
         "Theorems closed under the global context; CPython's == / hash contract is an explicit premise.",
    design_ref="DESIGN.md §4 C17")
