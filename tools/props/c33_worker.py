"""C33 worker: every module case is built three times from the same cdef and C source —
ffi.verify() with the CPython engine, ffi.verify(force_generic_engine=True), and
set_source()/compile() — and probed with one and the same probe function."""
import os
import sys
import traceback

sys.path.insert(0, os.path.dirname(os.path.abspath(__file__)))
import c12_worker as W  # noqa: E402

ROUTES = ["verify_cpy", "verify_gen", "set_source"]


def arg_probes(t):
    """values offered to an argument of C type t"""
    if t in W.INT_TYPES:
        size, signed = W.INT_TYPES[t]
        lo, hi = (-(1 << (8 * size - 1)), (1 << (8 * size - 1)) - 1) if signed else (0, (1 << (8 * size)) - 1)
        return [lo, hi, lo - 1, hi + 1, 1 << 70, -(1 << 70), "x", 1.5, None, True]
    return [1.5, -0.0, 7, "x", None, 1 << 70]


def outcome(fn, conv):
    try:
        return {"ok": conv(fn())}
    except Exception as e:
        return {"err": type(e).__name__ if not type(e).__name__ == "error" else "FFIError"}


def probe(m, ffi, lib):
    res = {"consts": {}, "enums": {}, "structs": {}, "vars": {}, "funcs": {}, "typedefs": {}}
    ident = lambda x: x
    for k in m["consts"]:
        res["consts"][k["name"]] = outcome(lambda: getattr(lib, k["name"]), ident)
    for e in m["enums"]:
        r = {"items": {n: outcome(lambda: getattr(lib, n), ident) for n, c, d in e["items"]}}
        r["sizeof"] = outcome(lambda: ffi.sizeof("enum " + e["name"]), ident)
        r["relements"] = outcome(lambda: dict(ffi.typeof("enum " + e["name"]).relements), ident)
        res["enums"][e["name"]] = r
    for s in m["structs"]:
        kw = ("union " if s["union"] else "struct ") + s["name"]

        def fields():
            return [[n, f.offset, ffi.sizeof(f.type)] for n, f in ffi.typeof(kw).fields]
        res["structs"][s["name"]] = {"sizeof": outcome(lambda: ffi.sizeof(kw), ident),
                                     "alignof": outcome(lambda: ffi.alignof(kw), ident),
                                     "fields": outcome(fields, ident)}
    for t in m["typedefs"]:
        res["typedefs"][t["name"]] = outcome(lambda: [ffi.sizeof(t["name"]), int(ffi.cast(t["name"], -1)) <= 0], ident)
    for v in m["vars"]:
        n = v["name"]
        r = {}
        # (ffi.addressof(lib, name) is an API-mode-only feature: not compared)
        if v["arr"] is None:
            cv = ident if W.category(v["base"]) == "int" else W.fval
            r["initial"] = outcome(lambda: getattr(lib, n), cv)

            def wr():
                setattr(lib, n, v["w1"])
                a = getattr(lib, "_hg_" + n)()
                getattr(lib, "_hs_" + n)(v["w2"])
                return [cv(a), cv(getattr(lib, n))]
            r["write_read"] = outcome(wr, ident)
            if W.category(v["base"]) == "int":
                size, signed = W.INT_TYPES[v["base"]]
                hi = ((1 << (8 * size - 1)) - 1) if signed else ((1 << (8 * size)) - 1)
                r["store_overflow"] = outcome(lambda: setattr(lib, n, hi + 1), ident)
                r["store_str"] = outcome(lambda: setattr(lib, n, "x"), ident)
        else:
            r["len"] = outcome(lambda: len(getattr(lib, n)), ident)
            r["items"] = outcome(lambda: list(getattr(lib, n)), ident)
        res["vars"][n] = r
    for f in m["funcs"]:
        fn = getattr(lib, f["name"])
        conv = W.fval if f["ret"] in W.FLOAT_TYPES else int
        calls = [outcome(lambda: fn(*call), conv) for call in f["calls"]]
        # conversion errors: one argument at a time replaced by boundary / ill-typed values
        errs = []
        base = list(f["calls"][0]) if f["calls"] else []
        for i, t in enumerate(f["args"]):
            for val in arg_probes(t):
                args = list(base)
                args[i] = val
                errs.append([i, repr(val), outcome(lambda: fn(*args), conv)])
        errs.append(["arity", "", outcome(lambda: fn(*(base + [0])), conv)])
        res["funcs"][f["name"]] = {"calls": calls, "conv": errs}
    # pointer parameters given Python lists of (partial) initialisers: the callee reads every
    # field, also those the initialiser does not name
    res["ptrcalls"] = {}
    for i, (fname, args) in enumerate(m.get("ptr_calls", [])):
        def call():
            lib.c33_dirty_stack()
            return int(getattr(lib, fname)(*args))
        res["ptrcalls"]["%d:%s" % (i, fname)] = outcome(call, ident)
    if m.get("ret_seq"):
        vals = m["ret_seq"]

        def seq():
            rs = [lib.c33_mk(v, v * 10) for v in vals]          # every result kept
            us = [lib.c33_mku(v * 7) for v in vals]
            first = rs[0]
            more = [lib.c33_mk(1000 + v, 5) for v in vals]      # later calls must not disturb earlier results
            shared = any(a is b for i, a in enumerate(rs + more) for b in (rs + more)[i + 1:]) or \
                any(a is b for i, a in enumerate(us) for b in us[i + 1:])
            return dict(structs=[[r.a, r.b, r.c] for r in rs], unions=[u.l for u in us], shared=shared,
                        pass_first=int(lib.c33_pp_val(rs[0])), pass_first_union=int(lib.c33_pu_val(us[0])),
                        kept_after_more=[first.a, first.b, first.c])
        res["retseq"] = outcome(seq, ident)
    return res


def build(m, route, work):
    import cffi
    csrc, cdefs, twins = W.module_texts(m)
    if route == "set_source":
        return W.build_api(m, work, csrc, cdefs)
    ffi = cffi.FFI()
    for text, packed in cdefs:
        if text.strip():
            ffi.cdef(text, packed=packed)
    lib = ffi.verify(W.PRELUDE + csrc + m.get("raw_c", ""), tmpdir=work, force_generic_engine=(route == "verify_gen"),
                     modulename="%s_%s" % (m["name"], route))
    return ffi, lib


def one(task):
    m, route = task
    work = os.path.join(os.environ["VERIF_WORK"], "%s_%s" % (m["name"], route))
    os.makedirs(work, exist_ok=True)
    try:
        import warnings
        warnings.simplefilter("ignore")
        ffi, lib = build(m, route, work)
    except Exception as e:
        return {"build_error": W.errname(e), "msg": (str(e) or traceback.format_exc())[-600:]}
    try:
        return {"probe": probe(m, ffi, lib)}
    except Exception:
        return {"harness_error": traceback.format_exc()[-2000:]}


def main(payload):
    cases = payload["cases"]
    tasks = [(m, r) for m in cases for r in ROUTES]
    mods = [(m,) + tuple(W.module_texts(m)[i] for i in (0, 2)) for m in cases]
    allfacts, err = W.run_facts(mods, os.path.join(os.environ["VERIF_WORK"], "facts_%d" % os.getpid()))
    res = W.run_tasks(os.path.abspath(__file__), tasks, int(payload.get("jobs", 6)))
    out = []
    for i, m in enumerate(cases):
        out.append(dict(name=m["name"], facts=(allfacts or {}).get(m["name"], {}), facts_error=err,
                        routes={r: res[i * len(ROUTES) + j] for j, r in enumerate(ROUTES)}))
    return dict(results=out)


if __name__ == "__main__":
    import json
    devnull = os.open(os.devnull, os.O_WRONLY)
    os.dup2(devnull, 2)
    if len(sys.argv) == 3 and sys.argv[1] == "--task":
        res = one(json.load(open(sys.argv[2])))
        sys.stdout.write("\nRESULT " + json.dumps(res) + "\n")
    else:
        from lib.vlib import worker_main
        worker_main(main)
